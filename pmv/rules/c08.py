"""C08 - reaction quantities obey Hess's law, reversal symmetry and detailed balance."""
import ast
from fractions import Fraction as Fr

from ..nf import Rat, C
from ..source import Unsupported, AnchorError, Module
from ..xlate import Interp, Obj, ListV, DictV, Raised, FuncRef, Frame, Elem, _RaisedExc
from .common import same, show, sub, opaque_obj
from .rxnfix import (reaction, state_sum, get_public, species, make_reaction, SPECIES_METHODS,
                     SPECIES_PARAMS)

CLASSES = (('Reaction', 'pmutt.reaction.Reaction'),
           ('ChemkinReaction', 'pmutt.reaction.ChemkinReaction'),
           ('SurfaceReaction', 'pmutt.omkm.reaction.SurfaceReaction'))
QUANT = ('q', 'CvoR', 'CpoR', 'UoRT', 'HoRT', 'SoR', 'FoRT', 'GoRT', 'EoRT')
CLAMPED = {('ChemkinReaction', 'HoRT'), ('ChemkinReaction', 'GoRT'),
           ('SurfaceReaction', 'HoRT'), ('SurfaceReaction', 'GoRT')}
UNIT_GETTERS = (('E', 'EoRT', True), ('H', 'HoRT', True), ('G', 'GoRT', True), ('U', 'UoRT', True),
                ('F', 'FoRT', True), ('S', 'SoR', False), ('Cp', 'CpoR', False), ('Cv', 'CvoR', False))
STATES = (('reactants', 'r'), ('products', 'p'), ('transition state', 't'), ('transition_state', 't'), ('TS', 't'))


# A model species of the second kind.  Every species-level class of pMuTT (StatMech, Nasa, Nasa9, Shomate, ...) has
# getters that accept **kwargs, take what they read from them and ignore the rest; a reaction therefore hands them
# everything it has for them.  The getters of such a species are functions ``get_X(T, **kwargs)`` written here (the
# interpreter sees a callable with a VAR_KEYWORD parameter, as inspect.signature reports for the real classes); their
# value is the same uninterpreted atom as for the species with a fixed signature, named by the conditions a species
# reads (SPECIES_PARAMS) - a key it does not know, a block of conditions addressed to a species (which no empirical
# class looks for: sorting the blocks out is the reaction's business), is ignored as the real classes ignore it.
_KW_MODULE = Module('rule_C08.model_species', 'rule_C08/model_species.py', '<rule C08: model species>',
                    ''.join('def %s(T, **kwargs):\n    return _record(T=T, **kwargs)\n\n\n' % m for m in SPECIES_METHODS))
_KW_GETTERS = {f.name: f for f in _KW_MODULE.tree.body}


class _Record:
    def __init__(self, obj, method):
        self.obj, self.method = obj, method

    def pmv_call(self, I, fr, args, kwargs, n):
        if args:
            raise Unsupported('model species %s.%s called with positional arguments' % (self.obj.name, self.method), n)
        return self.obj.opaque_methods[self.method](I, self.obj, [],
                                                    {k: kwargs[k] for k in SPECIES_PARAMS if k in kwargs})


def accept_kwargs(I, repo, sp):
    """turn the model species ``sp`` into one whose getters are ``(T, **kwargs)`` functions"""
    for m in SPECIES_METHODS:
        sp.attrs[m] = FuncRef(_KW_MODULE, _KW_GETTERS[m], None, None, closure={'_record': _Record(sp, m)})
    return sp



def call(I, obj, name, args, kwargs):
    """``obj.name(*args, **kwargs)`` as a user writes it: the attribute is read through the object (a def of the class
    or of a base class, a function the class body binds to the name, the closure a factory returned for it) and what
    it evaluates to is called.  An exception the call raises is its value (``Raised``)."""
    fr = Frame(I, obj.ci.module, {}, None, None)
    try:
        return fr.apply(fr.obj_attr(obj, name), list(args), dict(kwargs))
    except _RaisedExc as r:
        return r.raised


def assign(I, obj, attr, value):
    """``obj.attr = value`` as a user writes it - the interpreter's own attribute store: the setter of a property,
    whatever else the class does when one of its attributes is assigned"""
    fr = Frame(I, obj.ci.module, {'obj': obj}, None, None)
    try:
        fr.assign(ast.parse('obj.%s' % attr, mode='eval').body, value)
    except _RaisedExc as r:
        raise Unsupported('%s.%s = ... raised %s for the model reaction' % (obj.name, attr, r.raised.exc))


def where(repo, ci, name, missing_ok=False):
    """(owner class, node) at which a finding about the public member ``name`` of ``ci`` is reported: its def; when
    the class binds the name to a value made in another way (the closure a factory returns, ``name = make(...)`` in
    the class body - the interpreter calls whatever the class attribute evaluates to) the expression that makes it.
    The rule needs no more of it than a file and a line."""
    got = repo.find_method(ci, name, missing_ok=True)
    if got is not None:
        return got[0], got[1]
    for k in ci.mro:
        if name in k.class_attrs:
            repo.consulted.add(k.module)
            return k, k.class_attrs[name]
    if missing_ok:
        return None
    raise AnchorError('member %s not found in MRO of %s' % (name, ci.qual))


COEFF_PREFIXES = ('nu_', 'nu<', 'mu_', 'la_', 'ka_')     # the names the fixtures give to stoichiometric coefficients


class GenericCoefficients:
    """Ordering oracle of the symbolic reactions.  A stoichiometric coefficient of a fixture is a generic number of the
    quantifier's range (0.25-4, fractional included): a test ``coeff == c`` / ``coeff != c`` against a number the
    program writes is answered "different" - which is what it is for all coefficients but one - and ``c`` is
    remembered: the laws are then decided once more on reactions in which coefficients *are* ``c`` (step 10), so both
    branches of the case split meet the reference.  Everything else stays undecided (exit 2)."""

    def __init__(self):
        self.special = set()        # the numbers a coefficient was compared with
        self.done = set()           # ... that have had their instance

    @staticmethod
    def coefficient(r):
        ats = r.atoms() if isinstance(r, Rat) else ()
        if len(ats) != 1:
            return False
        a, = ats
        return a.startswith(COEFF_PREFIXES) and r.eq(Rat.atom(a))

    def __call__(self, a, op, b):
        if op not in ('==', '!='):
            return None
        for x, y in ((a, b), (b, a)):
            if self.coefficient(x) and isinstance(y, Rat) and (y.is_const() or y.iszero()):
                self.special.add(Fr(0) if y.iszero() else Fr(y.const_value()))
                return op == '!='
        return None


# exp in doubles: above EXP_MAX the result is inf, below EXP_MIN it is 0.0 - the value is lost either way
EXP_MAX, EXP_MIN = Fr(70978, 100), Fr(-74513, 100)


def watch_exp(I):
    """the concrete reactions know the number every ``exp`` is applied to: the ones outside the range of doubles are
    recorded as (argument, module, node)"""
    seen = []
    for key in ('numpy.exp', 'math.exp'):
        base = I.native.get(key)
        if base is None:
            continue

        def h(I_, fr, args, kwargs, n, base=base):
            v = args[0] if args else kwargs.get('x')
            if isinstance(v, Rat) and (v.is_const() or v.iszero()):
                x = Fr(0) if v.iszero() else Fr(v.const_value())
                if x > EXP_MAX or x < EXP_MIN:
                    seen.append((x, getattr(fr, 'module', None), n))
            return base(I_, fr, args, kwargs, n)
        I.native[key] = h
    return seen


def vectorised(sp):
    """the getters of the model species ``sp`` evaluate arrays element by element, as the empirical classes do: given
    a vector of unknown length for a condition, the value is the vector whose generic element is the species' value at
    the generic element of the condition"""
    for m in SPECIES_METHODS:
        def h(I_, obj, args, kwargs, base=sp.opaque_methods[m]):
            if any(isinstance(v, Elem) for v in args):
                raise Unsupported('model species %s called with a vector by position' % obj.name)
            if any(isinstance(v, Elem) for v in kwargs.values()):
                return Elem(base(I_, obj, args, {k: (v.r if isinstance(v, Elem) else v) for k, v in kwargs.items()}))
            return base(I_, obj, args, kwargs)
        sp.opaque_methods[m] = h
    return sp


def failed(*vals):
    """a getter that raised has no value to do arithmetic with (its own obligation has already failed)"""
    return any(isinstance(v, Raised) or v is None for v in vals)


def expected_state(I, rxn, which, method, kw):
    sp = get_public(I, rxn, which)
    nu = get_public(I, rxn, which + '_stoich')
    return state_sum(I, sp.items, nu.items, method, kw, prod=(method == 'get_q'))


def expected_delta(I, rxn, method, kw, rev, act):
    ini = 'products' if rev else 'reactants'
    fin = 'transition_state' if act else ('reactants' if rev else 'products')
    a = expected_state(I, rxn, ini, method, kw)
    b = expected_state(I, rxn, fin, method, kw)
    return b / a if method == 'get_q' else b - a


KW_SPECIES = ('H2O', 'H2O2(S)', 'H2O(S)', 'PT(B)')        # their getters accept **kwargs


def named_reaction(I, repo, qual):
    """H2 + H2O + PT(S) + Ag = [H2O2(S) + H2O_TS] = H2O(S) + h2o + PT(B): species whose names are stems, prefixes and
    case variants of one another, a name that contains the separator of the block syntax (H2O_TS, as the transition
    state of the package's own examples is called), a name that ends in letters of the suffix ``_kwargs`` itself (Ag:
    an element symbol), gas and surface phases, a catalyst site (built by its public
    constructor) whose bulk species takes part; three species per side, two in the transition state; symbolic
    coefficients; both kinds of model species (getters with a fixed signature, getters accepting **kwargs) on every
    side"""
    D = I.D
    site = I.construct(repo.cls('pmutt.chemkin.CatSite'), [],
                       {'name': 'PT(S)', 'site_density': D.sym('sden'), 'density': D.sym('rho'),
                        'bulk_specie': 'PT(B)'}, name='site')
    if isinstance(site, Raised):
        raise Unsupported('CatSite(...) raised %s' % site.exc)
    sp = {}
    for nm, ph, st in (('H2', 'G', None), ('H2O', 'G', None), ('PT(S)', 'S', site), ('H2O2(S)', 'S', site),
                       ('H2O_TS', 'G', None), ('H2O(S)', 'S', site), ('h2o', 'G', None), ('PT(B)', 'S', site),
                       ('Ag', 'G', None)):
        sp[nm] = species(I, nm, ph, st)
        if nm in KW_SPECIES:
            accept_kwargs(I, repo, sp[nm])
    sides = {'reactants': ('H2', 'H2O', 'PT(S)', 'Ag'), 'transition_state': ('H2O2(S)', 'H2O_TS'),
             'products': ('H2O(S)', 'h2o', 'PT(B)')}
    nu = {nm: D.sym('nu<%s>' % nm) for nm in sp}
    rxn = make_reaction(I, repo, qual, [sp[x] for x in sides['reactants']], [nu[x] for x in sides['reactants']],
                        [sp[x] for x in sides['products']], [nu[x] for x in sides['products']],
                        [sp[x] for x in sides['transition_state']], [nu[x] for x in sides['transition_state']],
                        name='rxn_named')
    return rxn, sp, nu, sides


def routed_state(I, fixture, which, method, shared, blocks):
    """reference: every species of the state at the shared conditions, overridden by the block that carries exactly
    its own name (and by no other)"""
    rxn, sp, nu, sides = fixture
    tot = C(0)
    for nm in sides[which]:
        kw = dict(shared)
        kw.update(blocks.get(nm, {}))
        o = sp[nm]
        x = o.opaque_methods[method](I, o, [], {k: v for k, v in kw.items() if k in o.opaque_params[method]})
        tot = tot + x * nu[nm]
    return tot


def routed_delta(I, fixture, method, shared, blocks, rev=False, act=False):
    ini = 'products' if rev else 'reactants'
    fin = 'transition_state' if act else ('reactants' if rev else 'products')
    return routed_state(I, fixture, fin, method, shared, blocks) - routed_state(I, fixture, ini, method, shared, blocks)


def as_kwargs(order, shared, blocks):
    """keyword arguments in the order the caller wrote them; blocks as fresh dictionaries"""
    out = {}
    for k in order:
        out[k] = shared[k] if k in shared else DictV(dict(blocks[k[:-len('_kwargs')]]))
    return out


def named(run, repo, cname, qual, ci, oracle=None):
    """steps 6-8: a reaction whose species have related names, surface phases and a catalyst site"""
    I = Interp(repo, order=oracle)
    D = I.D
    T, P = D.sym('T'), D.sym('P')
    fx = named_reaction(I, repo, qual)
    rxn, sp, nu, sides = fx
    kw = {'T': T, 'P': P}
    n = 0
    owner, fn = where(repo, ci, 'get_state_quantity')
    # 6. Hess's law does not depend on what the species are: surface species, a site, the bulk species of the site
    for X in QUANT:
        m = 'get_' + X
        if X == 'q':
            continue                      # products of powers: decided on the generic reaction (step 1)
        # (every change enters two states; the state getters themselves for one quantity)
        for st, which in ((('reactants', 'reactants'), ('products', 'products'), ('TS', 'transition_state'))
                          if X == 'HoRT' else ()):
            got = call(I, rxn, 'get_%s_state' % X, [], dict(kw, state=st))
            kwe = kw
            want = routed_state(I, fx, which, m, kwe, {})
            run.check(same(got, want), 'REF.state', '%s.get_%s_state' % (cname, X), 'surface species state:' + st,
                      'with surface species and the bulk species of their catalyst site among the %s the state '
                      'quantity is not the stoichiometry-weighted sum over all of them: %s' % (st, show(got, 200)),
                      owner.module, fn)
            n += 1
        for rev, act in ((False, False), (True, True)):
            got = call(I, rxn, 'get_delta_' + X, [], dict(kw, rev=rev, act=act))
            want = routed_delta(I, fx, m, kw, {}, rev, act)
            run.check(same(got, want), 'REF.delta', '%s.get_delta_%s' % (cname, X),
                      'surface species rev=%s act=%s' % (rev, act),
                      'with surface species and the bulk species of their catalyst site the change is not final '
                      'minus initial over all species: %s' % show(got, 200), owner.module, fn)
            n += 1
    Kf = call(I, rxn, 'get_Keq', [], dict(kw))
    run.check(same(Kf, D.exp(-routed_delta(I, fx, 'get_GoRT', kw, {}))), 'REF.Keq', cname + '.get_Keq',
              'surface species K=exp(-dG/RT)', 'equilibrium constant is %s, not exp(-delta G/RT) over all species'
              % show(Kf, 200), owner.module, fn)
    n += 1
    # 7. blocks are addressed by the exact name: a block for every species at once (each with its own pressure), and
    #    one block alone (nobody else may pick it up: not the species whose name is a prefix of it, not the one whose
    #    name it is a prefix or the stem of, not the one that differs in case)
    every = {nm: {'P': D.sym('P<%s>' % nm)} for nm in sp}
    cases = [('a block for every species', every)]
    for nm in ('H2', 'H2O', 'H2O(S)', 'h2o', 'H2O2(S)', 'PT(B)', 'H2O_TS', 'Ag'):
        cases.append(('a block for %s alone' % nm, {nm: {'P': D.sym('P2'), 'T': D.sym('T2')}}))
    for label, blocks in cases:
        order = ['T', 'P'] + [b + '_kwargs' for b in blocks]
        for st, which in ((('reactants', 'reactants'), ('products', 'products')) if blocks is every else ()) \
                + (('TS', 'transition_state'),):
            got = call(I, rxn, 'get_HoRT_state', [], dict(as_kwargs(order, kw, blocks), state=st))
            want = routed_state(I, fx, which, 'get_HoRT', kw, blocks)
            run.check(same(got, want), 'DATAFLOW.species-kwargs', cname + '.get_state_quantity',
                      'related names: %s, state:%s' % (label, st),
                      'species H2, H2O, H2O(S), h2o, H2O2(S), H2O_TS, PT(S), PT(B), Ag: conditions addressed to one '
                      'species by its name must reach that species and no other: %s' % show(got, 300), owner.module, fn)
            n += 1
        got = call(I, rxn, 'get_delta_GoRT', [], as_kwargs(order, kw, blocks))
        want = routed_delta(I, fx, 'get_GoRT', kw, blocks)
        run.check(same(got, want), 'DATAFLOW.species-kwargs', cname + '.get_delta_GoRT', 'related names: ' + label,
                  'conditions addressed to one species by its name must reach that species and no other: %s'
                  % show(got, 300), owner.module, fn)
        n += 1
        if blocks is every:
            got = call(I, rxn, 'get_Keq', [], as_kwargs(order, kw, blocks))
            run.check(same(got, D.exp(-want)), 'DATAFLOW.species-kwargs', cname + '.get_Keq',
                      'related names: ' + label,
                      'conditions addressed to one species by its name must reach that species and no other: %s'
                      % show(got, 300), owner.module, fn)
            n += 1
    # 8. the order in which the caller writes his keyword arguments is not part of the contract: a block wins over
    #    the shared condition of the same name wherever it stands
    blocks = {'H2O': {'T': D.sym('T2'), 'P': D.sym('P2')}}
    wantG = routed_delta(I, fx, 'get_GoRT', kw, blocks)
    wantH = routed_state(I, fx, 'reactants', 'get_HoRT', kw, blocks)
    for order in (('H2O_kwargs', 'T', 'P'), ('T', 'H2O_kwargs', 'P'), ('T', 'P', 'H2O_kwargs')):
        key = 'keyword order: ' + ', '.join(order)
        why = ('written as (%s) the block T=T2, P=P2 addressed to H2O must win over the shared T, P for H2O and '
               'for nobody else: %%s' % ', '.join(order))
        got = call(I, rxn, 'get_HoRT_state', [], dict(as_kwargs(order, kw, blocks), state='reactants'))
        run.check(same(got, wantH), 'DATAFLOW.species-kwargs', cname + '.get_state_quantity', key,
                  why % show(got, 300), owner.module, fn)
        got = call(I, rxn, 'get_delta_GoRT', [], as_kwargs(order, kw, blocks))
        run.check(same(got, wantG), 'DATAFLOW.species-kwargs', cname + '.get_delta_GoRT', key,
                  why % show(got, 300), owner.module, fn)
        n += 2
        if order[0] != 'T':
            got = call(I, rxn, 'get_Keq', [], as_kwargs(order, kw, blocks))
            run.check(same(got, D.exp(-wantG)), 'DATAFLOW.species-kwargs', cname + '.get_Keq', key,
                      why % show(got, 300), owner.module, fn)
            n += 1
    # the getters with an explicit T: the pressure block before and after the shared pressure
    blocks = {'H2O': {'P': D.sym('P2')}}
    wantS = routed_delta(I, fx, 'get_SoR', kw, blocks) * D.sym('kb') * D.sym('Na')
    for order in (('H2O_kwargs', 'T', 'P'), ('T', 'H2O_kwargs', 'P'), ('T', 'P', 'H2O_kwargs')):
        got = call(I, rxn, 'get_delta_S', [], dict(as_kwargs(order, kw, blocks), units='J/mol/K'))
        run.check(same(got, wantS), 'DATAFLOW.species-kwargs', cname + '.get_delta_S',
                  'keyword order: ' + ', '.join(order),
                  'written as (%s) the block P=P2 addressed to H2O must win over the shared P for H2O and for '
                  'nobody else: %s' % (', '.join(order), show(got, 300)), owner.module, fn)
        n += 1
    return n


def positional(run, repo, cname, ci, I, rxn, kw):
    """the leading parameters of every getter in the documented order - (state), (state, units[, T]), (rev, act),
    (units[, T], rev, act), (rev), (units[, T], rev) - given by position, the conditions by keyword: the same values
    as when everything is written as a keyword (the order of the parameters is part of the public interface;
    ``rxn.get_G_act('kJ/mol', 500., True)`` is the reverse barrier).  A getter a subclass inherits is the very function
    decided on the class that defines it; the quick tier does not repeat it."""
    D = I.D
    every = run.tier == 'thorough' or cname == CLASSES[0][0]
    T = kw['T']
    rest = {k: v for k, v in kw.items() if k != 'T'}
    n = 0

    def one(rule, mname, args, kwargs, want, key, why):
        owner, fn = where(repo, ci, mname)
        if not every and owner is not ci:
            return 0
        got = call(I, rxn, mname, list(args), dict(kwargs))
        run.check(same(got, want), rule, '%s.%s' % (cname, mname), 'by position: ' + key,
                  '%s: %s' % (why, show(got, 200)), owner.module, fn)
        return 1

    for X in QUANT:
        m = 'get_' + X
        kwe = dict(kw, include_ZPE=False) if X == 'EoRT' else kw
        n += one('REF.state', 'get_%s_state' % X, ['products'], kw, expected_state(I, rxn, 'products', m, kwe),
                 "('products')", 'called as get_%s_state(\'products\', T=, P=) the value is not the sum over the '
                 'products' % X)
        n += one('REF.delta', 'get_delta_' + X, [True, False], kw, expected_delta(I, rxn, m, kw, True, False),
                 '(rev, act) = (True, False)', 'called as get_delta_%s(True, False, T=, P=) - reverse direction, no '
                 'activation - the change is not reactants minus products' % X)
        if X != 'EoRT' and (cname, X) not in CLAMPED:
            kw2 = dict(kw, include_ZPE=False) if X == 'q' else kw
            n += one('REF.act', 'get_%s_act' % X, [True], kw, expected_delta(I, rxn, m, kw2, True, True),
                     '(rev) = (True)', 'called as get_%s_act(True, T=, P=) - reverse direction - the activation '
                     'quantity is not transition state minus products' % X)
    for rev, act in ((True, False), (False, True)):
        n += one('REF.Keq', 'get_Keq', [rev, act], kw, D.exp(-expected_delta(I, rxn, 'get_GoRT', kw, rev, act)),
                 '(rev, act) = (%s, %s)' % (rev, act), 'called as get_Keq(%s, %s, T=, P=) the constant is not '
                 'exp(-delta G/RT) of that direction' % (rev, act))
    ubase = 'kJ/mol'
    Ru = D.sym('kb') * I.unit(ubase) * D.sym('Na')
    for Xd, Xn, energy in UNIT_GETTERS:
        units = ubase if energy else ubase + '/K'
        fac = Ru * T if energy else Ru
        lead, cond = ([units, T], rest) if energy else ([units], kw)
        sig_ = '(units, T' if energy else '(units'
        m = 'get_' + Xn
        if where(repo, ci, 'get_%s_state' % Xd, missing_ok=True) is not None:
            zpe = [True] if Xd == 'E' else []
            kwe = dict(kw, include_ZPE=True) if Xd == 'E' else kw
            n += one('REF.state', 'get_%s_state' % Xd, ['products'] + [units] + ([T] if energy else []) + zpe, cond,
                     I.binop('*', expected_state(I, rxn, 'products', m, kwe), fac),
                     '(state, %s%s)' % (sig_[1:], ', include_ZPE' if zpe else ''),
                     'called with the state, the unit%s%s by position the value in %s is not the sum over the '
                     'products' % (', the temperature' if energy else '', ', include_ZPE=True' if zpe else '', units))
        if where(repo, ci, 'get_delta_' + Xd, missing_ok=True) is not None:
            n += one('REF.delta', 'get_delta_' + Xd, lead + [True, False], cond,
                     I.binop('*', expected_delta(I, rxn, m, kw, True, False), fac),
                     sig_ + ', rev, act) = (..., True, False)',
                     'called as get_delta_%s%s, True, False, ...) the change in %s is not reactants minus products'
                     % (Xd, sig_, units))
        if Xd != 'E' and (cname, Xn) not in CLAMPED and \
                where(repo, ci, 'get_%s_act' % Xd, missing_ok=True) is not None:
            n += one('REF.act', 'get_%s_act' % Xd, lead + [True], cond,
                     I.binop('*', expected_delta(I, rxn, m, kw, True, True), fac), sig_ + ', rev) = (..., True)',
                     'called as get_%s_act%s, True, ...) - the reverse direction - the activation quantity in %s is '
                     'not transition state minus products' % (Xd, sig_, units))
    return n


def laws(run, repo, cname, ci, I, rxn, sides, kw, tag, what, brief=False):
    """state sums, changes and equilibrium constants of ``rxn`` against the sides written in ``sides``
    ({state: (species, coefficients)}) - not read back from the object"""
    D = I.D
    n = 0
    four = ((False, False), (True, False), (False, True), (True, True))

    def st(which, m):
        return state_sum(I, sides[which][0], sides[which][1], m, kw, prod=(m == 'get_q'))

    def dl(m, rev, act):
        a = st('products' if rev else 'reactants', m)
        b = st('transition_state' if act else ('reactants' if rev else 'products'), m)
        return b / a if m == 'get_q' else b - a

    for X in (('HoRT',) if brief else ('HoRT', 'q')):
        owner, fn = where(repo, ci, 'get_%s_state' % X)
        for label, which in (('reactants', 'reactants'), ('products', 'products'), ('TS', 'transition_state')):
            got = call(I, rxn, 'get_%s_state' % X, [], dict(kw, state=label))
            run.check(same(got, st(which, 'get_' + X)), 'REF.state', '%s.get_%s_state' % (cname, X),
                      '%s state:%s' % (tag, label),
                      '%s the state quantity of the %s is not the stoichiometry-weighted %s over the species and '
                      'coefficients the reaction has at the time of the call: %s'
                      % (what, label, 'product of powers' if X == 'q' else 'sum', show(got, 200)), owner.module, fn)
            n += 1
    for X, combos in ((('GoRT', four[::3]),) if brief else
                      (('GoRT', four), ('SoR', four[::3]), ('q', four[:1]))):
        owner, fn = where(repo, ci, 'get_delta_' + X)
        for rev, act in combos:
            got = call(I, rxn, 'get_delta_' + X, [], dict(kw, rev=rev, act=act))
            run.check(same(got, dl('get_' + X, rev, act)), 'REF.delta', '%s.get_delta_%s' % (cname, X),
                      '%s rev=%s act=%s' % (tag, rev, act),
                      '%s the change is not final minus initial over the species and coefficients the reaction has '
                      'at the time of the call: %s' % (what, show(got, 200)), owner.module, fn)
            n += 1
    owner, fn = where(repo, ci, 'get_Keq')
    for rev, act in (four[:1] if brief else four[::3]):
        got = call(I, rxn, 'get_Keq', [], dict(kw, rev=rev, act=act))
        run.check(same(got, D.exp(-dl('get_GoRT', rev, act))), 'REF.Keq', cname + '.get_Keq',
                  '%s rev=%s act=%s' % (tag, rev, act),
                  '%s the equilibrium constant is not exp(-delta G/RT) of the reaction as it is at the time of the '
                  'call: %s' % (what, show(got, 200)), owner.module, fn)
        n += 1
    return n


def reassigned(run, repo, cname, qual, ci, I, rxn, rs, ps, ts):
    """step 9: a reaction object is not frozen - all six sides have public setters - and it is not alone.  After the
    evaluations of steps 1-5: (a) the same reaction written for other amounts (new coefficients on every side, the
    species untouched), evaluated at other conditions than before; (b) other species, lists of other lengths; (c) a
    second reaction of the same class in the same session, then the first one again.  (Quick tier, subclasses and the
    repetitions of (c): the enthalpy of the three states, two changes of G and one equilibrium constant.)"""
    D = I.D
    n = 0
    brief = run.tier != 'thorough' and cname != CLASSES[0][0]
    kw2 = {'T': D.sym('T2'), 'P': D.sym('P2')}
    mu = {w: [D.sym('mu_%s%d' % (w[0], i)) for i in range(k)] for w, k in
          (('reactants', len(rs)), ('products', len(ps)), ('transition_state', len(ts)))}
    for w in mu:
        assign(I, rxn, w + '_stoich', ListV(list(mu[w])))
    sides = {'reactants': (rs, mu['reactants']), 'products': (ps, mu['products']),
             'transition_state': (ts, mu['transition_state'])}
    n += laws(run, repo, cname, ci, I, rxn, sides, kw2, 'new coefficients',
              'after reactants_stoich, products_stoich and transition_state_stoich were assigned new values', brief)
    new = [species(I, 'n%d' % i) for i in range(3)]
    accept_kwargs(I, repo, new[1])
    sides = {'reactants': ([new[0]], [D.sym('la_r0')]),
             'products': ([rs[0], new[1], ps[1]], [D.sym('la_p%d' % i) for i in range(3)]),
             'transition_state': ([new[2], ts[0]], [D.sym('la_t%d' % i) for i in range(2)])}
    for w, (sp_, nu_) in sides.items():
        assign(I, rxn, w, ListV(list(sp_)))
        assign(I, rxn, w + '_stoich', ListV(list(nu_)))
    kw = {'T': D.sym('T'), 'P': D.sym('P')}
    what = 'after all six sides were assigned new lists (1 reactant, 3 products, 2 transition-state species)'
    n += laws(run, repo, cname, ci, I, rxn, sides, kw, 'new species', what, brief)
    other = [species(I, 'o%d' % i) for i in range(4)]
    sides2 = {'reactants': (other[:2], [D.sym('ka_r0'), D.sym('ka_r1')]), 'products': (other[2:3], [D.sym('ka_p0')]),
              'transition_state': (other[3:], [D.sym('ka_t0')])}
    rxn2 = make_reaction(I, repo, qual, *[x for w in ('reactants', 'products', 'transition_state')
                                          for x in sides2[w]], name='rxn_second')
    n += laws(run, repo, cname, ci, I, rxn2, sides2, kw, 'second reaction',
              'for a second reaction object of the class (o0 + o1 = [o3] = o2) built after the first was evaluated',
              run.tier != 'thorough')
    n += laws(run, repo, cname, ci, I, rxn, sides, kw2, 'first reaction again',
              'after a second reaction object was built and evaluated, for the first one', run.tier != 'thorough')
    return n


# ---- concrete reactions ---------------------------------------------------------------------------------------------
# Everything below the species getters is arithmetic on their values, so a decision that depends on a *value* (a
# tolerance on the difference of two states, a test on a coefficient, a rounding) cannot be followed on atoms.  Two
# reactions whose species values and coefficients are exact rational numbers are evaluated through the same interpreter
# (rational arithmetic, no floating point) and compared with the sums written here:
#  N1  A = [TS] = B, conformers: every quantity of B is that of A times (1 + 4e-6), of TS times (1 - 6e-6), at the
#      magnitude electronic-structure energies have in units of RT (1e4) - changes that are small against the state
#      values and far above round-off;
#  N2  0.25 a + 0.5 b + c + 4 d = [1.5 t1 + 0.5 t2] = 2 e + 0.75 f + 0.5 c: the extreme and fractional coefficients of
#      the quantifier, a coefficient of exactly 1, a species on both sides with different coefficients.
N1_BASE = {'get_q': Fr(1234567, 1000), 'get_CvoR': Fr(25, 2), 'get_CpoR': Fr(27, 2), 'get_UoRT': Fr(-46417, 4),
           'get_HoRT': Fr(-46413, 4), 'get_SoR': Fr(127, 4), 'get_FoRT': Fr(-11636), 'get_GoRT': Fr(-11635),
           'get_EoRT': Fr(-23221, 2)}
N1 = {'reactants': (('A(S)', 1),), 'transition_state': (('TS(S)', 1),), 'products': (('B(S)', 1),)}
N1_SCALE = {'A(S)': Fr(1), 'B(S)': 1 + Fr(4, 10 ** 6), 'TS(S)': 1 - Fr(6, 10 ** 6)}
N2 = {'reactants': (('a', Fr(1, 4)), ('b', Fr(1, 2)), ('c', 1), ('d', 4)),
      'transition_state': (('t1', Fr(3, 2)), ('t2', Fr(1, 2))),
      'products': (('e', 2), ('f', Fr(3, 4)), ('c', Fr(1, 2)))}
N2_NAMES = ('a', 'b', 'c', 'd', 't1', 't2', 'e', 'f')


def n1_value(name, method):
    return N1_BASE[method] * N1_SCALE[name]


def n2_value(name, method):
    i, j = N2_NAMES.index(name), SPECIES_METHODS.index(method)
    return Fr(((i + 2) * (j + 3) * 37) % 101 + 1, 4) - 10


def numeric_species(I, repo, name, value, kwargs_kind):
    rewrite = {m: (lambda I_, obj, args, kwargs, m=m: C(value(name, m))) for m in SPECIES_METHODS}
    o = opaque_obj(I, name, {m: SPECIES_PARAMS for m in SPECIES_METHODS}, rewrite=rewrite)
    o.attrs.update({'name': name, 'phase': 'S' if name.endswith('(S)') else 'G', 'cat_site': None,
                    'elements': DictV({'A': C(1)})})
    return accept_kwargs(I, repo, o) if kwargs_kind else o


def numeric(run, repo, cname, qual, ci):
    """quick tier: per quantity one state (in turn), the forward reaction change and the reverse activation change, N2
    on the subclasses for the quantities whose getters they redefine; thorough tier: every state, every (rev, act),
    every quantity on every class"""
    n = 0
    full = run.tier == 'thorough'
    all_states = (('reactants', 'reactants'), ('products', 'products'), ('TS', 'transition_state'))
    combos = tuple((r_, a_) for r_ in (False, True) for a_ in (False, True)) if full else ((False, False), (True, True))
    own = tuple(X for X in QUANT[1:] if full or where(repo, ci, 'get_delta_' + X)[0] is ci)
    for tag, sides, value, quants in (('N1', N1, n1_value, QUANT), ('N2', N2, n2_value, own)):
        I = Interp(repo)
        D = I.D
        lost = watch_exp(I)
        names = []
        for side in sides.values():
            names += [nm for nm, _ in side if nm not in names]
        sp = {nm: numeric_species(I, repo, nm, value, k % 2 == 1) for k, nm in enumerate(names)}
        rxn = make_reaction(I, repo, qual, *[x for w in ('reactants', 'products', 'transition_state')
                                             for x in ([sp[nm] for nm, _ in sides[w]], [C(nu) for _, nu in sides[w]])],
                            name='rxn_' + tag)
        kw = {'T': C(300), 'P': C(1)}
        text = ' + '.join('%s %s' % (nu, nm) for nm, nu in sides['reactants']) + ' = [' + \
            ' + '.join('%s %s' % (nu, nm) for nm, nu in sides['transition_state']) + '] = ' + \
            ' + '.join('%s %s' % (nu, nm) for nm, nu in sides['products'])

        def state(which, m):
            if m == 'get_q':
                tot = Fr(1)
                for nm, nu in sides[which]:
                    if Fr(nu).denominator != 1:
                        raise Unsupported('fractional power of a number in the concrete reaction ' + tag)
                    tot *= value(nm, m) ** int(nu)
                return tot
            return sum((Fr(nu) * value(nm, m) for nm, nu in sides[which]), Fr(0))

        def delta(m, rev, act):
            a = state('products' if rev else 'reactants', m)
            b = state('transition_state' if act else ('reactants' if rev else 'products'), m)
            return b / a if m == 'get_q' else b - a

        for X in quants:
            m = 'get_' + X
            owner, fn = where(repo, ci, 'get_%s_state' % X)
            for st, which in (all_states if full else (all_states[QUANT.index(X) % 3],)):
                got = call(I, rxn, 'get_%s_state' % X, [], dict(kw, state=st))
                run.check(same(got, C(state(which, m))), 'REF.state', '%s.get_%s_state' % (cname, X),
                          '%s numbers state:%s' % (tag, st),
                          'for %s with the species values %s the %s have %s = %s, the getter returns %s'
                          % (text, {nm: str(value(nm, m)) for nm, _ in sides[which]}, st, X, state(which, m),
                             show(got, 120)), owner.module, fn)
                n += 1
            owner, fn = where(repo, ci, 'get_delta_' + X)
            for rev, act in combos:
                got = call(I, rxn, 'get_delta_' + X, [], dict(kw, rev=rev, act=act))
                run.check(same(got, C(delta(m, rev, act))), 'REF.delta', '%s.get_delta_%s' % (cname, X),
                          '%s numbers rev=%s act=%s' % (tag, rev, act),
                          'for %s the final and the initial state have %s = %s and %s (a change that is small '
                          'against the values is still the change): the change is %s, the getter returns %s'
                          % (text, X, state('transition_state' if act else ('reactants' if rev else 'products'), m),
                             state('products' if rev else 'reactants', m), delta(m, rev, act), show(got, 120)),
                          owner.module, fn)
                n += 1
        owner, fn = where(repo, ci, 'get_Keq')
        for rev, act in combos:
            k0 = len(lost)
            got = call(I, rxn, 'get_Keq', [], dict(kw, rev=rev, act=act))
            dG = delta('get_GoRT', rev, act)
            run.check(same(got, D.exp(C(-dG))), 'REF.Keq', cname + '.get_Keq',
                      '%s numbers rev=%s act=%s' % (tag, rev, act),
                      'for %s delta G/RT = %s, the equilibrium constant is %s, not exp(-delta G/RT)'
                      % (text, dG, show(got, 120)), owner.module, fn)
            # the constant is exp of a number of size 1e-2 ... 1e2; the states it is the change of have G/RT of size
            # 1e4: an exponential of a *state* value is inf (or 0.0) in doubles and the constant nan
            bad = lost[k0:]
            run.check(not bad, 'REF.Keq', cname + '.get_Keq',
                      '%s numbers rev=%s act=%s: exp within the range of doubles' % (tag, rev, act),
                      'for %s (G/RT of the states %s and %s, delta G/RT = %s) the equilibrium constant exp(%s) is an '
                      'ordinary number, but on the way to it exp is applied to %s: in doubles that is %s and the '
                      'constant is lost (nan, inf or 0)'
                      % (text, float(state('products' if rev else 'reactants', 'get_GoRT')),
                         float(state('transition_state' if act else ('reactants' if rev else 'products'), 'get_GoRT')),
                         float(dG), float(-dG), ', '.join(str(float(b_[0])) for b_ in bad[:3]),
                         ' / '.join('inf' if b_[0] > 0 else '0.0' for b_ in bad[:3])),
                      bad[0][1] if bad and bad[0][1] is not None else owner.module,
                      bad[0][2] if bad and bad[0][2] is not None else fn)
            n += 1
    return n


def arrays(run, repo, cname, qual, ci, oracle=None):
    """step 11: several temperatures at once.  The empirical species classes evaluate an array of temperatures element
    by element and the reaction getters hand the array through: the laws hold at each temperature, i.e. the value for
    a vector of temperatures (of unknown length) is the vector of the values - not a total over it."""
    I = Interp(repo, order=oracle)
    D = I.D
    rxn, rs, ps, ts = reaction(I, repo, qual, name='rxn_arr')
    for sp in rs + ps + ts:
        vectorised(sp)
    accept_kwargs(I, repo, rs[1])
    accept_kwargs(I, repo, ps[0])
    Tg, P = D.sym('T'), D.sym('P')
    kw = {'T': Elem(Tg), 'P': P}
    kw0 = {'T': Tg, 'P': P}                  # the generic element
    n = 0
    what = 'with T an array of temperatures the %s must be the array of the values at each temperature, it is %s'

    def one(rule, mname, kwargs, want, key):
        owner, fn = where(repo, ci, mname)
        got = call(I, rxn, mname, [], dict(kw, **kwargs))
        run.check(same(got, Elem(want)), rule, '%s.%s' % (cname, mname), 'T array ' + key,
                  what % (mname, show(got, 200)), owner.module, fn)
        return 1

    for st, which in (('reactants', 'reactants'), ('products', 'products'), ('TS', 'transition_state')):
        n += one('BRANCH-TWIN.array', 'get_HoRT_state', {'state': st}, expected_state(I, rxn, which, 'get_HoRT', kw0),
                 'state:' + st)
    for X, combos in (('GoRT', ((False, False), (True, True))), ('SoR', ((False, False),))):
        for rev, act in combos:
            n += one('BRANCH-TWIN.array', 'get_delta_' + X, {'rev': rev, 'act': act},
                     expected_delta(I, rxn, 'get_' + X, kw0, rev, act), 'rev=%s act=%s' % (rev, act))
    n += one('BRANCH-TWIN.array', 'get_q_state', {'state': 'products'}, expected_state(I, rxn, 'products', 'get_q', kw0),
             'state:products')
    n += one('BRANCH-TWIN.array', 'get_delta_q', {}, expected_delta(I, rxn, 'get_q', kw0, False, False),
             'rev=False act=False')
    for rev, act in ((False, False), (True, True)):
        n += one('BRANCH-TWIN.array', 'get_Keq', {'rev': rev, 'act': act},
                 D.exp(-expected_delta(I, rxn, 'get_GoRT', kw0, rev, act)), 'rev=%s act=%s' % (rev, act))
    Ru = D.sym('kb') * I.unit('kJ/mol') * D.sym('Na')
    n += one('BRANCH-TWIN.array', 'get_delta_H', {'units': 'kJ/mol'},
             expected_delta(I, rxn, 'get_HoRT', kw0, False, False) * Ru * Tg, 'units=kJ/mol rev=False act=False')
    n += one('BRANCH-TWIN.array', 'get_S_state', {'units': 'kJ/mol/K', 'state': 'reactants'},
             expected_state(I, rxn, 'reactants', 'get_SoR', kw0) * Ru, 'units=kJ/mol/K state:reactants')
    return n


def special_coefficients(run, repo, cname, qual, ci, oracle):
    """step 10: the numbers the program compared a coefficient with (``if coeff == 1``) are coefficients like any
    other: for each of them inside the quantifier's range two reactions r0 + r1 = [t0] = p0 + p1 in which some
    coefficients are that number and the others stay generic (both branches are taken within one sum), decided
    against the same sums.  Nothing to do for a program that does not look at the coefficients."""
    n = 0
    while True:
        todo = sorted(c for c in oracle.special if c not in oracle.done)
        if not todo:
            return n
        for c in todo:
            oracle.done.add(c)
            if not Fr(1, 4) <= c <= 4:
                continue                    # no reaction of the quantifier has this coefficient
            for tag, fixed in (('r0, p1, t0', ('r0', 'p1', 't0')), ('r1, p0', ('r1', 'p0'))):
                I = Interp(repo, order=oracle)
                D = I.D
                sp = {nm: species(I, nm) for nm in ('r0', 'r1', 'p0', 'p1', 't0')}
                accept_kwargs(I, repo, sp['r1'])
                accept_kwargs(I, repo, sp['p0'])
                nu = {nm: (C(c) if nm in fixed else D.sym('nu_' + nm)) for nm in sp}
                members = {'reactants': ('r0', 'r1'), 'products': ('p0', 'p1'), 'transition_state': ('t0',)}
                sides = {w: ([sp[x] for x in nms], [nu[x] for x in nms]) for w, nms in members.items()}
                rxn = make_reaction(I, repo, qual, *[x for w in ('reactants', 'products', 'transition_state')
                                                     for x in sides[w]], name='rxn_special')
                kw = {'T': D.sym('T'), 'P': D.sym('P')}
                n += laws(run, repo, cname, ci, I, rxn, sides, kw, 'coefficient %s of %s' % (c, tag),
                          'with the coefficient %s (a number the evaluation tests for) for %s and generic '
                          'coefficients for the other species' % (c, tag))
                # ... and the conditions addressed to these very species still reach them
                blocks = {nm: D.sym('P2<%s>' % nm) for nm in fixed}
                kwb = dict(kw, **{nm + '_kwargs': DictV({'P': p_}) for nm, p_ in blocks.items()})

                def total(which):
                    tot = C(0)
                    for nm in members[which]:
                        tot = tot + nu[nm] * sp[nm].opaque_methods['get_GoRT'](
                            I, sp[nm], [], {'T': kw['T'], 'P': blocks.get(nm, kw['P'])})
                    return tot
                owner, fn = where(repo, ci, 'get_state_quantity')
                for act, fin in ((False, 'products'), (True, 'transition_state')):
                    got = call(I, rxn, 'get_delta_GoRT', [], dict(kwb, rev=False, act=act))
                    run.check(same(got, total(fin) - total('reactants')), 'DATAFLOW.species-kwargs',
                              cname + '.get_delta_GoRT', 'coefficient %s of %s: a block for each of them, act=%s'
                              % (c, tag, act),
                              'with the coefficient %s for %s the conditions addressed to these species by name must '
                              'still reach them (and nobody else): %s' % (c, tag, show(got, 300)), owner.module, fn)
                    n += 1


def check(run, repo):
    run.explanation = (
        'Reaction, ChemkinReaction and SurfaceReaction are interpreted abstractly with uninterpreted species '
        '(2 reactants, 2 products, 1 transition-state species; symbolic stoichiometric coefficients; every species '
        'getter an atom named by its keyword arguments). Decided as identities in those atoms: every *_state getter '
        'is the stoichiometry-weighted sum (product of powers for q) over the named state for all five state '
        'spellings; every get_delta_* for the four (rev, act) combinations is final minus initial (ratio for q); '
        'reversal flips the sign; forward minus reverse activation equals the reaction change; unclamped *_act '
        'getters equal delta(act=True); Keq = exp(-delta G/RT) and K_f*K_r = 1; a keyword block addressed to one '
        'species reaches only that species; caller-supplied dictionaries are unchanged after the call. The values '
        'with units (state, change, activation) are decided in J/mol and a second unit. A second model reaction '
        '(H2 + H2O + PT(S) + Ag = [H2O2(S) + H2O_TS] = H2O(S) + h2o + PT(B); gas and surface species, a CatSite whose bulk '
        'species takes part) decides that the sums run over all species whatever their site, that a block is '
        'addressed by the exact name (stems, prefixes, case variants receive nothing; a name may contain the '
        'underscore of the block syntax) and that the order of the keyword arguments does not matter. Model species '
        'are of two kinds on every side: getters with a fixed signature and getters that accept **kwargs (as every '
        'species class of the package has them). Every getter is also called with its leading parameters by '
        'position in the documented order. After these evaluations the six sides are re-assigned through their '
        'public setters (new coefficients; new species lists of other lengths), a second reaction of the class is '
        'built in the same session, and the laws are decided again against the sides as assigned. Two reactions '
        'with exact rational species values and coefficients (conformers whose states differ by a few 1e-6 of '
        'values of size 1e4; coefficients 0.25, 0.5, 0.75, 1, 1.5, 2, 4 with a species on both sides) are evaluated '
        'in rational arithmetic first, so that a decision taken on a value (a tolerance, a rounding, a test on a '
        'coefficient) is followed and compared with the sums; there the number every exp is applied to on the way to '
        'an equilibrium constant is known and must lie in the range of doubles (the states have G/RT of size 1e4, '
        'the constant is exp of their difference). In the symbolic reactions a test of a coefficient against a number '
        '(coeff == 1) is answered "different" (generic coefficient) and the laws are decided again on reactions in '
        'which coefficients are that number. Every class is evaluated with a vector of temperatures of unknown '
        'length (model species evaluate element by element): states, changes, constants and values with units must '
        'be the vector of the scalar law.')
    run.assumptions = ['species getters are arbitrary functions of the conditions they read - T, P, include_ZPE, '
                       'ignore_q_elec - (uninterpreted atoms); a species whose getters accept **kwargs ignores '
                       'every other key, blocks addressed to species included, as the empirical classes do']
    run.undecided = ['floating-point evaluation other than the range of exp in get_Keq (the concrete reactions are '
                     'decided over the rationals); comparisons of a coefficient other than ==/!= with a number; partition '
                     'functions of concrete reactions with fractional coefficients; species whose getters ignore '
                     'their arguments; species that pick a block addressed to them out of **kwargs themselves '
                     '(StatMech) when the reaction hands it on unsorted']
    n = 0
    # 0. concrete reactions first: what they establish is reported even when a change makes a symbolic instance
    #    undecidable (a comparison of two atoms)
    for cname, qual in CLASSES:
        n += numeric(run, repo, cname, qual, repo.cls(qual))
    oracles = {}
    for cname, qual in CLASSES:
        ci = repo.cls(qual)
        oracle = GenericCoefficients()
        I = Interp(repo, order=oracle)
        D = I.D
        T, P, P2 = D.sym('T'), D.sym('P'), D.sym('P2')
        rxn, rs, ps, ts = reaction(I, repo, qual)
        # any mix of model classes: one species per end state has getters that accept **kwargs
        accept_kwargs(I, repo, rs[1])
        accept_kwargs(I, repo, ps[1])
        kw = {'T': T, 'P': P}
        for X in QUANT:
            m = 'get_' + X
            # 1. state getters
            owner, fn = where(repo, ci, 'get_%s_state' % X)
            run.fn('%s.get_%s_state' % (owner.qual, X))
            for st, which in STATES:
                got = call(I, rxn, 'get_%s_state' % X, [], dict(kw, state=st))
                # get_EoRT_state has include_ZPE=False as an explicit default which it forwards
                kwe = dict(kw, include_ZPE=False) if X == 'EoRT' else kw
                want = expected_state(I, rxn, {'r': 'reactants', 'p': 'products', 't': 'transition_state'}[which],
                                      m, kwe)
                run.check(same(got, want), 'REF.state', '%s.get_%s_state' % (cname, X), 'state:' + st,
                          'state quantity is not the stoichiometry-weighted %s over the %s: %s'
                          % ('product of powers' if X == 'q' else 'sum', st, show(got, 200)), owner.module, fn,
                          sample='%s.get_%s_state(%r) == sum nu_i x_i' % (cname, X, st) if st == 'TS' else None)
                n += 1
            # 2. delta getters
            owner, fn = where(repo, ci, 'get_delta_' + X)
            run.fn('%s.get_delta_%s' % (owner.qual, X))
            d = {}
            for rev in (False, True):
                for act in (False, True):
                    got = call(I, rxn, 'get_delta_' + X, [], dict(kw, rev=rev, act=act))
                    d[(rev, act)] = got
                    want = expected_delta(I, rxn, m, kw, rev, act)
                    run.check(same(got, want), 'REF.delta', '%s.get_delta_%s' % (cname, X),
                              'rev=%s act=%s' % (rev, act),
                              'change is not final minus initial (%s): %s'
                              % ('TS' if act else 'products/reactants', show(got, 200)), owner.module, fn)
                    n += 1
            # the flags as a caller may hold them after a comparison or a table lookup (numpy.bool_, 0/1): truthy
            # values that are not the singleton True select the same states
            for rev, act in ((0, 1), (1, 1), (1, 0)):
                got = call(I, rxn, 'get_delta_' + X, [], dict(kw, rev=C(rev), act=C(act)))
                run.check(same(got, d[(bool(rev), bool(act))]), 'REF.delta', '%s.get_delta_%s' % (cname, X),
                          'rev=%s act=%s (flags given as 0/1)' % (rev, act),
                          'with truthy flags that are not the singleton True the change is %s, with rev=%s act=%s it '
                          'is %s' % (show(got, 160), bool(rev), bool(act), show(d[(bool(rev), bool(act))], 160)),
                          owner.module, fn)
                n += 1
            if failed(*d.values()):
                ok_rev = ok_act = False
            elif X == 'q':
                ok_rev = same(d[(True, False)] * d[(False, False)], C(1))
                ok_act = same(d[(False, True)] / d[(True, True)], d[(False, False)])
            else:
                ok_rev = same(I.binop('+', d[(True, False)], d[(False, False)]), C(0))
                ok_act = same(I.binop('-', d[(False, True)], d[(True, True)]), d[(False, False)])
            run.check(ok_rev, 'ALG.reversal', '%s.get_delta_%s' % (cname, X), 'reversal',
                      'reversing the direction does not flip the sign (invert the ratio)', owner.module, fn)
            run.check(ok_act, 'ALG.hess-act', '%s.get_delta_%s' % (cname, X), 'forward-reverse',
                      'forward minus reverse activation quantity is not the reaction change', owner.module, fn)
            n += 2
            # 3. *_act == delta(act=True) for the unclamped getters
            if X != 'EoRT' and (cname, X) not in CLAMPED:
                owner, fn = where(repo, ci, 'get_%s_act' % X)
                run.fn('%s.get_%s_act' % (owner.qual, X))
                for rev in (False, True):
                    got = call(I, rxn, 'get_%s_act' % X, [], dict(kw, rev=rev))
                    kw2 = dict(kw)
                    if X == 'q':
                        kw2['include_ZPE'] = False
                    want = expected_delta(I, rxn, m, kw2, rev, True)
                    run.check(same(got, want), 'REF.act', '%s.get_%s_act' % (cname, X), 'rev=%s' % rev,
                              'activation quantity is not transition state minus %s: %s'
                              % ('products' if rev else 'reactants', show(got, 200)), owner.module, fn)
                    n += 1
        # 3b. the same law for the values with units: state value = sum nu_i * species value, change = final
        #     minus initial, under every option the getter accepts (zero-point energy for E).  The caller asks the
        #     state values, the change and the activation quantity in one unit of his choice: J/mol (every conversion
        #     factor is 1), a second molar unit and - thorough tier - a unit per molecule
        Rj = D.sym('kb') * D.sym('Na')
        unit_list = ('J/mol', 'kJ/mol') + (('kcal/mol', 'eV') if run.tier == 'thorough' else ())
        for (Xd, Xn, energy), ubase in (((a_, b_, c_), u_) for a_, b_, c_ in UNIT_GETTERS for u_ in unit_list):
            mname = 'get_%s_state' % Xd
            if where(repo, ci, mname, missing_ok=True) is None:
                continue
            owner, fn = where(repo, ci, mname)
            units = ubase if energy else ubase + '/K'
            # R in the unit asked for: kb (per molecule) times the unit factor, times Avogadro for molar units
            Ru = D.sym('kb') * I.unit(ubase) * (D.sym('Na') if ubase.endswith('/mol') else C(1))
            fac = Ru * T if energy else Ru
            utag = 'units' if ubase == 'J/mol' else 'units=%s' % units
            for zpe in ((False, True) if Xd == 'E' else (None,)):
                opt = {} if zpe is None else {'include_ZPE': zpe}
                for st, which in (('reactants', 'reactants'), ('TS', 'transition_state')):
                    got = call(I, rxn, mname, [], dict(kw, state=st, units=units, **opt))
                    kwe = dict(kw, include_ZPE=bool(zpe)) if Xd == 'E' else kw
                    want = I.binop('*', expected_state(I, rxn, which, 'get_' + Xn, kwe), fac)
                    run.check(same(got, want), 'REF.state', '%s.%s' % (cname, mname),
                              '%s state:%s%s' % (utag, st, '' if zpe is None else ' include_ZPE=%s' % zpe),
                              'state quantity in %s is not the stoichiometry-weighted sum of the species values '
                              'under the same options: %s' % (units, show(got, 200)), owner.module, fn)
                    n += 1
                dname = 'get_delta_' + Xd
                if where(repo, ci, dname, missing_ok=True) is None:
                    continue
                owner, fn = where(repo, ci, dname)
                for rev, act in ((False, False), (True, True)):
                    got = call(I, rxn, dname, [], dict(kw, rev=rev, act=act, units=units, **opt))
                    kwe = dict(kw, include_ZPE=bool(zpe)) if Xd == 'E' else kw
                    want = I.binop('*', expected_delta(I, rxn, 'get_' + Xn, kwe, rev, act), fac)
                    run.check(same(got, want), 'REF.delta', '%s.%s' % (cname, dname),
                              '%s rev=%s act=%s%s' % (utag, rev, act, '' if zpe is None else ' include_ZPE=%s' % zpe),
                              'change in %s is not final minus initial under the same options: %s'
                              % (units, show(got, 200)), owner.module, fn)
                    n += 1
            # 3c. the activation quantity with units of the unclamped getters: transition state minus the initial
            #     state of the direction asked for, at the conditions given (T, P and a block addressed to one species)
            aname = 'get_%s_act' % Xd
            if Xd == 'E' or (cname, Xn) in CLAMPED or where(repo, ci, aname, missing_ok=True) is None:
                continue
            owner, fn = where(repo, ci, aname)
            run.fn('%s.%s' % (owner.qual, aname))
            for rev in (False, True):
                got = call(I, rxn, aname, [], dict(kw, rev=rev, units=units))
                want = I.binop('*', expected_delta(I, rxn, 'get_' + Xn, kw, rev, True), fac)
                run.check(same(got, want), 'REF.act', '%s.%s' % (cname, aname), '%s rev=%s' % (utag, rev),
                          'activation quantity in %s at (T, P) is not transition state minus %s at (T, P): %s'
                          % (units, 'products' if rev else 'reactants', show(got, 200)), owner.module, fn)
                n += 1
            if ubase == 'J/mol':
                got = call(I, rxn, aname, [], dict(kw, units=units, r0_kwargs=DictV({'P': P2})))
                want = C(0)
                for grp, sgn in ((ts, 1), (rs, -1)):
                    nus = get_public(I, rxn, 'transition_state_stoich' if sgn == 1 else 'reactants_stoich').items
                    for sp, nu_ in zip(grp, nus):
                        x = sp.opaque_methods['get_' + Xn](I, sp, [], {'T': T, 'P': P2 if sp is rs[0] else P})
                        want = want + x * nu_ * C(sgn)
                want = I.binop('*', want, fac)
                run.check(same(got, want), 'DATAFLOW.species-kwargs', '%s.%s' % (cname, aname), 'species block',
                          'conditions addressed to species r0 must reach r0 (and only r0) in the activation quantity '
                          'with units: %s' % show(got, 240), owner.module, fn)
                n += 1
        # 4. equilibrium constant
        owner, fn = where(repo, ci, 'get_Keq')
        run.fn(owner.qual + '.get_Keq')
        Kf = call(I, rxn, 'get_Keq', [], dict(kw, rev=False))
        Kr = call(I, rxn, 'get_Keq', [], dict(kw, rev=True))
        dG = expected_delta(I, rxn, 'get_GoRT', kw, False, False)
        run.check(same(Kf, D.exp(-dG)), 'REF.Keq', cname + '.get_Keq', 'K=exp(-dG/RT)',
                  'equilibrium constant is %s, not exp(-delta G/RT)' % show(Kf, 200), owner.module, fn,
                  sample='%s.get_Keq == exp(-(G_products - G_reactants))' % cname)
        KfKr = None if failed(Kf, Kr) else Kf * Kr
        run.check(KfKr is not None and same(KfKr, C(1)), 'ALG.detailed-balance', cname + '.get_Keq', 'Kf*Kr=1',
                  'K_forward * K_reverse = %s, not 1' % (show(KfKr, 200) if KfKr is not None else
                                                         '%s * %s' % (show(Kf, 80), show(Kr, 80))), owner.module, fn)
        # every (direction, activation) combination: the reverse activation constant is NOT the reciprocal of the
        # forward one (different initial states, same transition state)
        for rev_, act_ in ((False, True), (True, True), (True, False)):
            Ka = call(I, rxn, 'get_Keq', [], dict(kw, rev=rev_, act=act_))
            dGa = expected_delta(I, rxn, 'get_GoRT', kw, rev_, act_)
            run.check(same(Ka, D.exp(-dGa)), 'REF.Keq', cname + '.get_Keq', 'rev=%s act=%s' % (rev_, act_),
                      '%s equilibrium constant (rev=%s) is %s, not exp(-delta G/RT) of that direction'
                      % ('activation' if act_ else 'reaction', rev_, show(Ka, 200)), owner.module, fn)
        n += 5
        # 5. keyword routing + caller dictionaries untouched
        owner, fn = where(repo, ci, 'get_state_quantity')
        run.fn(owner.qual + '.get_state_quantity')
        block = DictV({'P': P2})
        foreign = DictV({'P': D.sym('P3'), 'T': D.sym('T3')})
        snap = (dict(block.d), dict(foreign.d))
        got = call(I, rxn, 'get_HoRT_state', [], {'state': 'reactants', 'T': T, 'P': P,
                                                        'r0_kwargs': block, 'zz_kwargs': foreign})
        nu = get_public(I, rxn, 'reactants_stoich').items
        h0 = rs[0].opaque_methods['get_HoRT'](I, rs[0], [], {'T': T, 'P': P2})
        h1 = rs[1].opaque_methods['get_HoRT'](I, rs[1], [], {'T': T, 'P': P})
        run.check(same(got, h0 * nu[0] + h1 * nu[1]), 'DATAFLOW.species-kwargs', cname + '.get_state_quantity',
                  'species block', 'conditions addressed to species r0 must change only r0\'s contribution: %s'
                  % show(got, 240), owner.module, fn,
                  sample='r0_kwargs={P:P2} -> r0 at P2, r1 at P')
        same_block = block.d.keys() == snap[0].keys() and all(block.d[k] is snap[0][k] for k in snap[0])
        same_foreign = foreign.d.keys() == snap[1].keys() and all(foreign.d[k] is snap[1][k] for k in snap[1])
        run.check(same_block and same_foreign, 'EFFECT.caller-dict', cname + '.get_state_quantity', 'nested blocks',
                  'a caller-supplied per-species dictionary was modified by the evaluation (now %s / %s)'
                  % (sorted(block.d), sorted(foreign.d)), owner.module, fn)
        for meth, extra in (('get_delta_GoRT', {}), ('get_Keq', {}), ('get_G_act', {'units': 'kJ/mol'})):
            blk = DictV({'P': P2})
            call(I, rxn, meth, [], dict({'T': T, 'P': P, 'p0_kwargs': blk}, **extra))
            run.check(list(blk.d) == ['P'] and blk.d['P'] is P2, 'EFFECT.caller-dict', '%s.%s' % (cname, meth),
                      'nested blocks', 'a caller-supplied per-species dictionary was modified', owner.module, fn)
        n += 5
        # 3d. the leading parameters by position
        n += positional(run, repo, cname, ci, I, rxn, kw)
        # 9. sides re-assigned through the public setters; a second object
        n += reassigned(run, repo, cname, qual, ci, I, rxn, rs, ps, ts)
        n += named(run, repo, cname, qual, ci, oracle)
        oracles[cname] = oracle
    for cname, qual in CLASSES:
        ci = repo.cls(qual)
        # 10. the numbers a coefficient was compared with, as coefficients
        n += special_coefficients(run, repo, cname, qual, ci, oracles[cname])
        # 11. arrays of temperatures
        n += arrays(run, repo, cname, qual, ci, oracles[cname])
        n += special_coefficients(run, repo, cname, qual, ci, oracles[cname])
    run.floor('C08 instances', n, 1000)
    network(run, repo)


def network(run, repo):
    """pmutt.reaction.network keeps its own copy of get_state_quantity: it must agree (SIB)"""
    m = repo.modules.get('pmutt.reaction.network')
    if m is None:
        raise AnchorError('pmutt.reaction.network not found')
    fn = m.functions.get('get_state_quantity')
    if fn is None:
        raise AnchorError('pmutt.reaction.network.get_state_quantity not found')
    repo.consulted.add(m)
    run.fn('pmutt.reaction.network.get_state_quantity')
    oracle = GenericCoefficients()

    def one(fixed, tag):
        I = Interp(repo, order=oracle)
        D = I.D
        T, P, P2 = D.sym('T'), D.sym('P'), D.sym('P2')
        rxn, rs, ps, ts = reaction(I, repo, 'pmutt.reaction.Reaction')
        nu = get_public(I, rxn, 'reactants_stoich')
        if fixed is not None:
            nu = ListV(list(nu.items[:1]) + [C(fixed)] + list(nu.items[2:]))
        for meth in ('get_q', 'get_HoRT', 'get_GoRT'):
            got = I.call_function(m, fn, [], {'species': ListV(rs), 'stoich': nu, 'method_name': meth, 'T': T, 'P': P,
                                              'r1_kwargs': DictV({'P': P2})})
            want = C(1) if meth == 'get_q' else C(0)
            for sp, n_, p_ in zip(rs, nu.items, (P, P2)):
                x = sp.opaque_methods[meth](I, sp, [], {'T': T, 'P': p_})
                want = want * D.pow_sym(x, n_) if meth == 'get_q' else want + x * n_
            run.check(same(got, want), 'SIB.state', 'network.get_state_quantity', meth + tag,
                      'the network copy of the state evaluation disagrees with Reaction.get_state_quantity: %s'
                      % show(got, 200), m, fn, sample='network.get_state_quantity(%s) == sum nu_i x_i' % meth)

    one(None, '')
    # the numbers a coefficient is compared with, as the coefficient of the species the block is for (see step 10)
    while oracle.special - oracle.done:
        for c in sorted(oracle.special - oracle.done):
            oracle.done.add(c)
            if Fr(1, 4) <= c <= 4:
                one(c, ' coefficient %s' % c)

R = 'pmutt/reaction/__init__.py'
MUTANTS = [
    {'name': 'the last expected argument of a callee is not looked up', 'expect': ('', ''),
     'edits': [('pmutt/__init__.py', "    args = fn_code.co_varnames[:arg_count]", "    args = fn_code.co_varnames[:arg_count - 1]")]},
    {'name': 'only the first expected argument is handed on', 'expect': ('', ''),
     'edits': [('pmutt/__init__.py', "        try:\n            expected_arg_val[arg] = kwargs[arg]\n        except KeyError:\n            continue", "        try:\n            expected_arg_val[arg] = kwargs[arg]\n        except KeyError:\n            continue\n        break")]},
    {'name': 'delta is initial - final', 'expect': ('REF.delta', 'Reaction.get_delta_'),
     'edits': [(R, '            return final_quantity - initial_quantity', '            return initial_quantity - final_quantity')]},
    {'name': 'q state multiplies by coeff instead of power', 'expect': ('REF.state', 'get_q_state'),
     'edits': [(R, '**specie_kwargs)**coeff', '**specie_kwargs)*coeff')]},
    {'name': '_get_states: act with rev goes to reactants', 'expect': ('', 'get_delta_'),
     'edits': [(R, "    if act:\n        final_state = 'transition state'", "    if act and not rev:\n        final_state = 'transition state'")]},
    {'name': 'species kwargs replaced by shared kwargs', 'expect': ('DATAFLOW.species-kwargs', 'get_state_quantity'),
     'edits': [(R, '                state_quantity += \\\n                    _force_pass_arguments(method, **specie_kwargs)*coeff',
                '                state_quantity += \\\n                    _force_pass_arguments(method, **kwargs)*coeff')]},
    {'name': 'get_delta_SoR forgets rev', 'expect': ('', 'get_delta_SoR'),
     'edits': [(R, "        initial_state, final_state = _get_states(rev=rev, act=act)\n        delta_SoR", "        initial_state, final_state = _get_states(rev=False, act=act)\n        delta_SoR")]},
    {'name': 'Keq without minus sign', 'expect': ('REF.Keq', 'get_Keq'),
     'edits': [(R, 'return np.exp(-self.get_delta_GoRT(rev=rev, act=act, **kwargs))', 'return np.exp(self.get_delta_GoRT(rev=rev, act=act, **kwargs))')]},
    {'name': 'get_FoRT_act uses delta G', 'expect': ('REF.act', 'get_FoRT_act'),
     'edits': [(R, 'return self.get_delta_FoRT(rev=rev, act=True, **kwargs)', 'return self.get_delta_GoRT(rev=rev, act=True, **kwargs)')]},
    {'name': '_get_specie_kwargs pops from the nested block', 'expect': ('EFFECT.caller-dict', ''),
     'edits': [('pmutt/__init__.py', '        specie_kwargs.update(specie_specific_kwargs)', "        specie_kwargs.update(specie_specific_kwargs)\n        specie_specific_kwargs.pop('P', None)")]},
    {'name': 'get_G_act hands on neither the pressure nor the species blocks', 'expect': ('REF.act', 'get_G_act'),
     'edits': [(R, "        return self.get_GoRT_act(T=T, rev=rev, **kwargs)*T \\\n               *c.R('{}/K'.format(units))\n\n    def get_Keq(",
                "        return self.get_delta_G(units=units, T=T, rev=rev, act=True)\n\n    def get_Keq(")]},
    {'name': 'get_Cp_act drops the conditions', 'expect': ('REF.act', 'get_Cp_act'),
     'edits': [(R, "        return self.get_delta_Cp(units=units, rev=rev, act=True, **kwargs)",
                "        return self.get_delta_Cp(units=units, rev=rev, act=True)")]},
    {'name': 'species blocks looked up by the name without its phase suffix',
     'expect': ('DATAFLOW.species-kwargs', 'get_state_quantity'),
     'edits': [(R, "            specie_kwargs = _get_specie_kwargs(specie.name, **kwargs)",
                "            specie_kwargs = _get_specie_kwargs(\n                    str(specie.name).split('(')[0], **kwargs)")]},
    {'name': 'species blocks matched by prefix', 'expect': ('DATAFLOW.species-kwargs', ''),
     'edits': [('pmutt/__init__.py', "            if key == '{}_kwargs'.format(specie_name):",
                "            if key.startswith(specie_name) and key.endswith('_kwargs'):")]},
    {'name': 'species blocks matched without regard to case', 'expect': ('DATAFLOW.species-kwargs', ''),
     'edits': [('pmutt/__init__.py', "            if key == '{}_kwargs'.format(specie_name):",
                "            if key.lower() == '{}_kwargs'.format(specie_name).lower():")]},
    {'name': 'get_delta_F converts the unit in the wrong direction', 'expect': ('REF.delta', 'get_delta_F'),
     'edits': [(R, "        return self.get_delta_FoRT(rev=rev, T=T, act=act, **kwargs) * T * c.R(\n            '{}/K'.format(units))",
                "        delta_F = self.get_delta_FoRT(rev=rev, T=T, act=act, **kwargs) \\\n            * T * c.R('J/mol/K')\n        return c.convert_unit(delta_F, initial=units, final='J/mol')")]},
    {'name': 'the bulk species of a catalyst site is left out of the state sum', 'expect': ('REF.state', '_state'),
     'edits': [(R, "            # Process the inputs and methods for each specie\n",
                "            try:\n                if specie.name == specie.cat_site.bulk_specie:\n                    continue\n            except AttributeError:\n                pass\n            # Process the inputs and methods for each specie\n")]},
    {'name': 'a species block only wins over shared conditions written before it',
     'expect': ('DATAFLOW.species-kwargs', ''),
     'edits': [('pmutt/__init__.py',
                "    specie_kwargs = kwargs.copy()\n    # Remove any keys related to other species\n    for key in kwargs.keys():\n        if 'kwargs' in key:\n            temp_kwargs = specie_kwargs.pop(key, {})\n            if key == '{}_kwargs'.format(specie_name):\n                specie_specific_kwargs = temp_kwargs\n    # See if there was an entry for the specific species\n    try:\n        specie_kwargs.update(specie_specific_kwargs)\n    except (KeyError, TypeError, NameError):\n        pass\n",
                "    specie_kwargs = {}\n    for key, val in kwargs.items():\n        if 'kwargs' not in key:\n            specie_kwargs[key] = val\n        elif key == '{}_kwargs'.format(specie_name):\n            try:\n                specie_kwargs.update(val)\n            except TypeError:\n                pass\n")]},
    # white-box review, round 2
    {'name': 'the table of states is built at the first evaluation and never refreshed (whitebox2 A1)',
     'expect': ('REF.state', 'get_HoRT_state'),
     'edits': [(R, "        self.notes = notes\n", "        self.notes = notes\n        self._states = None\n"),
               (R, "        state = state.lower()\n        if state == 'reactants':",
                "        state = state.lower()\n        if self._states is None:\n            self._states = {}\n"
                "        if state in self._states:\n            return self._states[state]\n"
                "        if state == 'reactants':"),
               (R, "        return (species, species_stoich)",
                "        self._states[state] = (species, species_stoich)\n        return (species, species_stoich)")]},
    {'name': 'the coefficients of the transition state are those the constructor was given',
     'expect': ('REF.state', 'get_HoRT_state'),
     'edits': [(R, "        self.notes = notes\n",
                "        self.notes = notes\n        self._ts_stoich = self.transition_state_stoich\n"),
               (R, "            species_stoich = self.transition_state_stoich",
                "            species_stoich = self._ts_stoich")]},
    {'name': 'species whose getters accept **kwargs are handed the raw conditions (whitebox2 A2)',
     'expect': ('DATAFLOW.species-kwargs', ''),
     'edits': [(R, "_get_specie_kwargs, _is_iterable, _pass_expected_arguments,",
                "_get_specie_kwargs, _is_iterable, _pass_expected_arguments,\n                   _kwargs_allowed,"),
               (R, "            specie_kwargs = _get_specie_kwargs(specie.name, **kwargs)",
                "            if _kwargs_allowed(getattr(specie, method_name)):\n"
                "                specie_kwargs = dict(kwargs)\n"
                "            else:\n"
                "                specie_kwargs = _get_specie_kwargs(specie.name, **kwargs)")]},
    {'name': 'block keys split at the first underscore (whitebox2 A3)', 'expect': ('DATAFLOW.species-kwargs', ''),
     'edits': [('pmutt/__init__.py', "            if key == '{}_kwargs'.format(specie_name):",
                "            name, _, suffix = key.partition('_')\n"
                "            if name == specie_name and suffix == 'kwargs':")]},
    {'name': 'get_G_act takes P before rev (whitebox2 A4)', 'expect': ('REF.act', 'Reaction.get_G_act'),
     'edits': [(R, "    def get_G_act(self, units, T, rev=False, **kwargs):",
                "    def get_G_act(self, units, T, P=c.P0('bar'), rev=False, **kwargs):", 0, 2),
               (R, "        return self.get_GoRT_act(T=T, rev=rev, **kwargs)*T \\\n               *c.R('{}/K'.format(units))\n\n    def get_Keq(",
                "        return self.get_GoRT_act(T=T, P=P, rev=rev, **kwargs)*T \\\n               *c.R('{}/K'.format(units))\n\n    def get_Keq(")]},
    {'name': 'get_delta_SoR takes act before rev', 'expect': ('REF.delta', 'get_delta_SoR'),
     'edits': [(R, "    def get_delta_SoR(self, rev=False, act=False, **kwargs):",
                "    def get_delta_SoR(self, act=False, rev=False, **kwargs):")]},
    {'name': 'states that are close in relative terms count as equal (whitebox2 A5)',
     'expect': ('REF.delta', 'get_delta_'),
     'edits': [(R, "        if method_name == 'get_q':\n            return final_quantity / initial_quantity\n        else:",
                "        if method_name == 'get_q':\n            return final_quantity / initial_quantity\n"
                "        elif np.isclose(final_quantity, initial_quantity):\n            return 0.\n        else:")]},
    {'name': 'coefficients rounded to whole numbers', 'expect': ('REF.state', '_state'),
     'edits': [(R, '                state_quantity += \\\n                    _force_pass_arguments(method, **specie_kwargs)*coeff',
                '                state_quantity += \\\n                    _force_pass_arguments(method, **specie_kwargs)*round(coeff)')]},
    # white-box review, round 3
    {'name': 'the terms of a state are collected in a list and totalled with np.sum: an array of temperatures is '
             'summed away (whitebox3 A4)', 'expect': ('BRANCH-TWIN.array', '_state'),
     'edits': [(R, "            state_quantity = 0.\n\n        for specie, coeff in zip(species, stoich):",
                "            state_quantity = 0.\n        terms = []\n\n        for specie, coeff in zip(species, stoich):"),
               (R, '                state_quantity += \\\n                        _force_pass_arguments(method, **specie_kwargs)*coeff' + "\n        return state_quantity",
                "                terms.append(\n                    _force_pass_arguments(method, **specie_kwargs)*coeff)\n"
                "        if method_name != 'get_q':\n            return np.sum(terms)\n        return state_quantity")]},
    {'name': 'Keq as the ratio of the Boltzmann factors of the two states (whitebox3 A3)',
     'expect': ('REF.Keq', 'get_Keq'),
     'edits': [(R, "        return np.exp(-self.get_delta_GoRT(rev=rev, act=act, **kwargs))",
                "        initial_state, final_state = _get_states(rev=rev, act=act)\n"
                "        w_initial = np.exp(-self.get_GoRT_state(state=initial_state, **kwargs))\n"
                "        w_final = np.exp(-self.get_GoRT_state(state=final_state, **kwargs))\n"
                "        return w_final / w_initial")]},
    {'name': 'Keq through exp(+G_initial) * exp(-G_final)', 'expect': ('REF.Keq', 'get_Keq'),
     'edits': [(R, "        return np.exp(-self.get_delta_GoRT(rev=rev, act=act, **kwargs))",
                "        initial_state, final_state = _get_states(rev=rev, act=act)\n"
                "        return np.exp(self.get_GoRT_state(state=initial_state, **kwargs)) \\\n"
                "            * np.exp(-self.get_GoRT_state(state=final_state, **kwargs))")]},
    {'name': 'a wrong fast path for a coefficient of exactly 3', 'expect': ('REF.state', '_state'),
     'edits': [(R, "            else:\n" + '                state_quantity += \\\n                        _force_pass_arguments(method, **specie_kwargs)*coeff',
                "            elif coeff == 3:\n                value = _force_pass_arguments(method, **specie_kwargs)\n"
                "                state_quantity += value + value\n"
                "            else:\n" + '                state_quantity += \\\n                        _force_pass_arguments(method, **specie_kwargs)*coeff')]},
    {'name': 'a block that overrides a shared condition arrives twice (whitebox3 A2)',
     'expect': ('DATAFLOW.species-kwargs', ''),
     'edits': [(R, '                state_quantity += \\\n                        _force_pass_arguments(method, **specie_kwargs)*coeff',
                "                state_quantity += \\\n                    _force_pass_arguments(\n"
                "                        method, **{k: v for k, v in kwargs.items() if 'kwargs' not in k},\n"
                "                        **(kwargs.get('{}_kwargs'.format(specie.name)) or {}))*coeff")]},
    {'name': 'the suffix of a block key is removed with rstrip (a set of characters, not a suffix)',
     'expect': ('DATAFLOW.species-kwargs', ''),
     'edits': [('pmutt/__init__.py', "            if key == '{}_kwargs'.format(specie_name):",
                "            if key.rstrip('_kwargs') == specie_name:")]},
    {'name': 'a fast path for a coefficient of exactly 1 in the network copy hands on the unsorted conditions',
     'expect': ('SIB.state', 'network.get_state_quantity'),
     'edits': [('pmutt/reaction/network.py', "        else:\n            state_quantity += \\\n                    _force_pass_arguments(method, **specie_kwargs)*coeff",
                "        elif coeff == 1:\n            state_quantity += \\\n"
                "                    _force_pass_arguments(method, **kwargs)\n        else:\n            state_quantity += \\\n                    _force_pass_arguments(method, **specie_kwargs)*coeff")]},
    {'name': 'a fast path for a coefficient of exactly 1 hands on the unsorted conditions',
     'expect': ('DATAFLOW.species-kwargs', 'get_delta_GoRT'),
     'edits': [(R, "            else:\n                state_quantity += \\\n                        _force_pass_arguments(method, **specie_kwargs)*coeff",
                "            elif coeff == 1:\n                state_quantity += \\\n"
                "                    _force_pass_arguments(method, **kwargs)\n"
                "            else:\n                state_quantity += \\\n                        _force_pass_arguments(method, **specie_kwargs)*coeff")]},
]
EQUIV = [
    {'name': 'the terms of a state are collected in a list and added up with the builtin sum',
     'edits': [(R, "            state_quantity = 0.\n\n        for specie, coeff in zip(species, stoich):",
                "            state_quantity = 0.\n        terms = []\n\n        for specie, coeff in zip(species, stoich):"),
               (R, "                state_quantity += \\\n                        _force_pass_arguments(method, **specie_kwargs)*coeff\n        return state_quantity",
                "                terms.append(\n                    _force_pass_arguments(method, **specie_kwargs)*coeff)\n"
                "        if method_name != 'get_q':\n            return sum(terms, 0.)\n        return state_quantity")]},
    {'name': 'delta written as -(initial - final)',
     'edits': [(R, '            return final_quantity - initial_quantity', '            return -(initial_quantity - final_quantity)')]},
    {'name': 'UnboundLocalError named instead of its base class NameError (whitebox2 B1)',
     'edits': [('pmutt/__init__.py', "    except (KeyError, TypeError, NameError):\n        pass\n    return specie_kwargs",
                "    except (KeyError, TypeError, UnboundLocalError):\n        pass\n    return specie_kwargs")]},
    {'name': 'end states picked by indexing with the truth value of rev (whitebox2 B2)',
     'edits': [(R, "    if rev:\n        initial_state = 'products'\n        final_state = 'reactants'\n    else:\n"
                "        initial_state = 'reactants'\n        final_state = 'products'\n",
                "    end_states = ('reactants', 'products')\n    initial_state = end_states[bool(rev)]\n"
                "    final_state = end_states[not rev]\n")]},
    {'name': 'fast path for a coefficient of exactly 1 (whitebox3 B5)',
     'edits': [(R, "            else:\n" + '                state_quantity += \\\n                        _force_pass_arguments(method, **specie_kwargs)*coeff',
                "            elif coeff == 1:\n                state_quantity += \\\n"
                "                    _force_pass_arguments(method, **specie_kwargs)\n"
                "            else:\n" + '                state_quantity += \\\n                        _force_pass_arguments(method, **specie_kwargs)*coeff')]},
    {'name': 'the power is skipped for a coefficient of exactly 1',
     'edits': [(R, "                state_quantity *= \\\n                        _force_pass_arguments(method, **specie_kwargs)**coeff",
                "                value = _force_pass_arguments(method, **specie_kwargs)\n"
                "                state_quantity *= value if coeff == 1 else value**coeff")]},
    {'name': 'Keq from the exponential of the difference of the two state values',
     'edits': [(R, "        return np.exp(-self.get_delta_GoRT(rev=rev, act=act, **kwargs))",
                "        initial_state, final_state = _get_states(rev=rev, act=act)\n"
                "        return np.exp(self.get_GoRT_state(state=initial_state, **kwargs)\n"
                "                      - self.get_GoRT_state(state=final_state, **kwargs))")]},
    {'name': 'fast path for a coefficient of exactly 1 in the network copy',
     'edits': [('pmutt/reaction/network.py', "        else:\n            state_quantity += \\\n                    _force_pass_arguments(method, **specie_kwargs)*coeff",
                "        elif coeff == 1:\n            state_quantity += \\\n"
                "                    _force_pass_arguments(method, **specie_kwargs)\n        else:\n            state_quantity += \\\n                    _force_pass_arguments(method, **specie_kwargs)*coeff")]},
]
