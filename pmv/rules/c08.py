"""C08 - reaction quantities obey Hess's law, reversal symmetry and detailed balance."""
from fractions import Fraction as Fr

from ..nf import Rat, C
from ..source import Unsupported, AnchorError
from ..xlate import Interp, Obj, ListV, DictV, Raised
from .common import same, show, sub
from .rxnfix import reaction, state_sum, get_public, species, make_reaction

CLASSES = (('Reaction', 'pmutt.reaction.Reaction'),
           ('ChemkinReaction', 'pmutt.reaction.ChemkinReaction'),
           ('SurfaceReaction', 'pmutt.omkm.reaction.SurfaceReaction'))
QUANT = ('q', 'CvoR', 'CpoR', 'UoRT', 'HoRT', 'SoR', 'FoRT', 'GoRT', 'EoRT')
CLAMPED = {('ChemkinReaction', 'HoRT'), ('ChemkinReaction', 'GoRT'),
           ('SurfaceReaction', 'HoRT'), ('SurfaceReaction', 'GoRT')}
UNIT_GETTERS = (('E', 'EoRT', True), ('H', 'HoRT', True), ('G', 'GoRT', True), ('U', 'UoRT', True),
                ('F', 'FoRT', True), ('S', 'SoR', False), ('Cp', 'CpoR', False), ('Cv', 'CvoR', False))
STATES = (('reactants', 'r'), ('products', 'p'), ('transition state', 't'), ('transition_state', 't'), ('TS', 't'))


def expected_state(I, rxn, which, method, kw):
    sp = get_public(I, rxn, which)
    nu = get_public(I, rxn, which + '_stoich')
    return state_sum(I, sp.items, nu.items, method, kw, prod=(method == 'get_q'))


def expected_delta(I, rxn, method, kw, rev, act):
    ini = 'products' if rev else 'reactants'
    fin = 'transition_state' if act else ('reactants' if rev else 'products')
    a = expected_state(I, rxn, ini, method, kw)
    b = expected_state(I, rxn, fin, method, kw)
    return b / a if method == 'get_q' else b - a


def named_reaction(I, repo, qual):
    """H2 + H2O + PT(S) = [H2O2(S)] = H2O(S) + h2o + PT(B): species whose names are stems, prefixes and case variants
    of one another, gas and surface phases, a catalyst site (built by its public constructor) whose bulk species takes
    part; three species per side; symbolic coefficients"""
    D = I.D
    site = I.construct(repo.cls('pmutt.chemkin.CatSite'), [],
                       {'name': 'PT(S)', 'site_density': D.sym('sden'), 'density': D.sym('rho'),
                        'bulk_specie': 'PT(B)'}, name='site')
    if isinstance(site, Raised):
        raise Unsupported('CatSite(...) raised %s' % site.exc)
    sp = {}
    for nm, ph, st in (('H2', 'G', None), ('H2O', 'G', None), ('PT(S)', 'S', site), ('H2O2(S)', 'S', site),
                       ('H2O(S)', 'S', site), ('h2o', 'G', None), ('PT(B)', 'S', site)):
        sp[nm] = species(I, nm, ph, st)
    sides = {'reactants': ('H2', 'H2O', 'PT(S)'), 'transition_state': ('H2O2(S)',),
             'products': ('H2O(S)', 'h2o', 'PT(B)')}
    nu = {nm: D.sym('nu<%s>' % nm) for nm in sp}
    rxn = make_reaction(I, repo, qual, [sp[x] for x in sides['reactants']], [nu[x] for x in sides['reactants']],
                        [sp[x] for x in sides['products']], [nu[x] for x in sides['products']],
                        [sp[x] for x in sides['transition_state']], [nu[x] for x in sides['transition_state']],
                        name='rxn_named')
    return rxn, sp, nu, sides


def routed_state(I, fixture, which, method, shared, blocks):
    """reference: every species of the state at the shared conditions, overridden by the block that carries exactly
    its own name (and by no other)"""
    rxn, sp, nu, sides = fixture
    tot = C(0)
    for nm in sides[which]:
        kw = dict(shared)
        kw.update(blocks.get(nm, {}))
        o = sp[nm]
        x = o.opaque_methods[method](I, o, [], {k: v for k, v in kw.items() if k in o.opaque_params[method]})
        tot = tot + x * nu[nm]
    return tot


def routed_delta(I, fixture, method, shared, blocks, rev=False, act=False):
    ini = 'products' if rev else 'reactants'
    fin = 'transition_state' if act else ('reactants' if rev else 'products')
    return routed_state(I, fixture, fin, method, shared, blocks) - routed_state(I, fixture, ini, method, shared, blocks)


def as_kwargs(order, shared, blocks):
    """keyword arguments in the order the caller wrote them; blocks as fresh dictionaries"""
    out = {}
    for k in order:
        out[k] = shared[k] if k in shared else DictV(dict(blocks[k[:-len('_kwargs')]]))
    return out


def named(run, repo, cname, qual, ci):
    """steps 6-8: a reaction whose species have related names, surface phases and a catalyst site"""
    I = Interp(repo)
    D = I.D
    T, P = D.sym('T'), D.sym('P')
    fx = named_reaction(I, repo, qual)
    rxn, sp, nu, sides = fx
    kw = {'T': T, 'P': P}
    n = 0
    owner, fn = repo.find_method(ci, 'get_state_quantity')
    # 6. Hess's law does not depend on what the species are: surface species, a site, the bulk species of the site
    for X in QUANT:
        m = 'get_' + X
        if X == 'q':
            continue                      # products of powers: decided on the generic reaction (step 1)
        # (every change enters two states; the state getters themselves for one quantity)
        for st, which in ((('reactants', 'reactants'), ('products', 'products'), ('TS', 'transition_state'))
                          if X == 'HoRT' else ()):
            got = I.call_method(rxn, 'get_%s_state' % X, [], dict(kw, state=st))
            kwe = kw
            want = routed_state(I, fx, which, m, kwe, {})
            run.check(same(got, want), 'REF.state', '%s.get_%s_state' % (cname, X), 'surface species state:' + st,
                      'with surface species and the bulk species of their catalyst site among the %s the state '
                      'quantity is not the stoichiometry-weighted sum over all of them: %s' % (st, show(got, 200)),
                      owner.module, fn)
            n += 1
        for rev, act in ((False, False), (True, True)):
            got = I.call_method(rxn, 'get_delta_' + X, [], dict(kw, rev=rev, act=act))
            want = routed_delta(I, fx, m, kw, {}, rev, act)
            run.check(same(got, want), 'REF.delta', '%s.get_delta_%s' % (cname, X),
                      'surface species rev=%s act=%s' % (rev, act),
                      'with surface species and the bulk species of their catalyst site the change is not final '
                      'minus initial over all species: %s' % show(got, 200), owner.module, fn)
            n += 1
    Kf = I.call_method(rxn, 'get_Keq', [], dict(kw))
    run.check(same(Kf, D.exp(-routed_delta(I, fx, 'get_GoRT', kw, {}))), 'REF.Keq', cname + '.get_Keq',
              'surface species K=exp(-dG/RT)', 'equilibrium constant is %s, not exp(-delta G/RT) over all species'
              % show(Kf, 200), owner.module, fn)
    n += 1
    # 7. blocks are addressed by the exact name: a block for every species at once (each with its own pressure), and
    #    one block alone (nobody else may pick it up: not the species whose name is a prefix of it, not the one whose
    #    name it is a prefix or the stem of, not the one that differs in case)
    every = {nm: {'P': D.sym('P<%s>' % nm)} for nm in sp}
    cases = [('a block for every species', every)]
    for nm in ('H2', 'H2O', 'H2O(S)', 'h2o', 'H2O2(S)', 'PT(B)'):
        cases.append(('a block for %s alone' % nm, {nm: {'P': D.sym('P2'), 'T': D.sym('T2')}}))
    for label, blocks in cases:
        order = ['T', 'P'] + [b + '_kwargs' for b in blocks]
        for st, which in ((('reactants', 'reactants'), ('products', 'products')) if blocks is every else ()) \
                + (('TS', 'transition_state'),):
            got = I.call_method(rxn, 'get_HoRT_state', [], dict(as_kwargs(order, kw, blocks), state=st))
            want = routed_state(I, fx, which, 'get_HoRT', kw, blocks)
            run.check(same(got, want), 'DATAFLOW.species-kwargs', cname + '.get_state_quantity',
                      'related names: %s, state:%s' % (label, st),
                      'species H2, H2O, H2O(S), h2o, H2O2(S), PT(S), PT(B): conditions addressed to one species by '
                      'its name must reach that species and no other: %s' % show(got, 300), owner.module, fn)
            n += 1
        got = I.call_method(rxn, 'get_delta_GoRT', [], as_kwargs(order, kw, blocks))
        want = routed_delta(I, fx, 'get_GoRT', kw, blocks)
        run.check(same(got, want), 'DATAFLOW.species-kwargs', cname + '.get_delta_GoRT', 'related names: ' + label,
                  'conditions addressed to one species by its name must reach that species and no other: %s'
                  % show(got, 300), owner.module, fn)
        n += 1
        if blocks is every:
            got = I.call_method(rxn, 'get_Keq', [], as_kwargs(order, kw, blocks))
            run.check(same(got, D.exp(-want)), 'DATAFLOW.species-kwargs', cname + '.get_Keq',
                      'related names: ' + label,
                      'conditions addressed to one species by its name must reach that species and no other: %s'
                      % show(got, 300), owner.module, fn)
            n += 1
    # 8. the order in which the caller writes his keyword arguments is not part of the contract: a block wins over
    #    the shared condition of the same name wherever it stands
    blocks = {'H2O': {'T': D.sym('T2'), 'P': D.sym('P2')}}
    wantG = routed_delta(I, fx, 'get_GoRT', kw, blocks)
    wantH = routed_state(I, fx, 'reactants', 'get_HoRT', kw, blocks)
    for order in (('H2O_kwargs', 'T', 'P'), ('T', 'H2O_kwargs', 'P'), ('T', 'P', 'H2O_kwargs')):
        key = 'keyword order: ' + ', '.join(order)
        why = ('written as (%s) the block T=T2, P=P2 addressed to H2O must win over the shared T, P for H2O and '
               'for nobody else: %%s' % ', '.join(order))
        got = I.call_method(rxn, 'get_HoRT_state', [], dict(as_kwargs(order, kw, blocks), state='reactants'))
        run.check(same(got, wantH), 'DATAFLOW.species-kwargs', cname + '.get_state_quantity', key,
                  why % show(got, 300), owner.module, fn)
        got = I.call_method(rxn, 'get_delta_GoRT', [], as_kwargs(order, kw, blocks))
        run.check(same(got, wantG), 'DATAFLOW.species-kwargs', cname + '.get_delta_GoRT', key,
                  why % show(got, 300), owner.module, fn)
        n += 2
        if order[0] != 'T':
            got = I.call_method(rxn, 'get_Keq', [], as_kwargs(order, kw, blocks))
            run.check(same(got, D.exp(-wantG)), 'DATAFLOW.species-kwargs', cname + '.get_Keq', key,
                      why % show(got, 300), owner.module, fn)
            n += 1
    # the getters with an explicit T: the pressure block before and after the shared pressure
    blocks = {'H2O': {'P': D.sym('P2')}}
    wantS = routed_delta(I, fx, 'get_SoR', kw, blocks) * D.sym('kb') * D.sym('Na')
    for order in (('H2O_kwargs', 'T', 'P'), ('T', 'H2O_kwargs', 'P'), ('T', 'P', 'H2O_kwargs')):
        got = I.call_method(rxn, 'get_delta_S', [], dict(as_kwargs(order, kw, blocks), units='J/mol/K'))
        run.check(same(got, wantS), 'DATAFLOW.species-kwargs', cname + '.get_delta_S',
                  'keyword order: ' + ', '.join(order),
                  'written as (%s) the block P=P2 addressed to H2O must win over the shared P for H2O and for '
                  'nobody else: %s' % (', '.join(order), show(got, 300)), owner.module, fn)
        n += 1
    return n


def check(run, repo):
    run.explanation = (
        'Reaction, ChemkinReaction and SurfaceReaction are interpreted abstractly with uninterpreted species '
        '(2 reactants, 2 products, 1 transition-state species; symbolic stoichiometric coefficients; every species '
        'getter an atom named by its keyword arguments). Decided as identities in those atoms: every *_state getter '
        'is the stoichiometry-weighted sum (product of powers for q) over the named state for all five state '
        'spellings; every get_delta_* for the four (rev, act) combinations is final minus initial (ratio for q); '
        'reversal flips the sign; forward minus reverse activation equals the reaction change; unclamped *_act '
        'getters equal delta(act=True); Keq = exp(-delta G/RT) and K_f*K_r = 1; a keyword block addressed to one '
        'species reaches only that species; caller-supplied dictionaries are unchanged after the call. The values '
        'with units (state, change, activation) are decided in J/mol and a second unit. A second model reaction '
        '(H2 + H2O + PT(S) = [H2O2(S)] = H2O(S) + h2o + PT(B); gas and surface species, a CatSite whose bulk species '
        'takes part) decides that the sums run over all species whatever their site, that a block is addressed by '
        'the exact name (stems, prefixes, case variants receive nothing) and that the order of the keyword '
        'arguments does not matter.')
    run.assumptions = ['species getters are arbitrary functions of the keyword arguments they accept '
                       '(uninterpreted atoms); _force_pass_arguments modelled by its documented contract']
    run.undecided = ['numerical values; species whose getters ignore their arguments']
    n = 0
    for cname, qual in CLASSES:
        ci = repo.cls(qual)
        I = Interp(repo)
        D = I.D
        T, P, P2 = D.sym('T'), D.sym('P'), D.sym('P2')
        rxn, rs, ps, ts = reaction(I, repo, qual)
        kw = {'T': T, 'P': P}
        for X in QUANT:
            m = 'get_' + X
            # 1. state getters
            owner, fn = repo.find_method(ci, 'get_%s_state' % X)
            run.fn('%s.get_%s_state' % (owner.qual, X))
            for st, which in STATES:
                got = I.call_method(rxn, 'get_%s_state' % X, [], dict(kw, state=st))
                # get_EoRT_state has include_ZPE=False as an explicit default which it forwards
                kwe = dict(kw, include_ZPE=False) if X == 'EoRT' else kw
                want = expected_state(I, rxn, {'r': 'reactants', 'p': 'products', 't': 'transition_state'}[which],
                                      m, kwe)
                run.check(same(got, want), 'REF.state', '%s.get_%s_state' % (cname, X), 'state:' + st,
                          'state quantity is not the stoichiometry-weighted %s over the %s: %s'
                          % ('product of powers' if X == 'q' else 'sum', st, show(got, 200)), owner.module, fn,
                          sample='%s.get_%s_state(%r) == sum nu_i x_i' % (cname, X, st) if st == 'TS' else None)
                n += 1
            # 2. delta getters
            owner, fn = repo.find_method(ci, 'get_delta_' + X)
            run.fn('%s.get_delta_%s' % (owner.qual, X))
            d = {}
            for rev in (False, True):
                for act in (False, True):
                    got = I.call_method(rxn, 'get_delta_' + X, [], dict(kw, rev=rev, act=act))
                    d[(rev, act)] = got
                    want = expected_delta(I, rxn, m, kw, rev, act)
                    run.check(same(got, want), 'REF.delta', '%s.get_delta_%s' % (cname, X),
                              'rev=%s act=%s' % (rev, act),
                              'change is not final minus initial (%s): %s'
                              % ('TS' if act else 'products/reactants', show(got, 200)), owner.module, fn)
                    n += 1
            # the flags as a caller may hold them after a comparison or a table lookup (numpy.bool_, 0/1): truthy
            # values that are not the singleton True select the same states
            for rev, act in ((0, 1), (1, 1), (1, 0)):
                got = I.call_method(rxn, 'get_delta_' + X, [], dict(kw, rev=C(rev), act=C(act)))
                run.check(same(got, d[(bool(rev), bool(act))]), 'REF.delta', '%s.get_delta_%s' % (cname, X),
                          'rev=%s act=%s (flags given as 0/1)' % (rev, act),
                          'with truthy flags that are not the singleton True the change is %s, with rev=%s act=%s it '
                          'is %s' % (show(got, 160), bool(rev), bool(act), show(d[(bool(rev), bool(act))], 160)),
                          owner.module, fn)
                n += 1
            if X == 'q':
                ok_rev = same(d[(True, False)] * d[(False, False)], C(1))
                ok_act = same(d[(False, True)] / d[(True, True)], d[(False, False)])
            else:
                ok_rev = same(I.binop('+', d[(True, False)], d[(False, False)]), C(0))
                ok_act = same(I.binop('-', d[(False, True)], d[(True, True)]), d[(False, False)])
            run.check(ok_rev, 'ALG.reversal', '%s.get_delta_%s' % (cname, X), 'reversal',
                      'reversing the direction does not flip the sign (invert the ratio)', owner.module, fn)
            run.check(ok_act, 'ALG.hess-act', '%s.get_delta_%s' % (cname, X), 'forward-reverse',
                      'forward minus reverse activation quantity is not the reaction change', owner.module, fn)
            n += 2
            # 3. *_act == delta(act=True) for the unclamped getters
            if X != 'EoRT' and (cname, X) not in CLAMPED:
                owner, fn = repo.find_method(ci, 'get_%s_act' % X)
                run.fn('%s.get_%s_act' % (owner.qual, X))
                for rev in (False, True):
                    got = I.call_method(rxn, 'get_%s_act' % X, [], dict(kw, rev=rev))
                    kw2 = dict(kw)
                    if X == 'q':
                        kw2['include_ZPE'] = False
                    want = expected_delta(I, rxn, m, kw2, rev, True)
                    run.check(same(got, want), 'REF.act', '%s.get_%s_act' % (cname, X), 'rev=%s' % rev,
                              'activation quantity is not transition state minus %s: %s'
                              % ('products' if rev else 'reactants', show(got, 200)), owner.module, fn)
                    n += 1
        # 3b. the same law for the values with units: state value = sum nu_i * species value, change = final
        #     minus initial, under every option the getter accepts (zero-point energy for E).  The caller asks the
        #     state values, the change and the activation quantity in one unit of his choice: J/mol (every conversion
        #     factor is 1), a second molar unit and - thorough tier - a unit per molecule
        Rj = D.sym('kb') * D.sym('Na')
        unit_list = ('J/mol', 'kJ/mol') + (('kcal/mol', 'eV') if run.tier == 'thorough' else ())
        for (Xd, Xn, energy), ubase in (((a_, b_, c_), u_) for a_, b_, c_ in UNIT_GETTERS for u_ in unit_list):
            mname = 'get_%s_state' % Xd
            if repo.find_method(ci, mname, missing_ok=True) is None:
                continue
            owner, fn = repo.find_method(ci, mname)
            units = ubase if energy else ubase + '/K'
            # R in the unit asked for: kb (per molecule) times the unit factor, times Avogadro for molar units
            Ru = D.sym('kb') * I.unit(ubase) * (D.sym('Na') if ubase.endswith('/mol') else C(1))
            fac = Ru * T if energy else Ru
            utag = 'units' if ubase == 'J/mol' else 'units=%s' % units
            for zpe in ((False, True) if Xd == 'E' else (None,)):
                opt = {} if zpe is None else {'include_ZPE': zpe}
                for st, which in (('reactants', 'reactants'), ('TS', 'transition_state')):
                    got = I.call_method(rxn, mname, [], dict(kw, state=st, units=units, **opt))
                    kwe = dict(kw, include_ZPE=bool(zpe)) if Xd == 'E' else kw
                    want = I.binop('*', expected_state(I, rxn, which, 'get_' + Xn, kwe), fac)
                    run.check(same(got, want), 'REF.state', '%s.%s' % (cname, mname),
                              '%s state:%s%s' % (utag, st, '' if zpe is None else ' include_ZPE=%s' % zpe),
                              'state quantity in %s is not the stoichiometry-weighted sum of the species values '
                              'under the same options: %s' % (units, show(got, 200)), owner.module, fn)
                    n += 1
                dname = 'get_delta_' + Xd
                if repo.find_method(ci, dname, missing_ok=True) is None:
                    continue
                owner, fn = repo.find_method(ci, dname)
                for rev, act in ((False, False), (True, True)):
                    got = I.call_method(rxn, dname, [], dict(kw, rev=rev, act=act, units=units, **opt))
                    kwe = dict(kw, include_ZPE=bool(zpe)) if Xd == 'E' else kw
                    want = I.binop('*', expected_delta(I, rxn, 'get_' + Xn, kwe, rev, act), fac)
                    run.check(same(got, want), 'REF.delta', '%s.%s' % (cname, dname),
                              '%s rev=%s act=%s%s' % (utag, rev, act, '' if zpe is None else ' include_ZPE=%s' % zpe),
                              'change in %s is not final minus initial under the same options: %s'
                              % (units, show(got, 200)), owner.module, fn)
                    n += 1
            # 3c. the activation quantity with units of the unclamped getters: transition state minus the initial
            #     state of the direction asked for, at the conditions given (T, P and a block addressed to one species)
            aname = 'get_%s_act' % Xd
            if Xd == 'E' or (cname, Xn) in CLAMPED or repo.find_method(ci, aname, missing_ok=True) is None:
                continue
            owner, fn = repo.find_method(ci, aname)
            run.fn('%s.%s' % (owner.qual, aname))
            for rev in (False, True):
                got = I.call_method(rxn, aname, [], dict(kw, rev=rev, units=units))
                want = I.binop('*', expected_delta(I, rxn, 'get_' + Xn, kw, rev, True), fac)
                run.check(same(got, want), 'REF.act', '%s.%s' % (cname, aname), '%s rev=%s' % (utag, rev),
                          'activation quantity in %s at (T, P) is not transition state minus %s at (T, P): %s'
                          % (units, 'products' if rev else 'reactants', show(got, 200)), owner.module, fn)
                n += 1
            if ubase == 'J/mol':
                got = I.call_method(rxn, aname, [], dict(kw, units=units, r0_kwargs=DictV({'P': P2})))
                want = C(0)
                for grp, sgn in ((ts, 1), (rs, -1)):
                    nus = get_public(I, rxn, 'transition_state_stoich' if sgn == 1 else 'reactants_stoich').items
                    for sp, nu_ in zip(grp, nus):
                        x = sp.opaque_methods['get_' + Xn](I, sp, [], {'T': T, 'P': P2 if sp is rs[0] else P})
                        want = want + x * nu_ * C(sgn)
                want = I.binop('*', want, fac)
                run.check(same(got, want), 'DATAFLOW.species-kwargs', '%s.%s' % (cname, aname), 'species block',
                          'conditions addressed to species r0 must reach r0 (and only r0) in the activation quantity '
                          'with units: %s' % show(got, 240), owner.module, fn)
                n += 1
        # 4. equilibrium constant
        owner, fn = repo.find_method(ci, 'get_Keq')
        run.fn(owner.qual + '.get_Keq')
        Kf = I.call_method(rxn, 'get_Keq', [], dict(kw, rev=False))
        Kr = I.call_method(rxn, 'get_Keq', [], dict(kw, rev=True))
        dG = expected_delta(I, rxn, 'get_GoRT', kw, False, False)
        run.check(same(Kf, D.exp(-dG)), 'REF.Keq', cname + '.get_Keq', 'K=exp(-dG/RT)',
                  'equilibrium constant is %s, not exp(-delta G/RT)' % show(Kf, 200), owner.module, fn,
                  sample='%s.get_Keq == exp(-(G_products - G_reactants))' % cname)
        run.check(same(Kf * Kr, C(1)), 'ALG.detailed-balance', cname + '.get_Keq', 'Kf*Kr=1',
                  'K_forward * K_reverse = %s, not 1' % show(Kf * Kr, 200), owner.module, fn)
        # every (direction, activation) combination: the reverse activation constant is NOT the reciprocal of the
        # forward one (different initial states, same transition state)
        for rev_, act_ in ((False, True), (True, True), (True, False)):
            Ka = I.call_method(rxn, 'get_Keq', [], dict(kw, rev=rev_, act=act_))
            dGa = expected_delta(I, rxn, 'get_GoRT', kw, rev_, act_)
            run.check(same(Ka, D.exp(-dGa)), 'REF.Keq', cname + '.get_Keq', 'rev=%s act=%s' % (rev_, act_),
                      '%s equilibrium constant (rev=%s) is %s, not exp(-delta G/RT) of that direction'
                      % ('activation' if act_ else 'reaction', rev_, show(Ka, 200)), owner.module, fn)
        n += 5
        # 5. keyword routing + caller dictionaries untouched
        owner, fn = repo.find_method(ci, 'get_state_quantity')
        run.fn(owner.qual + '.get_state_quantity')
        block = DictV({'P': P2})
        foreign = DictV({'P': D.sym('P3'), 'T': D.sym('T3')})
        snap = (dict(block.d), dict(foreign.d))
        got = I.call_method(rxn, 'get_HoRT_state', [], {'state': 'reactants', 'T': T, 'P': P,
                                                        'r0_kwargs': block, 'zz_kwargs': foreign})
        nu = get_public(I, rxn, 'reactants_stoich').items
        h0 = rs[0].opaque_methods['get_HoRT'](I, rs[0], [], {'T': T, 'P': P2})
        h1 = rs[1].opaque_methods['get_HoRT'](I, rs[1], [], {'T': T, 'P': P})
        run.check(same(got, h0 * nu[0] + h1 * nu[1]), 'DATAFLOW.species-kwargs', cname + '.get_state_quantity',
                  'species block', 'conditions addressed to species r0 must change only r0\'s contribution: %s'
                  % show(got, 240), owner.module, fn,
                  sample='r0_kwargs={P:P2} -> r0 at P2, r1 at P')
        same_block = block.d.keys() == snap[0].keys() and all(block.d[k] is snap[0][k] for k in snap[0])
        same_foreign = foreign.d.keys() == snap[1].keys() and all(foreign.d[k] is snap[1][k] for k in snap[1])
        run.check(same_block and same_foreign, 'EFFECT.caller-dict', cname + '.get_state_quantity', 'nested blocks',
                  'a caller-supplied per-species dictionary was modified by the evaluation (now %s / %s)'
                  % (sorted(block.d), sorted(foreign.d)), owner.module, fn)
        for meth, extra in (('get_delta_GoRT', {}), ('get_Keq', {}), ('get_G_act', {'units': 'kJ/mol'})):
            blk = DictV({'P': P2})
            I.call_method(rxn, meth, [], dict({'T': T, 'P': P, 'p0_kwargs': blk}, **extra))
            run.check(list(blk.d) == ['P'] and blk.d['P'] is P2, 'EFFECT.caller-dict', '%s.%s' % (cname, meth),
                      'nested blocks', 'a caller-supplied per-species dictionary was modified', owner.module, fn)
        n += 5
        n += named(run, repo, cname, qual, ci)
    run.floor('C08 instances', n, 250)
    network(run, repo)


def network(run, repo):
    """pmutt.reaction.network keeps its own copy of get_state_quantity: it must agree (SIB)"""
    m = repo.modules.get('pmutt.reaction.network')
    if m is None:
        raise AnchorError('pmutt.reaction.network not found')
    fn = m.functions.get('get_state_quantity')
    if fn is None:
        raise AnchorError('pmutt.reaction.network.get_state_quantity not found')
    repo.consulted.add(m)
    run.fn('pmutt.reaction.network.get_state_quantity')
    I = Interp(repo)
    D = I.D
    T, P, P2 = D.sym('T'), D.sym('P'), D.sym('P2')
    rxn, rs, ps, ts = reaction(I, repo, 'pmutt.reaction.Reaction')
    nu = get_public(I, rxn, 'reactants_stoich')
    for meth in ('get_q', 'get_HoRT', 'get_GoRT'):
        got = I.call_function(m, fn, [], {'species': ListV(rs), 'stoich': nu, 'method_name': meth, 'T': T, 'P': P,
                                          'r1_kwargs': DictV({'P': P2})})
        want = C(1) if meth == 'get_q' else C(0)
        for sp, n_, p_ in zip(rs, nu.items, (P, P2)):
            x = sp.opaque_methods[meth](I, sp, [], {'T': T, 'P': p_})
            want = want * D.pow_sym(x, n_) if meth == 'get_q' else want + x * n_
        run.check(same(got, want), 'SIB.state', 'network.get_state_quantity', meth,
                  'the network copy of the state evaluation disagrees with Reaction.get_state_quantity: %s'
                  % show(got, 200), m, fn, sample='network.get_state_quantity(%s) == sum nu_i x_i' % meth)


R = 'pmutt/reaction/__init__.py'
MUTANTS = [
    {'name': 'the last expected argument of a callee is not looked up', 'expect': ('', ''),
     'edits': [('pmutt/__init__.py', "    args = fn_code.co_varnames[:arg_count]", "    args = fn_code.co_varnames[:arg_count - 1]")]},
    {'name': 'only the first expected argument is handed on', 'expect': ('', ''),
     'edits': [('pmutt/__init__.py', "        try:\n            expected_arg_val[arg] = kwargs[arg]\n        except KeyError:\n            continue", "        try:\n            expected_arg_val[arg] = kwargs[arg]\n        except KeyError:\n            continue\n        break")]},
    {'name': 'delta is initial - final', 'expect': ('REF.delta', 'Reaction.get_delta_'),
     'edits': [(R, '            return final_quantity - initial_quantity', '            return initial_quantity - final_quantity')]},
    {'name': 'q state multiplies by coeff instead of power', 'expect': ('REF.state', 'get_q_state'),
     'edits': [(R, '**specie_kwargs)**coeff', '**specie_kwargs)*coeff')]},
    {'name': '_get_states: act with rev goes to reactants', 'expect': ('', 'get_delta_'),
     'edits': [(R, "    if act:\n        final_state = 'transition state'", "    if act and not rev:\n        final_state = 'transition state'")]},
    {'name': 'species kwargs replaced by shared kwargs', 'expect': ('DATAFLOW.species-kwargs', 'get_state_quantity'),
     'edits': [(R, '                state_quantity += \\\n                    _force_pass_arguments(method, **specie_kwargs)*coeff',
                '                state_quantity += \\\n                    _force_pass_arguments(method, **kwargs)*coeff')]},
    {'name': 'get_delta_SoR forgets rev', 'expect': ('', 'get_delta_SoR'),
     'edits': [(R, "        initial_state, final_state = _get_states(rev=rev, act=act)\n        delta_SoR", "        initial_state, final_state = _get_states(rev=False, act=act)\n        delta_SoR")]},
    {'name': 'Keq without minus sign', 'expect': ('REF.Keq', 'get_Keq'),
     'edits': [(R, 'return np.exp(-self.get_delta_GoRT(rev=rev, act=act, **kwargs))', 'return np.exp(self.get_delta_GoRT(rev=rev, act=act, **kwargs))')]},
    {'name': 'get_FoRT_act uses delta G', 'expect': ('REF.act', 'get_FoRT_act'),
     'edits': [(R, 'return self.get_delta_FoRT(rev=rev, act=True, **kwargs)', 'return self.get_delta_GoRT(rev=rev, act=True, **kwargs)')]},
    {'name': '_get_specie_kwargs pops from the nested block', 'expect': ('EFFECT.caller-dict', ''),
     'edits': [('pmutt/__init__.py', '        specie_kwargs.update(specie_specific_kwargs)', "        specie_kwargs.update(specie_specific_kwargs)\n        specie_specific_kwargs.pop('P', None)")]},
    {'name': 'get_G_act hands on neither the pressure nor the species blocks', 'expect': ('REF.act', 'get_G_act'),
     'edits': [(R, "        return self.get_GoRT_act(T=T, rev=rev, **kwargs)*T \\\n               *c.R('{}/K'.format(units))\n\n    def get_Keq(",
                "        return self.get_delta_G(units=units, T=T, rev=rev, act=True)\n\n    def get_Keq(")]},
    {'name': 'get_Cp_act drops the conditions', 'expect': ('REF.act', 'get_Cp_act'),
     'edits': [(R, "        return self.get_delta_Cp(units=units, rev=rev, act=True, **kwargs)",
                "        return self.get_delta_Cp(units=units, rev=rev, act=True)")]},
    {'name': 'species blocks looked up by the name without its phase suffix',
     'expect': ('DATAFLOW.species-kwargs', 'get_state_quantity'),
     'edits': [(R, "            specie_kwargs = _get_specie_kwargs(specie.name, **kwargs)",
                "            specie_kwargs = _get_specie_kwargs(\n                    str(specie.name).split('(')[0], **kwargs)")]},
    {'name': 'species blocks matched by prefix', 'expect': ('DATAFLOW.species-kwargs', ''),
     'edits': [('pmutt/__init__.py', "            if key == '{}_kwargs'.format(specie_name):",
                "            if key.startswith(specie_name) and key.endswith('_kwargs'):")]},
    {'name': 'species blocks matched without regard to case', 'expect': ('DATAFLOW.species-kwargs', ''),
     'edits': [('pmutt/__init__.py', "            if key == '{}_kwargs'.format(specie_name):",
                "            if key.lower() == '{}_kwargs'.format(specie_name).lower():")]},
    {'name': 'get_delta_F converts the unit in the wrong direction', 'expect': ('REF.delta', 'get_delta_F'),
     'edits': [(R, "        return self.get_delta_FoRT(rev=rev, T=T, act=act, **kwargs) * T * c.R(\n            '{}/K'.format(units))",
                "        delta_F = self.get_delta_FoRT(rev=rev, T=T, act=act, **kwargs) \\\n            * T * c.R('J/mol/K')\n        return c.convert_unit(delta_F, initial=units, final='J/mol')")]},
    {'name': 'the bulk species of a catalyst site is left out of the state sum', 'expect': ('REF.state', '_state'),
     'edits': [(R, "            # Process the inputs and methods for each specie\n",
                "            try:\n                if specie.name == specie.cat_site.bulk_specie:\n                    continue\n            except AttributeError:\n                pass\n            # Process the inputs and methods for each specie\n")]},
    {'name': 'a species block only wins over shared conditions written before it',
     'expect': ('DATAFLOW.species-kwargs', ''),
     'edits': [('pmutt/__init__.py',
                "    specie_kwargs = kwargs.copy()\n    # Remove any keys related to other species\n    for key in kwargs.keys():\n        if 'kwargs' in key:\n            temp_kwargs = specie_kwargs.pop(key, {})\n            if key == '{}_kwargs'.format(specie_name):\n                specie_specific_kwargs = temp_kwargs\n    # See if there was an entry for the specific species\n    try:\n        specie_kwargs.update(specie_specific_kwargs)\n    except (KeyError, TypeError, NameError):\n        pass\n",
                "    specie_kwargs = {}\n    for key, val in kwargs.items():\n        if 'kwargs' not in key:\n            specie_kwargs[key] = val\n        elif key == '{}_kwargs'.format(specie_name):\n            try:\n                specie_kwargs.update(val)\n            except TypeError:\n                pass\n")]},
]
EQUIV = [
    {'name': 'delta written as -(initial - final)',
     'edits': [(R, '            return final_quantity - initial_quantity', '            return -(initial_quantity - final_quantity)')]},
]
