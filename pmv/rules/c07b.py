"""C07 (continued): per-object emitters - every coefficient, bound, name and converted quantity written by
to_cti / to_omkm_yaml is compared with the object."""
from fractions import Fraction as Fr

from ..absstr import SegStr
from ..nf import Rat, C
from ..source import Unsupported, AnchorError
from ..xlate import canonical_extremum, Interp, Frame, Obj, ListV, DictV, Raised, RankOrder, _RaisedExc
from .common import same, show, coeff_vector
from .rxnfix import species as opaque_species, set_public, get_public, make_reaction, state_sum

Z = '\x00'


import ast as _ast
import re as _re
_GETBEP = _ast.parse('def _get_bep(r):\n    return r.bep\n').body[0]


def text(I, key, width, cls='text'):
    k = Z + key
    I.sym_strings[k] = (width, cls)
    return k


def num_fields(I, s):
    return [f.value for f in I.seg(s).fields() if f.cls == 'num' and isinstance(f.value, Rat)]


def eq_list(a, b):
    return len(a) == len(b) and all(isinstance(x, Rat) and x.eq(y) for x, y in zip(a, b))


def flat(v):
    if isinstance(v, ListV):
        out = []
        for x in v.items:
            out += flat(x)
        return out
    return [v]


_SPEC = _re.compile(r'^(?:.?[<>=^])?[ +-]?z?#?0?\d*[,_]?(?:\.(\d+))?([a-zA-Z%])?$')
NEED_DIGITS = 6


def sig_digits(spec):
    """significant digits a format specification keeps whatever the magnitude of the number: 17 for the plain
    conversion (shortest text that reads back to the same float), precision (+1) for the exponent and general
    presentations, 0 for fixed-point, percent and integer presentations (a coefficient of 1e-14 printed with '.8f' is
    0.00000000)"""
    m_ = _SPEC.match(spec or '')
    if m_ is None:
        return 0
    prec, typ = m_.group(1), m_.group(2)
    if typ is None:
        return 17 if prec is None else max(int(prec), 1)
    if typ in ('e', 'E'):
        return (int(prec) if prec is not None else 6) + 1
    if typ in ('g', 'G', 'n'):
        return max(int(prec), 1) if prec is not None else 6
    if typ == 'd':
        return 17           # only an integer can be printed this way, and it is printed in full
    return 0


def lossy_fields(sg, values=None):
    """the numeric fields of an abstract text (those printing one of ``values`` when given) whose format keeps fewer
    than NEED_DIGITS significant digits for some magnitude"""
    out = []
    for f_ in sg.fields():
        if f_.cls != 'num' or not isinstance(f_.value, Rat):
            continue
        if values is not None and not any(f_.value.eq(v_) for v_ in values):
            continue
        if sig_digits(f_.spec) < NEED_DIGITS:
            out.append((f_.value, f_.spec))
    return out


def named_ids(I, entries):
    """the set of ids a list of id entries names; an entry is one id or an inclusive range '<head>_<m> to <head>_<n>'
    (OpenMKM's range notation); None when an entry is neither"""
    if entries is None:
        return set()
    if not isinstance(entries, ListV):
        return None
    out = set()
    for e_ in entries.items:
        t_ = I.plain(e_)
        if not isinstance(t_, str):
            return None
        ends = [x.strip() for x in t_.strip().strip('"').split(' to ')]
        if len(ends) == 1:
            out.add(ends[0])
        elif len(ends) == 2 and '_' in ends[0] and '_' in ends[1]:
            (h0, f0), (h1, f1) = ends[0].rsplit('_', 1), ends[1].rsplit('_', 1)
            if h0 != h1 or not (f0.isdigit() and f1.isdigit()) or len(f0) != len(f1):
                return None
            for k_ in range(int(f0), int(f1) + 1):
                out.add('%s_%0*d' % (h0, len(f0), k_))
        else:
            return None
    return out


def keyword_slots(sg):
    """for every text field of a CTI directive the keyword(s) it stands under: the identifier before the last '=' of the
    literal text written so far ({value: [keyword, ...]}, one entry per occurrence)"""
    out = {}
    acc = ''
    for s_ in sg.segs:
        if s_.kind == 'lit':
            acc += s_.text
        elif s_.cls != 'num':
            m_ = _re.search(r'(\w+)\s*=[^=]*$', acc)
            out.setdefault(s_.value, []).append(m_.group(1) if m_ else None)
    return out


# Instances that are written below / in c07.py but NOT armed, because the unmodified tree fails them: genuine defects
# reproduced against the real code (/tmp/gaps3/DEFECT3_C07.md: script, observed / expected, proposed patch).  Remove an
# entry once the defect is fixed in pMuTT - the instance is armed from then on.
#   D1  NumPy numbers / arrays for reactor options without unit reach the serialiser as they are
#   D2  write_yaml writes into the section dictionaries of the caller (reactor, inlet_gas, simulation, solver, multi_input)
#   D3  the YAML writers strip every single quote of the serialiser's text (a species called NO reads back as a boolean)
#   D4  Nasa9.to_cti does not close its species( directive and uses NASA( for nine coefficients
PENDING_DEFECTS = set()     # D1-D4 of white-box round 3 are repaired in pMuTT (commits ed98c83, 9a02d60, d7bf547, 3cca0bc): armed


def yaml_offences(data, path=()):
    """what a YAML serialiser can only write with Python-specific tags (pMuTT's own read_yaml - SafeLoader - and
    OpenMKM's yaml-cpp cannot read them back): containers other than dictionaries and lists (a tuple is written as
    !!python/tuple, an array as a binary object), lists that hold NumPy scalars (list(arr): !!python/object/apply:numpy...),
    objects.  [(path, what)]"""
    out = []
    where = '/'.join(str(p_).strip(Z) for p_ in path) or '(top level)'
    if isinstance(data, DictV):
        for k_, v_ in data.d.items():
            out += yaml_offences(v_, path + (data.okey(k_) if isinstance(k_, str) else k_,))
    elif isinstance(data, ListV):
        if getattr(data, 'is_tuple', False):
            out.append((where, 'a tuple'))
        elif getattr(data, 'is_array', False):
            out.append((where, 'a NumPy array'))
        elif getattr(data, 'np_int', False) or getattr(data, 'np_elems', False):
            out.append((where, 'a list of NumPy scalars'))
        for k_, v_ in enumerate(data.items):
            out += yaml_offences(v_, path + (k_,))
    elif isinstance(data, Obj):
        out.append((where, 'an object (%s)' % data.name))
    elif data is None or isinstance(data, (Rat, str, SegStr, bool, int, float)):
        pass
    else:
        raise Unsupported('YAML data holds a value of kind %s at %s' % (type(data).__name__, where))
    return out


def check_yaml_plain(run, data, rule, construct, key, module, fn):
    bad = yaml_offences(data)
    run.check(not bad, rule, construct, key,
              'the YAML data holds %s: a YAML file that loads (safe loader, yaml-cpp) is made of dictionaries, lists, '
              'text, booleans and plain Python numbers - anything else is written with a python-specific tag'
              % ', '.join('%s at %s' % (w_, p_) for p_, w_ in bad[:4]), module, fn)


_CTI_NODES = (_ast.Module, _ast.Expr, _ast.Call, _ast.keyword, _ast.Constant, _ast.List, _ast.Tuple, _ast.Load,
              _ast.UnaryOp, _ast.USub, _ast.UAdd)


def cti_offences(repo, sg, is_directive=None):
    """why an abstract CTI text is not a sequence of CTI directives.  The file is executed by Cantera's ctml_writer
    (pmutt/io/ctml_writer.py): every statement is a call of one of its directives, by keywords the directive has,
    every argument a literal (text, number, list or tuple of such) or again a directive.  Fields of the text are
    spelled with a sample (a number for a printed number, letters for a name; a field that stands for the entry of a
    whole object - ``is_directive(value)`` - a directive)."""
    sample = ''.join(s_.text if s_.kind == 'lit' else ('1.5' if s_.cls == 'num' else (
        'species(name="Xx")' if is_directive is not None and is_directive(s_.value) else 'Xx')) for s_ in sg.segs)
    try:
        tree = _ast.parse(sample)
    except SyntaxError as e_:
        return ['not Python syntax (%s): %s' % (e_.msg, (e_.text or '').strip()[:80])]
    cw = repo.module('pmutt.io.ctml_writer')
    out = []
    funcs = set()
    for n_ in _ast.walk(tree):
        if isinstance(n_, _ast.Call):
            funcs.add(id(n_.func))
            if not isinstance(n_.func, _ast.Name):
                out.append('a call of %s' % _ast.unparse(n_.func)[:40])
                continue
            nm_ = n_.func.id
            if nm_ in cw.classes:
                found = repo.find_method(cw.classes[nm_], '__init__', missing_ok=True)
                fdef = found[1] if found else None
            else:
                fdef = cw.functions.get(nm_)
                if fdef is None:
                    out.append('%s(...), which is not a directive of ctml_writer' % nm_)
                    continue
            if fdef is not None and fdef.args.kwarg is None:
                params = [a_.arg for a_ in fdef.args.posonlyargs + fdef.args.args + fdef.args.kwonlyargs]
                for kw_ in n_.keywords:
                    if kw_.arg is not None and kw_.arg not in params:
                        out.append('%s(%s=...): the directive has no such keyword' % (nm_, kw_.arg))
    for stmt in tree.body:
        if not (isinstance(stmt, _ast.Expr) and isinstance(stmt.value, _ast.Call)):
            out.append('a statement that is not a directive: %s' % _ast.unparse(stmt)[:60])
    for n_ in _ast.walk(tree):
        if isinstance(n_, _ast.Name):
            if id(n_) not in funcs:
                out.append('the bare name %s where a literal is expected' % n_.id)
        elif isinstance(n_, _ast.UnaryOp):
            if not (isinstance(n_.operand, _ast.Constant) and isinstance(n_.operand.value, (int, float))):
                out.append('the expression %s' % _ast.unparse(n_)[:40])
        elif not isinstance(n_, _CTI_NODES):
            out.append('%s (%s) where a literal or a directive is expected' % (_ast.unparse(n_)[:40] if isinstance(
                n_, _ast.expr) else type(n_).__name__, type(n_).__name__))
    return out


def check_cti_directives(run, repo, I, out, rule, construct, key, module, fn, is_directive=None):
    if not isinstance(out, (str, SegStr)):
        return
    bad = cti_offences(repo, I.seg(out), is_directive)
    run.check(not bad, rule, construct, key,
              'the CTI text is not a valid sequence of CTI directives (it is executed by ctml_writer): it contains %s; '
              'text: %s' % ('; '.join(bad[:3]), show(out, 300).replace(Z, '')), module, fn)


def built(I, ci, objname, **kw):
    """an object of the package made by its own constructor (under which names a class keeps what it is given is its
    business; the rule reads and writes the public names only)"""
    o = I.construct(ci, [], kw, name=objname)
    if not isinstance(o, Obj):
        raise Unsupported('%s(...) gives %s for the model object' % (ci.qual, show(o, 80)))
    return o


def species_emitters(run, repo):
    nasa = 'pmutt.empirical.nasa'
    for cname in ('Nasa', 'Nasa9', 'Shomate'):
        ranks = {'seg0.T_low': 1, 'seg0.T_high': 5, 'seg1.T_low': 5, 'seg1.T_high': 9, 'Tl': 1, 'Tm': 5, 'Th': 9}
        I = Interp(repo, order=RankOrder(ranks))
        D = I.D
        name = text(I, 'spname', 4)
        els = DictV({'H': C(2), 'O': C(1)})
        ns = D.sym('n_sites')
        if cname == 'Nasa':
            ci = repo.cls(nasa + '.Nasa')
            al, ah = coeff_vector(I, 'lo', 7), coeff_vector(I, 'hi', 7)
            al.is_array = ah.is_array = True
            o = built(I, ci, 'sp', name=name, elements=els, n_sites=ns, a_low=al, a_high=ah, T_low=D.sym('Tl'),
                      T_mid=D.sym('Tm'), T_high=D.sym('Th'))
            want_cti = [D.sym('Tl'), D.sym('Tm')] + al.items + [D.sym('Tm'), D.sym('Th')] + ah.items
            want_T = [D.sym('Tl'), D.sym('Tm'), D.sym('Th')]
            want_data = al.items + ah.items
        elif cname == 'Nasa9':
            ci = repo.cls(nasa + '.Nasa9')
            sci = repo.cls(nasa + '.SingleNasa9')
            segs, given = [], {}
            for k in (1, 0):        # deliberately stored out of temperature order
                a9 = coeff_vector(I, 's%d' % k, 9)
                given['seg%d' % k] = (D.sym('seg%d.T_low' % k), D.sym('seg%d.T_high' % k), list(a9.items))
                segs.append(built(I, sci, 'seg%d' % k, a=a9, T_low=D.sym('seg%d.T_low' % k),
                                  T_high=D.sym('seg%d.T_high' % k)))
            o = built(I, ci, 'sp', name=name, elements=els, n_sites=ns, nasas=ListV(segs))
            want_cti = []
            for s_ in segs:
                want_cti += [given[s_.name][0], given[s_.name][1]] + given[s_.name][2]
            srt = sorted(segs, key=lambda s_: ranks[s_.name + '.T_low'])
            want_T = [given[s_.name][0] for s_ in srt] + [given[srt[-1].name][1]]
            want_data = [x for s_ in srt for x in given[s_.name][2]]
        else:
            ci = repo.cls('pmutt.empirical.shomate.Shomate')
            a8 = coeff_vector(I, 'a', 8)
            a8.is_array = True
            o = built(I, ci, 'sp', name=name, elements=els, n_sites=ns, a=a8, T_low=D.sym('Tl'), T_high=D.sym('Th'),
                      units='J/mol/K')
            want_cti = [D.sym('Tl'), D.sym('Th')] + a8.items[:7]
            want_T = [D.sym('Tl'), D.sym('Th')]
            want_data = a8.items[:7]
        # CTI
        owner, fn = repo.find_method(ci, 'to_cti')
        run.fn(owner.qual + '.to_cti', ci.qual + '.to_omkm_yaml')
        out = I.call_method(o, 'to_cti', [], {})
        if isinstance(out, Raised):
            run.fail('SLOT.cti', cname + '.to_cti', 'raises', 'to_cti raises %s' % out.exc, owner.module, fn)
        else:
            sg = I.seg(out)
            if cname != 'Nasa9' or 'D4' not in PENDING_DEFECTS:
                check_cti_directives(run, repo, I, out, 'SLOT.cti', cname + '.to_cti', 'valid directives', owner.module,
                                     fn)
            else:
                # not armed: on the unmodified tree the entry of a NASA-9 species never closes its species( directive
                # and names the 7-coefficient directive NASA for nine coefficients (DEFECT3_C07.md D4)
                run.note('Nasa9.to_cti: "valid directives" is not armed (the entry does not close species( and uses the '
                         'directive NASA for nine coefficients: DEFECT3_C07.md D4)', owner.module, fn)
            nums = [f.value for f in sg.fields() if f.cls == 'num' and isinstance(f.value, Rat)]
            nums_wo_sites = [x for x in nums if not x.eq(ns)]
            run.check(eq_list(nums_wo_sites, want_cti), 'SLOT.cti', cname + '.to_cti', 'coefficients and bounds',
                      'the CTI entry lists %s; expected each temperature bound and every coefficient once, in order: %s'
                      % (show(ListV(nums_wo_sites), 200), show(ListV(want_cti), 200)), owner.module, fn,
                      sample='%s.to_cti: %d numbers in order' % (cname, len(want_cti)))
            names = [f.value for f in sg.fields() if f.cls != 'num']
            run.check(names == [name], 'SLOT.cti', cname + '.to_cti', 'name', 'species name fields: %s' % names,
                      owner.module, fn)
            lossy = lossy_fields(sg)
            run.check(not lossy, 'SLOT.cti', cname + '.to_cti', 'digits kept',
                      'the CTI entry prints %s: a polynomial coefficient has any magnitude (a5 is of the order 1e-14), '
                      'its text must keep at least %d significant digits whatever the magnitude (exponent, general or '
                      'plain presentation)' % (['%s as {:%s}' % (show(v_, 20), s_) for v_, s_ in lossy[:4]], NEED_DIGITS),
                      owner.module, fn)
            run.check(any(x.eq(ns) for x in nums), 'SLOT.cti', cname + '.to_cti', 'site occupancy',
                      'the site occupancy (size=) is not written', owner.module, fn)
            lit = ''.join(s.text for s in sg.segs if s.kind == 'lit')
            run.check('H:2' in lit and 'O:1' in lit, 'SLOT.cti', cname + '.to_cti', 'composition',
                      'composition not written as atoms (H:2 O:1): %s' % lit[:80], owner.module, fn)
        # YAML
        owner, fn = repo.find_method(ci, 'to_omkm_yaml')
        d = I.call_method(o, 'to_omkm_yaml', [], {})
        if isinstance(d, Raised) or not isinstance(d, DictV):
            run.fail('SLOT.yaml', cname + '.to_omkm_yaml', 'raises', 'to_omkm_yaml gives %s' % show(d), owner.module, fn)
            continue
        check_yaml_plain(run, d, 'SLOT.yaml', cname + '.to_omkm_yaml', 'plain YAML data', owner.module, fn)
        th = d.d.get('thermo')
        okT = isinstance(th, DictV) and eq_list(flat(th.d.get('temperature-ranges')), want_T)
        run.check(okT, 'SLOT.yaml', cname + '.to_omkm_yaml', 'temperature ranges',
                  'temperature-ranges are %s, expected %s' % (show(th.d.get('temperature-ranges') if isinstance(th, DictV)
                                                                   else th, 120), show(ListV(want_T), 120)),
                  owner.module, fn)
        okD = isinstance(th, DictV) and eq_list(flat(th.d.get('data')), want_data)
        run.check(okD, 'SLOT.yaml', cname + '.to_omkm_yaml', 'coefficients',
                  'data are %s, expected every coefficient once in segment order' %
                  show(th.d.get('data') if isinstance(th, DictV) else th, 160), owner.module, fn,
                  sample='%s.to_omkm_yaml: data == coefficients in order' % cname)
        run.check(I.plain(d.d.get('name')) == name and d.d.get('composition') is els, 'SLOT.yaml',
                  cname + '.to_omkm_yaml', 'name and composition', 'name/composition not carried over', owner.module, fn)
        sites = d.d.get('sites')
        run.check(isinstance(sites, Rat) and sites.eq(ns), 'SLOT.yaml', cname + '.to_omkm_yaml', 'site occupancy',
                  'sites is %s (%s): expected the plain number n_sites - a sequence is serialised as a sequence (a '
                  'tuple as a python/tuple tag no YAML reader of OpenMKM accepts)'
                  % (show(d.d.get('sites')), type(sites).__name__), owner.module, fn)


def phase_emitters(run, repo):
    I = Interp(repo)
    D = I.D
    fr = Frame(I, repo.module('pmutt'), {}, None, None)
    u = fr.apply(repo.cls('pmutt.omkm.units.Units'), [], {'length': 'm', 'quantity': 'mol', 'mass': 'g',
                                                          'pressure': 'atm'}, None)
    sp = []
    for k, w_ in enumerate((2, 3, 5)):
        sp.append(Obj('sp%d' % k, attrs={'name': text(I, 'sp%d' % k, w_),
                                         'elements': DictV({text(I, 'el%d' % k, 1 + k % 2, 'alpha'): C(1),
                                                            text(I, 'elX', 1, 'alpha'): C(2)}), 'phase': None}))
    sden, rho = D.sym('sden'), D.sym('rho')
    gas_name = text(I, 'gasname', 3)
    cases = [
        ('pmutt.omkm.phase.IdealGas', {'name': gas_name}, None),
        ('pmutt.omkm.phase.StoichSolid', {'name': text(I, 'bulkname', 4), 'density': rho}, 'density'),
        ('pmutt.omkm.phase.InteractingInterface', {'name': text(I, 'surfname', 5), 'site_density': sden,
                                                   'phases': ListV([gas_name])}, 'site_density'),
    ]
    # two unit systems, so that none of the three conversions (quantity, length, mass) is the identity in both: an
    # explicit one (mol, m, g) and the default of the Units class (molec, cm, kg)
    u_first = u
    for usys, ulab in (({'length': 'm', 'quantity': 'mol', 'mass': 'g'}, ''),
                       ({'length': 'cm', 'quantity': 'molec', 'mass': 'kg'}, ' [default unit system]')):
        u = u_first if not ulab else fr.apply(repo.cls('pmutt.omkm.units.Units'), [], {}, None)
        q_conv = I.unit(usys['quantity']) / I.unit('mol')
        a_conv = I.unit(usys['length'] + '2') / I.unit('cm2')
        v_conv = I.unit(usys['length'] + '3') / I.unit('cm3')
        m_conv = I.unit(usys['mass']) / I.unit('g')
        for qual, kw, qty in cases:
            ci = repo.cls(qual)
            ph = fr.apply(ci, [], dict(kw, species=ListV(list(sp)), note=text(I, 'note', 9)), None)
            names = [s_.attrs['name'] for s_ in sp]
            all_el = []
            for s_ in sp:
                for e_ in s_.attrs['elements'].d:
                    if e_ not in all_el:
                        all_el.append(e_)
            # YAML
            owner, fn = repo.find_method(ci, 'to_omkm_yaml')
            run.fn(owner.qual + '.to_omkm_yaml')
            d = I.call_method(ph, 'to_omkm_yaml', [], {'units': u})
            cn = qual.split('.')[-1]
            if isinstance(d, DictV):
                check_yaml_plain(run, d, 'DATAFLOW.phase', cn + '.to_omkm_yaml', 'plain YAML data' + ulab, owner.module, fn)
                got_sp = [I.plain(x) for x in flat(d.d.get('species'))]
                got_el = sorted(I.plain(x) for x in flat(d.d.get('elements')))
                run.check(got_sp == names, 'DATAFLOW.phase', cn + '.to_omkm_yaml', 'species' + ulab,
                          'the phase lists species %s, it owns %s' % (got_sp, names), owner.module, fn,
                          sample='%s.to_omkm_yaml lists exactly its species' % cn)
                run.check(got_el == sorted(all_el), 'DATAFLOW.phase', cn + '.to_omkm_yaml', 'elements' + ulab,
                          'the phase lists elements %s, its species contain %s' % (got_el, sorted(all_el)), owner.module, fn)
                run.check(I.plain(d.d.get('name')) == kw['name'], 'DATAFLOW.phase', cn + '.to_omkm_yaml', 'name' + ulab,
                          'the phase entry is named %s, the phase is called %s (its note is a different text)'
                          % (show(d.d.get('name'), 40), show(kw['name'], 40)), owner.module, fn)
                if qty == 'site_density':
                    sg = I.seg(d.d.get('site-density')) if isinstance(d.d.get('site-density'), (str, SegStr)) else None
                    val = num_fields(I, sg)[0] if sg is not None and num_fields(I, sg) else None
                    # mol/cm2 -> quantity/length2
                    want = sden * q_conv / a_conv
                    ulit = '%s/%s^2' % (usys['quantity'], usys['length'])
                    lit = ''.join(s.text for s in sg.segs if s.kind == 'lit') if sg is not None else ''
                    run.check(val is not None and val.eq(want) and lit.strip().strip('"\'').strip() == ulit,
                              'DIM.site-density', cn + '.to_omkm_yaml', 'site density' + ulab,
                              'site density written as %s, expected site_density*[mol/cm2 -> %s/%s2] = %s with unit %s'
                              % (show(d.d.get('site-density'), 100), usys['quantity'], usys['length'],
                                 show(want, 80), ulit), owner.module, fn)
                    lossy = lossy_fields(sg) if sg is not None else []
                    run.check(not lossy, 'DIM.site-density', cn + '.to_omkm_yaml', 'site density digits kept' + ulab,
                              'the YAML phase entry prints %s: a site density has any magnitude in the unit system asked '
                              'for (2.5e-9 mol/cm2), its text must keep at least %d significant digits whatever the '
                              'magnitude' % (['%s as {:%s}' % (show(v_, 30), s_) for v_, s_ in lossy[:3]], NEED_DIGITS),
                              owner.module, fn)
            else:
                run.fail('DATAFLOW.phase', cn + '.to_omkm_yaml', 'raises' + ulab, 'gives %s' % show(d), owner.module,
                         fn)
            # CTI
            owner, fn = repo.find_method(ci, 'to_cti')
            run.fn(owner.qual + '.to_cti')
            out = I.call_method(ph, 'to_cti', [], {'units': u} if qty else {})
            if isinstance(out, Raised):
                run.fail('DATAFLOW.phase', cn + '.to_cti', 'raises' + ulab, 'to_cti raises %s' % out.exc, owner.module,
                         fn)
                continue
            sg = I.seg(out)
            check_cti_directives(run, repo, I, out, 'DATAFLOW.phase', cn + '.to_cti', 'valid directives' + ulab,
                                 owner.module, fn)
            texts = [f.value for f in sg.fields() if f.cls != 'num']
            run.check(all(texts.count(n_) == 1 for n_ in names) and all(texts.count(e_) == 1 for e_ in all_el),
                      'DATAFLOW.phase', cn + '.to_cti', 'species and elements once' + ulab,
                      'species/elements in the CTI phase entry: %s' % [str(t).strip(Z) for t in texts], owner.module, fn)
            run.check(texts.count(kw['name']) == 1 and texts.index(kw['name']) == 0, 'DATAFLOW.phase', cn + '.to_cti',
                      'name' + ulab, 'the CTI phase entry must open with the name of the phase; its text fields are %s'
                      % [str(t).strip(Z) for t in texts], owner.module, fn)
            # which keyword a name stands under: species under species=, elements under elements=
            slots = keyword_slots(sg)
            wrong = {str(v_).strip(Z): slots.get(v_) for v_, w_ in [(n_, 'species') for n_ in names] +
                     [(e_, 'elements') for e_ in all_el] if slots.get(v_) != [w_]}
            run.check(not wrong, 'DATAFLOW.phase', cn + '.to_cti', 'species under species=, elements under elements=' + ulab,
                      'in the CTI phase entry every species name must stand under species= and every element under '
                      'elements=; found under other keywords: %s (entry: %s)' % (wrong, show(sg, 300).replace(Z, '')),
                      owner.module, fn, sample='%s.to_cti: species= lists the species, elements= the elements' % cn)
            if qty:
                nums = num_fields(I, out)
                # mol/cm2 -> quantity/length2, g/cm3 -> mass/length3
                want = sden * q_conv / a_conv if qty == 'site_density' else rho * m_conv / v_conv
                run.check(len(nums) == 1 and nums[0].eq(want), 'DIM.' + qty.replace('_', '-'), cn + '.to_cti', qty + ulab,
                          '%s written as %s, expected %s (mol/cm2 -> %s/%s2, g/cm3 -> %s/%s3)'
                          % (qty, show(ListV(nums), 100), show(want, 100), usys['quantity'], usys['length'],
                             usys['mass'], usys['length']), owner.module, fn,
                          sample='%s.to_cti: %s converted to the unit system%s' % (cn, qty, ulab))
                lossy = lossy_fields(sg)
                run.check(not lossy, 'DIM.' + qty.replace('_', '-'), cn + '.to_cti', qty + ' digits kept' + ulab,
                          'the phase entry prints %s: a %s has any magnitude in the unit system asked for (2.5e-9 '
                          'mol/cm2, 1.5e15 molec/cm2), its text must keep at least %d significant digits whatever the '
                          'magnitude' % (['%s as {:%s}' % (show(v_, 30), s_) for v_, s_ in lossy[:3]],
                                         qty.replace('_', ' '), NEED_DIGITS), owner.module, fn)
    u = u_first
    # a phase with so many species that the list does not fit on one line of the CTI entry (any mechanism of realistic
    # size): every species is still named once, in order, names separated by white space only
    many = [Obj('msp%d' % k, attrs={'name': text(I, 'msp%d' % k, 5 + (3 * k) % 7),
                                    'elements': DictV({text(I, 'el%d' % (k % 3), 1 + k % 2, 'alpha'): C(1)}),
                                    'phase': None}) for k in range(17)]
    mnames = [s_.attrs['name'] for s_ in many]
    for qual, kw, qty in cases:
        ci = repo.cls(qual)
        cn = qual.split('.')[-1]
        ph = fr.apply(ci, [], dict(kw, species=ListV(list(many))), None)
        owner, fn = repo.find_method(ci, 'to_cti')
        out = I.call_method(ph, 'to_cti', [], {'units': u} if qty else {})
        if isinstance(out, Raised) or not isinstance(out, (str, SegStr)):
            run.fail('DATAFLOW.phase', cn + '.to_cti', 'species list longer than a line', 'to_cti gives %s'
                     % show(out, 80), owner.module, fn)
            continue
        check_cti_directives(run, repo, I, out, 'DATAFLOW.phase', cn + '.to_cti', 'valid directives [17 species]',
                             owner.module, fn)
        segs = I.seg(out).segs
        pos = [k_ for k_, s_ in enumerate(segs) if s_.kind == 'field' and s_.value in mnames]
        listed = [segs[k_].value for k_ in pos]
        between = [''.join(s_.text if s_.kind == 'lit' else '?' for s_ in segs[i_ + 1:j_])
                   for i_, j_ in zip(pos, pos[1:])]
        run.check(listed == mnames and all(b_ != '' and b_.strip() == '' for b_ in between), 'DATAFLOW.phase',
                  cn + '.to_cti', 'species list longer than a line',
                  'a phase with 17 species (names of 5-11 characters) names %d of them in its CTI entry%s: %s'
                  % (len(set(listed)), '' if listed == mnames else ' (missing or out of order: %s)'
                     % [str(n_).strip(Z) for n_ in mnames if listed.count(n_) != 1], show(out, 400).replace(Z, '')),
                  owner.module, fn, sample='%s.to_cti: 17 species over several lines, each once' % cn)
        slots = keyword_slots(I.seg(out))
        mels = []
        for s_ in many:
            for e_ in s_.attrs['elements'].d:
                if e_ not in mels:
                    mels.append(e_)
        wrong = {str(v_).strip(Z): slots.get(v_) for v_, w_ in [(n_, 'species') for n_ in mnames] +
                 [(e_, 'elements') for e_ in mels] if slots.get(v_) != [w_]}
        run.check(not wrong, 'DATAFLOW.phase', cn + '.to_cti', 'species under species=, elements under elements= '
                  '[17 species]', 'in the CTI entry of a phase with 17 species every species name must stand under '
                  'species= and every element under elements=; found under other keywords: %s' % wrong, owner.module, fn)
    # the phases an interface adjoins, given as phase objects and as names: the entry names each of them (by its name),
    # and itself by its own name
    ci = repo.cls('pmutt.omkm.phase.InteractingInterface')
    owner, fn = repo.find_method(ci, 'to_cti')
    adj_gas = fr.apply(repo.cls('pmutt.omkm.phase.IdealGas'), [], {'name': text(I, 'adjgas', 3)}, None)
    adj_bulk = text(I, 'adjbulk', 4)
    own_name = text(I, 'ownname', 7)
    ph = fr.apply(ci, [], {'name': own_name, 'site_density': sden, 'species': ListV(list(sp)),
                           'phases': ListV([adj_gas, adj_bulk])}, None)
    out = I.call_method(ph, 'to_cti', [], {'units': u})
    if isinstance(out, Raised) or not isinstance(out, (str, SegStr)):
        run.fail('DATAFLOW.phase', 'InteractingInterface.to_cti', 'adjacent phases', 'to_cti gives %s' % show(out, 80),
                 owner.module, fn)
    else:
        segs = I.seg(out).segs
        lit_before = {}
        acc = ''
        for s_ in segs:
            if s_.kind == 'lit':
                acc += s_.text
            elif s_.cls != 'num':
                lit_before.setdefault(s_.value, []).append(acc)
        import re

        def slot_of(v_):
            # the keyword whose value the field belongs to: the identifier before the last '=' of the text so far
            found = [re.search(r'(\w+)\s*=[^=]*$', b_) for b_ in lit_before.get(v_, [])]
            return [f_.group(1) if f_ else None for f_ in found]
        got = {str(k_).strip(Z): slot_of(k_) for k_ in (own_name, I.plain(get_public(I, adj_gas, 'name')), adj_bulk)}
        want = {'ownname': ['name'], 'adjgas': ['phases'], 'adjbulk': ['phases']}
        run.check(got == want, 'DATAFLOW.phase', 'InteractingInterface.to_cti', 'adjacent phases',
                  'an interface "ownname" adjoining the phase object "adjgas" and the phase named "adjbulk" must carry its '
                  'own name under name= and the two others under phases=; found %s' % got, owner.module, fn,
                  sample='InteractingInterface.to_cti: name=own name, phases=names of the adjacent phases')
    # an interface with reactions, lateral interactions and BEP relations: the CTI entry names every reaction and
    # interaction id and every BEP relation once; the YAML entry declares them (and 'none' when there are none)
    ci = repo.cls('pmutt.omkm.phase.InteractingInterface')
    owner_c, fn_c = repo.find_method(ci, 'to_cti')
    owner_y, fn_y = repo.find_method(ci, 'to_omkm_yaml')
    bepA = Obj('bepA', attrs={'name': 'bep_A'})
    bepB = Obj('bepB', attrs={'name': 'bep_B'})
    rx = []
    for rid, bp in (('r_0001', bepA), ('r_0002', None), ('r_0003', bepA), ('r_0007', bepB), ('r_0008', 'absent')):
        o_ = Obj(rid, attrs={'id': rid})
        if bp == 'absent':
            o_.missing.add('bep')
        else:
            o_.attrs['bep'] = bp
        rx.append(o_)
    li = [Obj(n_, attrs={'name': n_}) for n_ in ('i_0001', 'i_0002', 'i_0004')]
    for o_ in li:
        o_.missing.add('id')            # a lateral interaction is identified by its name
    # ... and the ordinary mechanism: reactions, none of them with a BEP relation (no keyword beps= then: an empty
    # list of relations is not a relation)
    rx_plain = [o_ for o_ in rx if o_.attrs.get('bep') is None]
    for with_members in (True, False, 'no BEP'):
        kw = dict(cases[2][1], species=ListV(list(sp)))
        if with_members == 'no BEP':
            kw.update({'reactions': ListV(rx_plain), 'interactions': ListV(li)})
        elif with_members:
            kw.update({'reactions': ListV(rx), 'interactions': ListV(li)})
        ph = fr.apply(ci, [], kw, None)
        lab = 'with reactions and interactions, no reaction with a BEP relation' if with_members == 'no BEP' else \
            'with reactions, interactions, BEPs' if with_members else 'without members'
        d = I.call_method(ph, 'to_omkm_yaml', [], {'units': u})
        want = ('declared-species', 'declared-species', 'none') if with_members == 'no BEP' else \
            ('declared-species', 'declared-species', 'all') if with_members else ('none', 'none', 'none')
        got = tuple(I.plain(d.d.get(k_)) for k_ in ('interactions', 'reactions', 'beps')) if isinstance(d, DictV) \
            else None
        run.check(got == want, 'DATAFLOW.phase', 'InteractingInterface.to_omkm_yaml', 'members declared [%s]' % lab,
                  '[%s] interactions/reactions/beps are declared as %s, expected %s' % (lab, got, want),
                  owner_y.module, fn_y)
        out = I.call_method(ph, 'to_cti', [], {'units': u})
        if isinstance(out, Raised) or not isinstance(out, (str, SegStr)):
            run.fail('DATAFLOW.phase', 'InteractingInterface.to_cti', 'members [%s]' % lab, 'gives %s' % show(out, 80),
                     owner_c.module, fn_c)
            continue
        check_cti_directives(run, repo, I, out, 'DATAFLOW.phase', 'InteractingInterface.to_cti',
                             'valid directives [%s]' % lab, owner_c.module, fn_c)
        if isinstance(d, DictV):
            check_yaml_plain(run, d, 'DATAFLOW.phase', 'InteractingInterface.to_omkm_yaml', 'plain YAML data [%s]' % lab,
                             owner_y.module, fn_y)
        lit = ''.join(s_.text if s_.kind == 'lit' else '\x01' for s_ in I.seg(out).segs)

        def slot(name):
            i_ = lit.find(name + '=')
            if i_ < 0:
                return None
            rest = lit[i_ + len(name) + 1:]
            j_ = rest.find(']')
            return rest[:j_ + 1] if j_ >= 0 else rest
        if with_members == 'no BEP':
            s_r, s_i = slot('reactions'), slot('interactions')
            ok = s_r is not None and s_i is not None and slot('beps') is None and \
                all(x in s_r for x in ('r_0002', 'r_0008')) and 'i_000' not in s_r and \
                all(x in s_i for x in ('i_0001', 'i_0002', 'i_0004')) and 'r_000' not in s_i
            why = 'reactions=%s interactions=%s beps=%s' % (s_r, s_i, slot('beps'))
        elif with_members:
            s_r, s_i, s_b = slot('reactions'), slot('interactions'), slot('beps')
            ok = s_r is not None and s_i is not None and s_b is not None and \
                all(x in s_r for x in ('r_0001', 'r_0003', 'r_0007', 'r_0008')) and 'i_000' not in s_r and \
                all(x in s_i for x in ('i_0001', 'i_0002', 'i_0004')) and 'r_000' not in s_i and \
                s_b.count('bep_A') == 1 and s_b.count('bep_B') == 1
            why = 'reactions=%s interactions=%s beps=%s' % (s_r, s_i, s_b)
        else:
            ok = slot('beps') is None and (slot('reactions') in (None, '[]')) and (slot('interactions') in (None, '[]'))
            why = 'reactions=%s interactions=%s beps=%s' % (slot('reactions'), slot('interactions'), slot('beps'))
        run.check(ok, 'DATAFLOW.phase', 'InteractingInterface.to_cti', 'members [%s]' % lab,
                  '[%s] the interface entry must name every reaction id under reactions, every interaction id under '
                  'interactions and every BEP relation once under beps (nothing when there are none): %s' % (lab, why),
                  owner_c.module, fn_c, sample='InteractingInterface.to_cti [%s]: %s' % (lab, why))


def equation_terms(sg, names):
    """[(species name, coefficient written in front of it)] of an equation text: the coefficient is the number that ends
    the text before the name (Fraction), C(1) when there is none, the printed value when it is a formatted symbol,
    None when what stands there is not a number"""
    import re
    out = []
    for k_, s_ in enumerate(sg.segs):
        if not (s_.kind == 'field' and s_.value in names):
            continue
        prev = sg.segs[k_ - 1] if k_ > 0 else None
        if prev is not None and prev.kind == 'field' and prev.cls == 'num':
            out.append((s_.value, prev.value))
            continue
        lit = prev.text if prev is not None and prev.kind == 'lit' else ''
        if lit.strip() == '' and k_ > 1 and sg.segs[k_ - 2].kind == 'field' and sg.segs[k_ - 2].cls == 'num':
            out.append((s_.value, sg.segs[k_ - 2].value))
            continue
        m_ = re.search(r'(?:^|[\s"\'(>+=])((?:\d+\.?\d*|\.\d+)(?:[eE][-+]?\d+)?)\s*$', lit)
        if m_ is None:
            out.append((s_.value, C(1)))
        else:
            try:
                out.append((s_.value, C(Fr(m_.group(1)))))
            except ValueError:
                out.append((s_.value, None))
    return out


def reaction_emitters(run, repo):
    qual = 'pmutt.omkm.reaction.SurfaceReaction'
    ci = repo.cls(qual)
    def glued(sg, names):
        """species names that follow a coefficient without a separating blank ('0.50O2(S)' names no species)"""
        out = []
        for k_, s_ in enumerate(sg.segs):
            if s_.kind == 'field' and s_.value in names and k_ > 0:
                prev = sg.segs[k_ - 1]
                tail = prev.text[-1:] if prev.kind == 'lit' else ('0' if prev.cls == 'num' else '')
                if tail and tail in '0123456789.':
                    out.append(str(s_.value).strip(Z))
        return out

    bci = repo.cls('pmutt.omkm.reaction.BEP')
    # (adsorption, activation energy given by the user, product coefficient, Motz-Wise, transition state, method for
    # the barrier of an adsorption step, unit system, reactant side)
    U_KJ = {'act_energy': 'kJ/mol', 'quantity': 'mol', 'length': 'm'}
    U_MOLEC = {'act_energy': 'J/mol', 'quantity': 'molec', 'length': 'm'}
    U_CM = {'act_energy': 'kcal/mol', 'quantity': 'molecule', 'length': 'cm'}
    # the reactant side: two species with coefficient 1 (the first a gas species for an adsorption step); one surface
    # species with coefficient 2 (associative desorption 2 H(S) <=> H2 + 2 PT(S)); two surface species with
    # coefficients 2 and 1; a gas species with coefficient 1/2 (dissociative adsorption 0.5 O2 + PT(S) <=> O(S))
    ONE_ONE, ONE_X2, TWO_ONE, HALF_GAS = '1 + 1', '2', '2 + 1', '1/2 + 1'
    variants = ((False, False, C(2), False, None, None, U_KJ, ONE_ONE), (True, False, C(2), False, None, None, U_KJ, ONE_ONE),
                (False, True, C(2), False, None, None, U_KJ, ONE_ONE),
                (False, False, C(Fr(3, 2)), False, None, None, U_KJ, ONE_ONE),
                (True, False, C(2), True, None, None, U_KJ, ONE_ONE),
                (False, False, C(2), False, None, None, U_MOLEC, ONE_ONE),
                (False, False, C(2), False, None, None, U_CM, ONE_ONE),
                (False, False, C(2), False, 'species', None, U_MOLEC, ONE_ONE),
                (False, False, C(2), False, 'bep', None, U_KJ, ONE_ONE),
                (True, False, C(2), False, 'species', None, U_CM, ONE_ONE),
                (True, False, C(2), False, 'bep', 'get_G_act', U_KJ, ONE_ONE),
                (True, False, C(2), False, None, 'get_G_act', U_MOLEC, ONE_ONE),
                (False, False, C(2), False, None, None, U_CM, ONE_X2),
                (False, False, C(2), False, None, None, U_KJ, ONE_X2),
                (False, False, C(Fr(3, 2)), False, None, None, U_MOLEC, TWO_ONE),
                (False, False, C(1), False, 'species', None, U_CM, TWO_ONE),
                (True, False, C(1), False, None, None, U_KJ, HALF_GAS),
                # a pre-exponential factor given by the user (documented: "If not specified, uses reaction to determine
                # value"): it is the value, in every unit system, whatever the number of sites and whether or not the
                # step has a transition state
                (False, False, C(2), False, None, None, U_KJ, ONE_ONE, True),
                (False, False, C(Fr(3, 2)), False, None, None, U_MOLEC, TWO_ONE, True),
                (False, True, C(2), False, 'species', None, U_CM, ONE_ONE, True),
                (True, False, C(2), False, None, None, U_MOLEC, ONE_ONE, True))
    for variant in variants:
        adsorption, user_ea, pcoef, motz, ts_kind, ads_method, usys, rside = variant[:8]
        user_A = len(variant) > 8 and variant[8]
        I = Interp(repo)
        D = I.D
        fr = Frame(I, repo.module('pmutt'), {}, None, None)
        surf = built(I, repo.cls('pmutt.omkm.phase.InteractingInterface'), 'surf', name='surf',
                     site_density=D.sym('sden'))
        g = opaque_species(I, 'g1', 'gas')
        a = opaque_species(I, 'a1', surf)
        b = opaque_species(I, 'a2', surf)
        a3 = opaque_species(I, 'a3', surf)
        for o_, w_ in ((g, 2), (a, 3), (b, 4), (a3, 5)):
            o_.attrs['name'] = text(I, o_.name, w_)
        rid = text(I, 'rid', 6)
        # a surface step has two surface reactants: its pre-exponential factor then carries a power of the site
        # density and depends on the quantity/length units requested
        r0 = g if adsorption else a3
        if rside == ONE_X2:
            rs, rnu = [a], [C(2)]
        elif rside == TWO_ONE:
            rs, rnu = [r0, a], [C(2), C(1)]
        elif rside == HALF_GAS:
            rs, rnu = [r0, a], [C(Fr(1, 2)), C(1)]
        else:
            rs, rnu = [r0, a], [C(1), C(1)]
        tskw = {}
        tsp = None
        if ts_kind == 'species':
            # an explicit transition state species
            tsp = opaque_species(I, 'ts1', surf)
            tsp.attrs['name'] = text(I, 'ts1', 6)
        elif ts_kind == 'bep':
            # a Bronsted-Evans-Polanyi relation in the place of the transition state
            tsp = I.construct(bci, [], {'name': text(I, 'bepn', 4), 'slope': D.sym('bslope'),
                                        'intercept': D.sym('bicpt'), 'direction': 'cleavage',
                                        'descriptor': 'delta_H'}, name='bep')
            if not isinstance(tsp, Obj):
                raise Unsupported('omkm.BEP(...) gives %s for the model relation' % show(tsp, 80))
        if tsp is not None:
            tskw = {'ts': [tsp], 'tstoich': [C(1)]}
        rxn = make_reaction(I, repo, ci, rs, rnu, [b], [pcoef], id=rid, is_adsorption=adsorption,
                            A=D.sym('A_user') if user_A else None, beta=D.sym('beta'),
                            Ea=D.sym('Ea_user') if user_ea else None,
                            direction='cleavage' if ts_kind == 'bep' else None,
                            sticking_coeff=D.sym('stick'), use_motz_wise=motz, **tskw)
        label = 'adsorption=%s user Ea=%s' % (adsorption, user_ea) + (' user A' if user_A else '') \
            + ('' if rside == ONE_ONE else ' reactant coefficients ' + rside) \
            + ('' if pcoef.eq(C(2)) else ' product coefficient %s' % pcoef.const_value()) \
            + (' Motz-Wise' if motz else '') + ('' if ts_kind is None else ' transition state=' + ts_kind) \
            + ('' if ads_method is None else ' ads_act_method=' + ads_method) \
            + ('' if usys is U_KJ else ' units=%s,%s,%s' % (usys['quantity'], usys['length'], usys['act_energy']))
        spnames = [x_.attrs['name'] for x_ in rs] + [b.attrs['name']]
        want_terms = list(zip(spnames, rnu + [pcoef]))
        # the number of sites a step needs on its reactant side: surface reactants counted with their coefficients
        nu_surf = C(0)
        for x_, nu_ in zip(rs, rnu):
            if x_ is not g:
                nu_surf = nu_surf + nu_
        n_sites = int(nu_surf.const_value())

        def expectation(usys_, T, P):
            """what the model says for one unit system and one (T, P), written here from the species (nothing of the
            reaction class is consulted): the barrier is max(0, state change to the transition state, state change to
            the products) of the Gibbs energy (enthalpy for an adsorption step unless the Gibbs energy is asked for),
            times R T in the energy unit"""
            e_unit = usys_['act_energy']
            kwq = {'T': T, 'P': P}
            e_fac = I.unit(e_unit) / I.unit('kcal/mol')
            Rk = D.sym('kb') * D.sym('Na') * I.unit(e_unit)
            clamp_args = None
            if user_ea:
                wantE = D.sym('Ea_user') * e_fac
            else:
                q_ = 'get_HoRT' if adsorption and ads_method != 'get_G_act' else 'get_GoRT'
                ini = state_sum(I, rs, rnu, q_, kwq)
                clamp_args = [C(0), state_sum(I, [b], [pcoef], q_, kwq) - ini]
                if ts_kind == 'species':
                    clamp_args.append(state_sum(I, [tsp], [C(1)], q_, kwq) - ini)
                elif ts_kind == 'bep':
                    # enthalpy of the relation's state: reactants + (slope * reaction enthalpy + intercept[kcal/mol]);
                    # its entropy is the reactants' entropy
                    h_ini = state_sum(I, rs, rnu, 'get_HoRT', kwq)
                    dh = state_sum(I, [b], [pcoef], 'get_HoRT', kwq) - h_ini
                    barrier = D.sym('bslope') * dh + D.sym('bicpt') / (D.sym('kb') * D.sym('Na') *
                                                                        I.unit('kcal/mol') * T)
                    if q_ == 'get_HoRT':
                        clamp_args.append(barrier)
                    else:
                        clamp_args.append(h_ini + barrier - state_sum(I, rs, rnu, 'get_SoR', kwq) - ini)
                wantE = None
            # the pre-exponential factor of a step without entropy term: kB/h over (site densities of the surface
            # reactants, each as often as its coefficient says, summed, mol/cm2 -> quantity/length^2) to the power
            # (number of sites taken - 1)
            if adsorption:
                wantA = D.sym('stick')
            elif user_A:
                wantA = D.sym('A_user')
            else:
                conv = I.unit(usys_['quantity']) / I.unit('mol') / (I.unit(usys_['length'] + '2') / I.unit('cm2'))
                wantA = D.sym('kb') / D.sym('h')
                for _k in range(n_sites - 1):
                    wantA = wantA / (D.sym('sden') * nu_surf * conv)

            def barrier_ok(val):
                if not isinstance(val, Rat):
                    return False
                if clamp_args is None:
                    return val.eq(wantE)
                # the largest of the candidates in the spelling-independent form of the interpreter (positive factors -
                # R, T, unit factors - in front of the maximum, nested maxima flattened)
                try:
                    if val.eq(canonical_extremum(I, 'max', [x_ * Rk * T for x_ in clamp_args])):
                        return True
                except Unsupported:
                    pass
                at = [x_ for x_ in val.atoms() if x_ in I.extrema and x_.startswith('MAX{')]
                if len(at) != 1:
                    return False
                # the largest of the candidates, taken before or after the multiplication with R T; a positive
                # constant common to the candidates may stand in front of the maximum (k*max(0, x) == max(0, k*x))
                atom = Rat.atom(at[0])
                for scale, cands in ((Rk * T, clamp_args), (C(1), [x_ * Rk * T for x_ in clamp_args])):
                    ratio = val / (atom * scale)
                    if ratio.is_const() and ratio.const_value() > 0:
                        args_ = [x_ * ratio for x_ in I.extrema[at[0]]]
                        return all(any(same(x_, w_) for x_ in args_) for w_ in cands) and \
                            all(any(same(x_, w_) for w_ in cands) for x_ in args_)
                return False
            e_text = show(wantE, 100) if clamp_args is None else 'max(%s) * R T [%s]' % (
                ', '.join(show(x_, 70) for x_ in clamp_args), e_unit)
            return wantA, barrier_ok, e_text, e_unit

        # what a user reads on the reaction: an emitter reports the object, it does not change it (the next file may
        # be written in another unit system, at another temperature)
        PUBLIC = ('A', 'Ea', 'beta', 'sticking_coeff', 'id', 'is_adsorption', 'use_motz_wise', 'direction')

        def public_state():
            out = {}
            for k_ in PUBLIC:
                try:
                    out[k_] = get_public(I, rxn, k_)
                except _RaisedExc as e_:        # an attribute the class does not have (the same before and after)
                    out[k_] = 'raises ' + e_.raised.exc
            return out

        def unchanged(before, after):
            return [k_ for k_ in PUBLIC if not (before[k_] is after[k_] or same(before[k_], after[k_]))]
        state0 = public_state()
        # the same reaction object is written twice: for the unit system of the variant at (T, P), then - as the next
        # file of the same session - for another unit system at (T2, P2)
        second = U_CM if usys is not U_CM else U_KJ
        for nth, usys_, T, P in ((1, usys, D.sym('T'), D.sym('P')), (2, second, D.sym('T2'), D.sym('P2'))):
            u = fr.apply(repo.cls('pmutt.omkm.units.Units'), [], dict(usys_), None)
            wantA, barrier_ok, e_text, e_unit = expectation(usys_, T, P)
            lab = label if nth == 1 else label + ' [written again for units=%s,%s,%s at T2, P2]' % (
                usys_['quantity'], usys_['length'], e_unit)
            call_kw = {'T': T, 'P': P, 'units': u}
            if ads_method is not None:
                call_kw['ads_act_method'] = ads_method
            owner, fn = repo.find_method(ci, 'to_cti')
            run.fn(owner.qual + '.to_cti', owner.qual + '.to_omkm_yaml')
            out = I.call_method(rxn, 'to_cti', [], dict(call_kw))
            if isinstance(out, Raised):
                run.fail('DATAFLOW.reaction', 'SurfaceReaction.to_cti', lab, 'raises %s' % out.exc, owner.module, fn)
            else:
                sg = I.seg(out)
                check_cti_directives(run, repo, I, out, 'DATAFLOW.reaction', 'SurfaceReaction.to_cti',
                                     lab + ' valid directives', owner.module, fn)
                nums = num_fields(I, out)
                texts = [f.value for f in sg.fields() if f.cls != 'num']
                ok = len(nums) == 3 and nums[0].eq(wantA) and nums[1].eq(D.sym('beta')) and barrier_ok(nums[2])
                run.check(ok, 'DATAFLOW.reaction', 'SurfaceReaction.to_cti', lab + ' rate parameters',
                          'rate parameters written: %s; the model gives A=%s beta=beta Ea=%s in the requested units'
                          % (show(ListV(nums), 300), show(wantA, 80), e_text), owner.module, fn,
                          sample='SurfaceReaction.to_cti [%s]: [A, beta, Ea] from the model' % lab)
                lossy = lossy_fields(sg)
                run.check(not lossy, 'DATAFLOW.reaction', 'SurfaceReaction.to_cti', lab + ' digits kept',
                          'the directive prints %s: a rate parameter has any magnitude, its text must keep at least %d '
                          'significant digits whatever the magnitude'
                          % (['%s as {:%s}' % (show(v_, 30), s_) for v_, s_ in lossy[:3]], NEED_DIGITS), owner.module, fn)
                run.check(texts == spnames + [rid], 'DATAFLOW.reaction',
                          'SurfaceReaction.to_cti', lab + ' equation and id',
                          'equation/id fields are %s' % [str(t).strip(Z) for t in texts], owner.module, fn)
                run.check(not glued(sg, spnames), 'DATAFLOW.reaction', 'SurfaceReaction.to_cti', lab + ' equation terms',
                          'in the equation %s the species %s follow their coefficient without a blank: the term names no '
                          'species of the mechanism' % (show(sg, 120), glued(sg, spnames)), owner.module, fn)
                terms = equation_terms(sg, spnames)
                run.check(len(terms) == len(want_terms) and all(
                    n1 == n2 and isinstance(c1, Rat) and c1.eq(c2) for (n1, c1), (n2, c2) in zip(terms, want_terms)),
                    'DATAFLOW.reaction', 'SurfaceReaction.to_cti', lab + ' equation coefficients',
                    'the equation %s carries the coefficients %s; the reaction has %s (a coefficient of 1 is not '
                    'written)' % (show(sg, 120).replace(Z, ''), [show(c_, 12) for _n, c_ in terms],
                                  [show(c_, 12) for _n, c_ in want_terms]), owner.module, fn)
            changed = unchanged(state0, public_state())
            run.check(not changed, 'EFFECT.emitter', 'SurfaceReaction.to_cti', lab + ' reaction left as it was',
                      'after to_cti the reaction reports %s, before %s: writing a reaction must not change what it says '
                      '(the next file may ask for other units)'
                      % ({k_: show(public_state()[k_], 60) for k_ in changed},
                         {k_: show(state0[k_], 60) for k_ in changed}), owner.module, fn)
            owner, fn = repo.find_method(ci, 'to_omkm_yaml')
            g.attrs['phase'] = 'gas'
            d = I.call_method(rxn, 'to_omkm_yaml', [], dict(call_kw))
            if not isinstance(d, DictV):
                run.fail('DATAFLOW.reaction', 'SurfaceReaction.to_omkm_yaml', lab, 'gives %s' % show(d), owner.module, fn)
                continue
            check_yaml_plain(run, d, 'DATAFLOW.reaction', 'SurfaceReaction.to_omkm_yaml', lab + ' plain YAML data',
                             owner.module, fn)
            rc = d.d.get('sticking-coefficient' if adsorption else 'rate-constant')
            ok = isinstance(rc, DictV)
            if ok:
                gotA, gotb, gotE = rc.d.get('A'), rc.d.get('b'), rc.d.get('Ea')
                ea_n = num_fields(I, gotE) if isinstance(gotE, (str, SegStr)) else ([gotE] if isinstance(gotE, Rat) else [])
                ea_l = ''.join(s.text for s in I.seg(gotE).segs if s.kind == 'lit') if isinstance(gotE, (str, SegStr)) \
                    else ''
                ok = isinstance(gotA, Rat) and gotA.eq(wantA) and isinstance(gotb, Rat) and gotb.eq(D.sym('beta')) and \
                    len(ea_n) == 1 and barrier_ok(ea_n[0]) and ea_l.strip().strip('"').strip() == e_unit
            run.check(ok, 'DATAFLOW.reaction', 'SurfaceReaction.to_omkm_yaml', lab + ' rate parameters',
                      'rate block is %s; the model gives A=%s, b=beta, Ea=%s %s' % (show(rc.d if isinstance(rc, DictV)
                                                                                      else rc, 300),
                                                                                 show(wantA, 80), e_text, e_unit),
                      owner.module, fn)
            gotE_ = rc.d.get('Ea') if isinstance(rc, DictV) else None
            lossy = lossy_fields(I.seg(gotE_)) if isinstance(gotE_, (str, SegStr)) else []
            run.check(not lossy, 'DATAFLOW.reaction', 'SurfaceReaction.to_omkm_yaml', lab + ' digits kept',
                      'the rate block prints %s: a rate parameter has any magnitude, its text must keep at least %d '
                      'significant digits whatever the magnitude'
                      % (['%s as {:%s}' % (show(v_, 30), s_) for v_, s_ in lossy[:3]], NEED_DIGITS), owner.module, fn)
            run.check(I.plain(d.d.get('id')) == rid, 'DATAFLOW.reaction', 'SurfaceReaction.to_omkm_yaml', lab + ' id',
                      'id is %s' % show(d.d.get('id')), owner.module, fn)
            eq_ = d.d.get('equation')
            eqs = I.seg(eq_) if isinstance(eq_, (str, SegStr)) else None
            run.check(eqs is not None and [f.value for f in eqs.fields() if f.cls != 'num'] == spnames and
                      not glued(eqs, spnames), 'DATAFLOW.reaction', 'SurfaceReaction.to_omkm_yaml', lab + ' equation',
                      'the equation entry is %s: every species once, each separated from its coefficient'
                      % show(eq_, 120), owner.module, fn)
            terms = equation_terms(eqs, spnames) if eqs is not None else []
            run.check(len(terms) == len(want_terms) and all(
                n1 == n2 and isinstance(c1, Rat) and c1.eq(c2) for (n1, c1), (n2, c2) in zip(terms, want_terms)),
                'DATAFLOW.reaction', 'SurfaceReaction.to_omkm_yaml', lab + ' equation coefficients',
                'the equation entry %s carries the coefficients %s; the reaction has %s (a coefficient of 1 is not '
                'written)' % (show(eq_, 120).replace(Z, ''), [show(c_, 12) for _n, c_ in terms],
                              [show(c_, 12) for _n, c_ in want_terms]), owner.module, fn)
            if adsorption:
                run.check(d.d.get('Motz-Wise') is motz, 'DATAFLOW.reaction', 'SurfaceReaction.to_omkm_yaml',
                          lab + ' Motz-Wise flag', 'the Motz-Wise entry is %s for a reaction built with use_motz_wise=%s'
                          % (show(d.d.get('Motz-Wise')), motz), owner.module, fn)
                run.check(I.plain(d.d.get('sticking-species')) == g.attrs['name'], 'DATAFLOW.reaction',
                          'SurfaceReaction.to_omkm_yaml', lab + ' sticking species',
                          'sticking species is %s, expected the gas reactant' % show(d.d.get('sticking-species')),
                          owner.module, fn)
            changed = unchanged(state0, public_state())
            run.check(not changed, 'EFFECT.emitter', 'SurfaceReaction.to_omkm_yaml', lab + ' reaction left as it was',
                      'after to_omkm_yaml the reaction reports %s, before %s: writing a reaction must not change what it '
                      'says (the next file may ask for other units)'
                      % ({k_: show(public_state()[k_], 60) for k_ in changed},
                         {k_: show(state0[k_], 60) for k_ in changed}), owner.module, fn)


def other_emitters(run, repo):
    # lateral interaction
    I = Interp(repo)
    D = I.D
    fr = Frame(I, repo.module('pmutt'), {}, None, None)
    u = fr.apply(repo.cls('pmutt.omkm.units.Units'), [], {'energy': 'kJ', 'quantity': 'mol', 'act_energy': 'kJ/mol'},
                 None)
    ci = repo.cls('pmutt.mixture.cov.PiecewiseCovEffect')
    iv = ListV([C(0), D.sym('b1')])
    sl = ListV([D.sym('k0'), D.sym('k1')])
    ni, nj, nid = text(I, 'spi', 3), text(I, 'spj', 4), text(I, 'intid', 6)
    cov = built(I, ci, 'cov', name_i=ni, name_j=nj, intervals=iv, slopes=sl, name=nid)
    conv = D.sym('U<kJ>') / D.sym('U<kcal>')
    owner, fn = repo.find_method(ci, 'to_omkm_yaml')
    run.fn(ci.qual + '.to_omkm_yaml', ci.qual + '.to_cti')
    d = I.call_method(cov, 'to_omkm_yaml', [], {'units': u})
    ok = isinstance(d, DictV) and [I.plain(x) for x in flat(d.d.get('species'))] == [ni, nj] and \
        (d.d.get('coverage-threshold') is iv or (isinstance(d.d.get('coverage-threshold'), ListV) and
                                                 eq_list(d.d['coverage-threshold'].items, iv.items))) and \
        I.plain(d.d.get('id')) == nid
    if isinstance(d, DictV):
        check_yaml_plain(run, d, 'DATAFLOW.interaction', 'PiecewiseCovEffect.to_omkm_yaml', 'plain YAML data',
                         owner.module, fn)
    st = d.d.get('strength') if isinstance(d, DictV) else None
    vals = [num_fields(I, x)[0] for x in flat(st)] if isinstance(st, ListV) and all(
        isinstance(x, (str, SegStr)) and num_fields(I, x) for x in flat(st)) else None
    run.check(ok, 'DATAFLOW.interaction', 'PiecewiseCovEffect.to_omkm_yaml', 'members, thresholds, id',
              'interaction entry is %s' % show(d.d if isinstance(d, DictV) else d, 200), owner.module, fn)
    labels = [''.join(s_.text for s_ in I.seg(x).segs if s_.kind == 'lit').strip().strip('"\'').strip()
              for x in flat(st)] if vals is not None else None
    run.check(vals is not None and eq_list(vals, [s_ * conv for s_ in sl.items]) and labels == ['kJ/mol'] * 2,
              'DIM.strength', 'PiecewiseCovEffect.to_omkm_yaml', 'strengths',
              'strengths written as %s for slopes %s [kcal/mol]: expected the slopes converted kcal/mol -> kJ/mol, each '
              'labelled kJ/mol' % (show(st, 160), show(sl, 80)), owner.module, fn,
              sample='PiecewiseCovEffect.to_omkm_yaml: strengths converted to the energy unit')
    lossy = [x_ for e_ in (flat(st) if isinstance(st, ListV) else []) if isinstance(e_, (str, SegStr))
             for x_ in lossy_fields(I.seg(e_))]
    run.check(not lossy, 'DIM.strength', 'PiecewiseCovEffect.to_omkm_yaml', 'digits kept',
              'the YAML entry prints %s: strengths must keep at least %d significant digits whatever their magnitude'
              % (['%s as {:%s}' % (show(v_, 30), s_) for v_, s_ in lossy[:3]], NEED_DIGITS), owner.module, fn)
    # the same in two more unit systems, the YAML entry and the CTI directive side by side
    for e_u, q_u in (('eV', 'molecule'), ('J', 'mol'), ('cal', 'molec')):       # the last is the default system
        Iu = Interp(repo)
        Du = Iu.D
        uu = Frame(Iu, repo.module('pmutt'), {}, None, None).apply(
            repo.cls('pmutt.omkm.units.Units'), [], {'energy': e_u, 'quantity': q_u}, None)
        slu = ListV([Du.sym('k0'), Du.sym('k1'), Du.sym('k2')])
        covu = built(Iu, ci, 'cov', name_i='A(S)', name_j='B(S)', name='i_0003', slopes=slu,
                     intervals=ListV([C(0), Du.sym('b1'), Du.sym('b2')]))
        final = '%s/%s' % (e_u, q_u)
        # the conversion kcal/mol -> <energy>/<quantity>, through the table's compound entry or through its parts
        # (energy, then quantity): C12 verifies that the two agree within the roundings of the table's literals
        wants = [[s_ * (Iu.unit(final) / Iu.unit('kcal/mol')) for s_ in slu.items],
                 [s_ * (Iu.unit(e_u) / Iu.unit('kcal')) / (Iu.unit(q_u) / Iu.unit('mol')) for s_ in slu.items]]
        du = Iu.call_method(covu, 'to_omkm_yaml', [], {'units': uu})
        stu = du.d.get('strength') if isinstance(du, DictV) else None
        ents = flat(stu) if isinstance(stu, ListV) else []
        oku = len(ents) == 3 and all(isinstance(x, (str, SegStr)) and len(num_fields(Iu, x)) == 1 for x in ents)
        oku = oku and any(eq_list([num_fields(Iu, x)[0] for x in ents], w_) for w_ in wants) and all(
            ''.join(s_.text for s_ in Iu.seg(x).segs if s_.kind == 'lit').strip().strip('"\'').strip() == final
            for x in ents)
        run.check(oku, 'DIM.strength', 'PiecewiseCovEffect.to_omkm_yaml', 'strengths in ' + final,
                  'with Units(energy=%s, quantity=%s) the strengths are written as %s for slopes %s [kcal/mol]: '
                  'expected the slopes converted kcal/mol -> %s, each labelled %s'
                  % (e_u, q_u, show(stu if stu is not None else du, 200), show(slu, 80), final, final),
                  owner.module, fn)
        o_c, f_c = repo.find_method(ci, 'to_cti')
        outu = Iu.call_method(covu, 'to_cti', [], {'units': uu})
        numsu = num_fields(Iu, outu) if isinstance(outu, (str, SegStr)) else []
        check_cti_directives(run, repo, Iu, outu, 'DATAFLOW.interaction', 'PiecewiseCovEffect.to_cti',
                             'valid directives in ' + final, o_c.module, f_c)
        if isinstance(du, DictV):
            check_yaml_plain(run, du, 'DATAFLOW.interaction', 'PiecewiseCovEffect.to_omkm_yaml',
                             'plain YAML data in ' + final, owner.module, fn)
        run.check(any(eq_list(numsu, [Du.sym('b1'), Du.sym('b2')] + w_) for w_ in wants), 'DIM.strength',
                  'PiecewiseCovEffect.to_cti',
                  'thresholds and strengths in ' + final,
                  'with Units(energy=%s, quantity=%s) the directive carries %s, expected the thresholds then the '
                  'slopes converted kcal/mol -> %s' % (e_u, q_u, show(ListV(numsu) if numsu else outu, 200), final),
                  o_c.module, f_c)
    owner, fn = repo.find_method(ci, 'to_cti')
    out = I.call_method(cov, 'to_cti', [], {'units': u})
    if isinstance(out, Raised):
        run.fail('DATAFLOW.interaction', 'PiecewiseCovEffect.to_cti', 'raises', 'to_cti raises %s' % out.exc,
                 owner.module, fn)
    else:
        sg = I.seg(out)
        check_cti_directives(run, repo, I, out, 'DATAFLOW.interaction', 'PiecewiseCovEffect.to_cti', 'valid directives',
                             owner.module, fn)
        texts = [f.value for f in sg.fields() if f.cls != 'num']
        nums = num_fields(I, out)
        run.check(texts == [ni, nj, nid], 'DATAFLOW.interaction', 'PiecewiseCovEffect.to_cti', 'members and id',
                  'text fields %s' % [str(t).strip(Z) for t in texts], owner.module, fn)
        want = [iv.items[1]] + [s_ * conv for s_ in sl.items]
        lossy = lossy_fields(sg)
        run.check(not lossy, 'DIM.strength', 'PiecewiseCovEffect.to_cti', 'digits kept',
                  'the directive prints %s: thresholds and strengths must keep at least %d significant digits whatever '
                  'their magnitude' % (['%s as {:%s}' % (show(v_, 30), s_) for v_, s_ in lossy[:3]], NEED_DIGITS),
                  owner.module, fn)
        run.check(eq_list(nums, want), 'DIM.strength', 'PiecewiseCovEffect.to_cti', 'thresholds and strengths',
                  'numbers written %s, expected thresholds then strengths converted kcal/mol -> kJ/mol: %s'
                  % (show(ListV(nums), 160), show(ListV(want), 160)), owner.module, fn,
                  sample='PiecewiseCovEffect.to_cti: strengths converted to the energy unit')
    # BEP
    bci = repo.cls('pmutt.omkm.reaction.BEP')
    bid = text(I, 'bepid', 5)
    rxs = ListV([SegStr.field(text(I, 'rpre', 1, 'alpha'), 1, 'alpha') + '_0001',
                 SegStr.field(Z + 'rpre', 1, 'alpha') + '_0002'])
    bep = built(I, bci, 'bep', name=bid, slope=D.sym('bslope'), intercept=D.sym('bicpt'), direction='cleavage',
                descriptor='delta_H')
    # (its members register themselves: what SurfaceReaction.__init__ does for a reaction whose transition state is
    # the relation)
    get_public(I, bep, 'cleavage_reactions').items.extend(rxs.items)
    owner, fn = repo.find_method(bci, 'to_omkm_yaml')
    run.fn(bci.qual + '.to_omkm_yaml', bci.qual + '.to_cti')
    d = I.call_method(bep, 'to_omkm_yaml', [], {'units': u})
    if isinstance(d, DictV):
        check_yaml_plain(run, d, 'DATAFLOW.bep', 'omkm.BEP.to_omkm_yaml', 'plain YAML data', owner.module, fn)
    icpt = d.d.get('intercept') if isinstance(d, DictV) else None
    iv_ = num_fields(I, icpt) if isinstance(icpt, (str, SegStr)) else []
    ok = isinstance(d, DictV) and I.plain(d.d.get('id')) == bid and isinstance(d.d.get('slope'), Rat) and \
        d.d['slope'].eq(D.sym('bslope')) and len(iv_) == 1 and iv_[0].eq(D.sym('bicpt') * conv) and \
        d.d.get('direction') == 'cleavage' and 'cleavage-reactions' in d.d and 'synthesis-reactions' not in d.d
    lossy = lossy_fields(I.seg(icpt)) if isinstance(icpt, (str, SegStr)) else []
    run.check(not lossy, 'DATAFLOW.bep', 'omkm.BEP.to_omkm_yaml', 'digits kept',
              'the YAML entry prints %s: the intercept must keep at least %d significant digits whatever its magnitude'
              % (['%s as {:%s}' % (show(v_, 30), s_) for v_, s_ in lossy[:3]], NEED_DIGITS), owner.module, fn)
    run.check(ok, 'DATAFLOW.bep', 'omkm.BEP.to_omkm_yaml', 'members and parameters',
              'BEP entry is %s; expected id, slope, intercept converted kcal/mol -> kJ/mol, direction and its cleavage '
              'reactions' % show(d.d if isinstance(d, DictV) else d, 240), owner.module, fn,
              sample='omkm.BEP.to_omkm_yaml: id, slope, intercept[kJ/mol], direction, reactions')
    # the CTI form of the relation: id, slope, intercept in the activation-energy unit, direction, and each list of
    # member reactions in its own slot
    I2 = Interp(repo)
    D2 = I2.D
    fr2 = Frame(I2, repo.module('pmutt'), {}, None, None)
    u2 = fr2.apply(repo.cls('pmutt.omkm.units.Units'), [], {'energy': 'kJ', 'quantity': 'mol', 'act_energy': 'kJ/mol'},
                   None)
    bid2 = text(I2, 'bepid', 5)
    mem = {k_: Obj(k_, attrs={'id': k_}) for k_ in ('r_0001', 'r_0002', 'r_0005')}
    bep2 = built(I2, bci, 'bep', name=bid2, slope=D2.sym('bslope'), intercept=D2.sym('bicpt'), direction='cleavage',
                 descriptor='delta_H')
    get_public(I2, bep2, 'synthesis_reactions').items.append(mem['r_0005'])
    get_public(I2, bep2, 'cleavage_reactions').items.extend([mem['r_0001'], mem['r_0002']])
    owner, fn = repo.find_method(bci, 'to_cti')
    out = I2.call_method(bep2, 'to_cti', [], {'units': u2})
    if isinstance(out, Raised) or not isinstance(out, (str, SegStr)):
        run.fail('DATAFLOW.bep', 'omkm.BEP.to_cti', 'members and parameters', 'to_cti gives %s' % show(out, 80),
                 owner.module, fn)
    else:
        sg = I2.seg(out)
        check_cti_directives(run, repo, I2, out, 'DATAFLOW.bep', 'omkm.BEP.to_cti', 'valid directives', owner.module, fn)
        lit = ''.join(s_.text if s_.kind == 'lit' else '\x01' for s_ in sg.segs)
        nums = num_fields(I2, out)
        texts = [f.value for f in sg.fields() if f.cls != 'num']
        conv2 = D2.sym('U<kJ>') / D2.sym('U<kcal>')
        i_c, i_s = lit.find('cleavage_reactions='), lit.find('synthesis_reactions=')
        if 0 <= i_c < i_s:
            clv, syn = lit[i_c:i_s], lit[i_s:]
        elif 0 <= i_s < i_c:
            syn, clv = lit[i_s:i_c], lit[i_c:]
        else:
            clv = syn = ''
        ok = texts[:1] == [bid2] and eq_list(nums, [D2.sym('bslope'), D2.sym('bicpt') * conv2]) and \
            'direction="cleavage"' in lit.replace(' ', '') and \
            'r_0001' in clv and 'r_0002' in clv and 'r_0005' not in clv and 'r_0005' in syn and 'r_0001' not in syn \
            and 'r_0002' not in syn
        lossy = lossy_fields(sg)
        run.check(not lossy, 'DATAFLOW.bep', 'omkm.BEP.to_cti', 'digits kept',
                  'the directive prints %s: slope and intercept must keep at least %d significant digits whatever their '
                  'magnitude' % (['%s as {:%s}' % (show(v_, 30), s_) for v_, s_ in lossy[:3]], NEED_DIGITS),
                  owner.module, fn)
        run.check(ok, 'DATAFLOW.bep', 'omkm.BEP.to_cti', 'members and parameters',
                  'BEP directive is %s; expected id, slope, intercept converted kcal/mol -> kJ/mol, direction, the '
                  'cleavage reactions r_0001, r_0002 and the synthesis reaction r_0005 each in its own list'
                  % show(sg, 300), owner.module, fn,
                  sample='omkm.BEP.to_cti: id, slope, intercept[kJ/mol], direction, cleavage/synthesis members')
    # the YAML form of the same relation: each list of member reactions under its own key, naming exactly its members
    owner, fn = repo.find_method(bci, 'to_omkm_yaml')
    d2 = I2.call_method(bep2, 'to_omkm_yaml', [], {'units': u2})
    if isinstance(d2, DictV):
        check_yaml_plain(run, d2, 'DATAFLOW.bep', 'omkm.BEP.to_omkm_yaml', 'plain YAML data [both directions]',
                         owner.module, fn)
    got2 = {k_: named_ids(I2, d2.d.get(k_)) for k_ in ('cleavage-reactions', 'synthesis-reactions')} \
        if isinstance(d2, DictV) else None
    want2 = {'cleavage-reactions': {'r_0001', 'r_0002'}, 'synthesis-reactions': {'r_0005'}}
    run.check(got2 == want2, 'DATAFLOW.bep', 'omkm.BEP.to_omkm_yaml', 'members of both directions',
              'a BEP relation with the cleavage reactions r_0001, r_0002 and the synthesis reaction r_0005 must name '
              'exactly these under cleavage-reactions / synthesis-reactions; the entry names %s'
              % (got2 if got2 is not None else show(d2, 120)), owner.module, fn,
              sample='omkm.BEP.to_omkm_yaml: cleavage-reactions {r_0001, r_0002}, synthesis-reactions {r_0005}')
    # membership is established by the reactions: a SurfaceReaction whose transition state is a BEP relation registers
    # itself with it under its own direction, once, and remembers the relation
    I3 = Interp(repo)
    D3 = I3.D
    rci = repo.cls('pmutt.omkm.reaction.SurfaceReaction')
    bep3 = I3.construct(bci, [], {'name': 'bep1', 'slope': D3.sym('bslope'), 'intercept': D3.sym('bicpt'),
                                  'direction': 'cleavage', 'descriptor': 'delta_H'}, name='bep3')
    other = I3.construct(bci, [], {'name': 'bep2', 'slope': D3.sym('s2'), 'intercept': D3.sym('i2'),
                                   'direction': 'synthesis', 'descriptor': 'delta_H'}, name='bep_other')
    owner, fn = repo.find_method(rci, '__init__')
    if not (isinstance(bep3, Obj) and isinstance(other, Obj)):
        run.fail('DATAFLOW.bep', 'omkm.SurfaceReaction.__init__', 'BEP membership', 'BEP constructor gives %s'
                 % show(bep3, 80), owner.module, fn)
        return
    mk_sp = lambda n_: Obj(n_, attrs={'name': n_, 'elements': DictV({'H': C(1)}), 'phase': 'S'})
    A_, B_, TS_ = mk_sp('A(S)'), mk_sp('B(S)'), mk_sp('TS(S)')
    made = []
    for rid, ts, direction in (('r_0001', bep3, 'cleavage'), ('r_0002', bep3, 'synthesis'), ('r_0003', TS_, 'cleavage'),
                               ('r_0004', None, None), ('r_0005', bep3, 'cleavage'), ('r_0006', other, 'synthesis')):
        kw = {'reactants': ListV([A_]), 'reactants_stoich': ListV([C(1)]), 'products': ListV([B_]),
              'products_stoich': ListV([C(1)]), 'id': rid, 'direction': direction}
        if ts is not None:
            kw.update({'transition_state': ListV([ts]), 'transition_state_stoich': ListV([C(1)])})
        r_ = I3.construct(rci, [], kw, name=rid)
        made.append((rid, ts, direction, r_))
    ok = all(isinstance(r_, Obj) for _a, _b, _c, r_ in made)
    why = ''
    if ok:
        by = {rid: r_ for rid, _b, _c, r_ in made}
        ids = lambda v: [x.name for x in v.items] if isinstance(v, ListV) else v
        got = {'bep1.cleavage': ids(get_public(I3, bep3, 'cleavage_reactions')),
               'bep1.synthesis': ids(get_public(I3, bep3, 'synthesis_reactions')),
               'bep2.cleavage': ids(get_public(I3, other, 'cleavage_reactions')),
               'bep2.synthesis': ids(get_public(I3, other, 'synthesis_reactions'))}
        want = {'bep1.cleavage': ['r_0001', 'r_0005'], 'bep1.synthesis': ['r_0002'], 'bep2.cleavage': [],
                'bep2.synthesis': ['r_0006']}
        ok = got == want
        why = 'member lists are %s, expected %s' % (got, want)
        if ok:
            def linked(r_):
                # a reaction without transition state carries no such attribute at all (callers guard with try)
                got_ = I3.call_function(repo.module('pmutt'), _GETBEP, [r_], {})
                return None if isinstance(got_, Raised) else got_
            links = {rid: linked(r_) for rid, r_ in by.items()}
            wl = {'r_0001': bep3, 'r_0002': bep3, 'r_0003': None, 'r_0004': None, 'r_0005': bep3, 'r_0006': other}
            ok = all(links[k_] is wl[k_] for k_ in wl)
            why = 'the reactions remember %s' % {k_: getattr(v_, 'name', v_) for k_, v_ in links.items()}
    else:
        why = 'constructor results %s' % [show(r_, 40) for _a, _b, _c, r_ in made]
    run.check(ok, 'DATAFLOW.bep', 'omkm.SurfaceReaction.__init__', 'BEP membership',
              'six reactions built with a BEP relation, an ordinary species or nothing as transition state: ' + why,
              owner.module, fn, sample='SurfaceReaction(transition_state=[bep], direction=d) -> bep.<d>_reactions')


def bep_caller_lists(run, repo):
    """history over coexisting BEP relations: the member lists handed to the constructor are lists of the caller, who
    keeps using them (the same two lists for a second relation, one list for both directions, an edit afterwards).
    Reactions built later register themselves with their relation; with no read in between, every relation's YAML entry
    and CTI directive then name exactly the reactions built with it (plus the members it was given), as for a relation
    built with lists of its own, and the caller's lists hold what the caller put into them."""
    bci = repo.cls('pmutt.omkm.reaction.BEP')
    rci = repo.cls('pmutt.omkm.reaction.SurfaceReaction')
    owner, fn = repo.find_method(bci, '__init__')
    run.fn(owner.qual + '.__init__')

    def ids_of(v):
        return [pub_id(x) for x in v.items] if isinstance(v, ListV) else show(v, 60)

    def pub_id(x):
        try:
            return get_public(I, x, 'id') if isinstance(x, Obj) and x.ci is not None else x.attrs.get('id')
        except _RaisedExc:
            return None

    def written(bep, u):
        """({'cleavage': ids, 'synthesis': ids} of the YAML entry, the same of the CTI directive)"""
        d = I.call_method(bep, 'to_omkm_yaml', [], {'units': u})
        y = {k_: named_ids(I, d.d.get(k_ + '-reactions')) for k_ in ('cleavage', 'synthesis')} \
            if isinstance(d, DictV) else show(d, 80)
        out = I.call_method(bep, 'to_cti', [], {'units': u})
        if isinstance(out, Raised) or not isinstance(out, (str, SegStr)):
            return y, show(out, 80)
        lit = ''.join(s_.text if s_.kind == 'lit' else (str(I.plain(s_.value)) if s_.cls != 'num' else '\x01')
                      for s_ in I.seg(out).segs)
        i_c, i_s = lit.find('cleavage_reactions='), lit.find('synthesis_reactions=')
        if 0 <= i_c < i_s:
            clv, syn = lit[i_c:i_s], lit[i_s:]
        elif 0 <= i_s < i_c:
            syn, clv = lit[i_s:i_c], lit[i_c:]
        else:
            return y, 'no member slots in %r' % lit[:120]
        # every id of the fixture is r_dddd; a range "r_m to r_n" names every id between its ends
        def named(part):
            body = part[part.find('=') + 1:]
            ents = _re.findall(r'"([^"]*)"', body)
            return named_ids(I, ListV(list(ents)))
        return y, {'cleavage': named(clv), 'synthesis': named(syn)}

    for variant in ('lists of its own', 'the same two lists for two relations', 'one list for both directions',
                    'a list the caller edits afterwards'):
        I = Interp(repo)
        D = I.D
        fr = Frame(I, repo.module('pmutt'), {}, None, None)
        u = fr.apply(repo.cls('pmutt.omkm.units.Units'), [], {'energy': 'kJ', 'quantity': 'mol',
                                                               'act_energy': 'kJ/mol'}, None)
        mk_sp = lambda n_: Obj(n_, attrs={'name': n_, 'elements': DictV({'H': C(1)}), 'phase': 'S'})
        A_, B_ = mk_sp('A(S)'), mk_sp('B(S)')
        old = Obj('r_0009', attrs={'id': 'r_0009'})          # a member the caller names at construction
        late = Obj('r_0011', attrs={'id': 'r_0011'})         # something the caller puts into HIS list later
        if variant == 'lists of its own':
            given = [(ListV([]), ListV([])), (ListV([]), ListV([]))]
        elif variant == 'the same two lists for two relations':
            syn_, clv_ = ListV([]), ListV([])
            given = [(syn_, clv_), (syn_, clv_)]
        elif variant == 'one list for both directions':
            both = ListV([])
            given = [(both, both), (ListV([]), ListV([]))]
        else:
            given = [(ListV([old]), ListV([])), (ListV([]), ListV([]))]
        caller_before = [[list(s_.items), list(c_.items)] for s_, c_ in given]
        beps = []
        for k_, (s_, c_) in enumerate(given):
            beps.append(I.construct(bci, [], {'name': 'bep%d' % (k_ + 1), 'slope': D.sym('bslope%d' % k_),
                                              'intercept': D.sym('bicpt%d' % k_), 'direction': 'synthesis',
                                              'descriptor': 'delta_H', 'synthesis_reactions': s_,
                                              'cleavage_reactions': c_}, name='bep%d' % (k_ + 1)))
        if not all(isinstance(b_, Obj) for b_ in beps):
            run.fail('EFFECT.bep-members', 'omkm.BEP.__init__', 'member lists of the caller: ' + variant,
                     'BEP(synthesis_reactions=<list>, cleavage_reactions=<list>) gives %s'
                     % [show(b_, 60) for b_ in beps], owner.module, fn)
            continue
        if variant == 'a list the caller edits afterwards':
            given[0][0].items.append(late)                    # the caller's statement: his_list.append(...)
            caller_before[0][0].append(late)
        # reactions built afterwards, no read in between
        made = []
        for rid, k_, direction in (('r_0001', 0, 'synthesis'), ('r_0002', 1, 'synthesis'), ('r_0003', 0, 'cleavage'),
                                   ('r_0005', 1, 'synthesis')):
            made.append(I.construct(rci, [], {
                'reactants': ListV([A_]), 'reactants_stoich': ListV([C(1)]), 'products': ListV([B_]),
                'products_stoich': ListV([C(1)]), 'id': rid, 'direction': direction,
                'transition_state': ListV([beps[k_]]), 'transition_state_stoich': ListV([C(1)])}, name=rid))
        if not all(isinstance(r_, Obj) for r_ in made):
            run.fail('EFFECT.bep-members', 'omkm.BEP.__init__', 'member lists of the caller: ' + variant,
                     'SurfaceReaction(transition_state=[bep]) gives %s' % [show(r_, 60) for r_ in made],
                     owner.module, fn)
            continue
        want = [{'cleavage': {'r_0003'}, 'synthesis': {'r_0001'}}, {'cleavage': set(), 'synthesis': {'r_0002', 'r_0005'}}]
        if variant == 'a list the caller edits afterwards':
            want[0]['synthesis'] = {'r_0009', 'r_0001'}
        got = [written(b_, u) for b_ in beps]
        model = [{'cleavage': ids_of(get_public(I, b_, 'cleavage_reactions')),
                  'synthesis': ids_of(get_public(I, b_, 'synthesis_reactions'))} for b_ in beps]
        caller_after = [[list(s_.items), list(c_.items)] for s_, c_ in given]
        ok_files = all(y_ == w_ and c_ == w_ for (y_, c_), w_ in zip(got, want))
        # (a relation that is the only user of the lists it was given is written correctly whether it copies them or
        # not: the control variant compares the files only)
        ok_caller = variant == 'lists of its own' or \
            all(len(a_) == len(b_) and all(x is y for x, y in zip(a_, b_))
                for pa, pb in zip(caller_after, caller_before) for a_, b_ in zip(pa, pb))
        run.check(ok_files and ok_caller, 'EFFECT.bep-members', 'omkm.BEP.__init__',
                  'member lists of the caller: ' + variant,
                  '[%s] bep1 and bep2 are built from lists the caller holds, then r_0001 (bep1, synthesis), r_0002 '
                  '(bep2, synthesis), r_0003 (bep1, cleavage), r_0005 (bep2, synthesis) are built with them. The YAML '
                  'entries / CTI directives name %s; expected %s (each relation exactly the reactions built with it and '
                  'the members it was given). The relations report %s. The caller\'s lists hold %s afterwards; he put '
                  '%s into them'
                  % (variant, [{'yaml': y_, 'cti': c_} for y_, c_ in got], want, model,
                     [[[getattr(x, 'name', x) for x in l_] for l_ in p_] for p_ in caller_after],
                     [[[getattr(x, 'name', x) for x in l_] for l_ in p_] for p_ in caller_before]),
                  owner.module, fn,
                  sample='BEP(synthesis_reactions=l1, cleavage_reactions=l2) [%s]: entries name own members only, '
                         'l1/l2 untouched' % variant)


def emitters(run, repo):
    species_emitters(run, repo)
    phase_emitters(run, repo)
    reaction_emitters(run, repo)
    other_emitters(run, repo)
    bep_caller_lists(run, repo)
