"""C02 - NASA-7 / NASA-9 / Shomate are internally consistent polynomials."""
import ast
from fractions import Fraction as Fr

from ..nf import Rat, C
from ..source import Unsupported, AnchorError, params
from ..xlate import Interp, ListV, Elem, SumV, Raised, RankOrder
from .rxnfix import set_public, get_public
from .common import (same, show, slots_in, coeff_vector, attached_models, attached_sum, sel_opaque,
                     sub, atoms_of)

NASA = 'pmutt.empirical.nasa'
SHO = 'pmutt.empirical.shomate'


def fn_of(repo, mod, name):
    """the function that the public name mod.name stands for (defined there or imported into it) and its module"""
    m = repo.module(mod)
    r = repo.lookup(m, name)
    if not (isinstance(r, tuple) and r[0] == 'function'):
        raise AnchorError('%s.%s not found' % (mod, name))
    return r[1], r[2]


def evaluator(run, repo, I, mod, name, **kw):
    m, fn = fn_of(repo, mod, name)
    run.fn('%s.%s' % (mod, name))
    r = I.call_function(m, fn, [], kw, name='%s.%s' % (mod, name))
    if isinstance(r, Elem):
        r = r.r
    if isinstance(r, ListV) and len(r) == 1:
        r = r.items[0]
    if not isinstance(r, Rat):
        raise Unsupported('%s.%s did not translate to a scalar normal form: %s' % (mod, name, show(r)))
    return r, m, fn


def slot_rules(run, repo, fam, mod, prefix, n, hfac=None):
    """SLOT/DERIV for one family. prefix: get_nasa_ / get_nasa9_ / get_shomate_"""
    I = interp(repo, cls=PowWatch)
    D = I.D
    T = D.sym('T')
    a = coeff_vector(I, 'a', n)
    kw = {'a': a}
    if fam == 'shomate':
        kw['T'] = Elem(T)
        kw['units'] = D.sym('units')
    else:
        kw['T'] = T
    con = '%s.%s' % (mod.split('.')[-1], prefix)
    got, neg = {}, {}
    for q in ('CpoR', 'HoRT', 'SoR'):
        del I.neg_powers[:]
        got[q] = evaluator(run, repo, I, mod, prefix + q, **kw)
        neg[con + q] = sum(1 for base, _ in I.neg_powers if 'T' in atoms_of(base))
    (Cp, m, fCp), (H, _, fH), (S, _, fS) = got['CpoR'], got['HoRT'], got['SoR']
    # linear in the coefficients
    for q, r, f in (('CpoR', Cp, fCp), ('HoRT', H, fH), ('SoR', S, fS)):
        lin = C(0)
        for ai in a.items:
            nm = list(ai.atoms())[0]
            lin = lin + ai * D.d(r, nm)
        run.check(lin.eq(r), 'SLOT.linear', con + q, 'linear',
                  'evaluator is not linear and homogeneous in the coefficient vector', m, f)
    # dH/dT = Cp  <=>  d(T*HoRT)/dT == CpoR ; dS/dT = Cp/T, for all coefficient vectors at once
    res_h = D.d(T * H, 'T') - Cp
    res_s = D.d(S, 'T') - Cp / T
    run.check(res_h.iszero(), 'DERIV.dH=Cp', con + 'HoRT', 'd(T*HoRT)/dT==CpoR',
              'd(T*HoRT)/dT differs from CpoR in slot(s) %s: residual %s'
              % (slots_in(res_h, 'a['), show(res_h)), m, fH,
              sample={'family': fam, 'identity': 'd(T*HoRT)/dT - CpoR == 0 for all a, T',
                      'HoRT': show(H, 400), 'CpoR': show(Cp, 400)})
    run.check(res_s.iszero(), 'DERIV.dS=Cp/T', con + 'SoR', 'dSoR/dT==CpoR/T',
              'dSoR/dT differs from CpoR/T in slot(s) %s: residual %s'
              % (slots_in(res_s, 'a['), show(res_s)), m, fS,
              sample={'family': fam, 'identity': 'd(SoR)/dT - CpoR/T == 0 for all a, T', 'SoR': show(S, 400)})
    # per-slot table + integration-constant slots
    table = []
    hconst, sconst = [], []
    for i, ai in enumerate(a.items):
        nm = list(ai.atoms())[0]
        ci, hi, si = D.d(Cp, nm), D.d(H, nm), D.d(S, nm)
        table.append({'slot': i, 'c': show(ci), 'h': show(hi), 's': show(si)})
        ok_h = D.d(T * hi, 'T').eq(ci)
        ok_s = D.d(si, 'T').eq(ci / T)
        run.check(ok_h, 'SLOT.h', con + 'HoRT', 'slot:%d' % i,
                  'slot %d: H-basis %s is not the integral/T of the Cp-basis %s' % (i, show(hi), show(ci)), m, fH)
        run.check(ok_s, 'SLOT.s', con + 'SoR', 'slot:%d' % i,
                  'slot %d: S-basis %s is not the integral of Cp-basis/T %s' % (i, show(si), show(ci)), m, fS)
        if ci.iszero() and si.iszero() and not hi.iszero() and D.d(T * hi, 'T').iszero():
            hconst.append(i)
        if ci.iszero() and hi.iszero() and not si.iszero() and D.d(si, 'T').iszero():
            sconst.append(i)
    run.check(len(hconst) == 1, 'SLOT.const', con + 'HoRT', 'H-constant-slot',
              'expected exactly one enthalpy integration-constant slot (basis k/T in H, 0 in Cp and S), '
              'found %s' % hconst, m, fH)
    run.check(len(sconst) == 1, 'SLOT.const', con + 'SoR', 'S-constant-slot',
              'expected exactly one entropy integration-constant slot (basis k in S, 0 in Cp and H), '
              'found %s' % sconst, m, fS)
    run.sample({'family': fam, 'slot_table': table, 'H_const_slot': hconst, 'S_const_slot': sconst})
    return {'I': I, 'Cp': Cp, 'H': H, 'S': S, 'hconst': hconst, 'sconst': sconst, 'neg': neg}


def interp(repo, ranks=None, cls=None, domain=None):
    """one interpreter of this module: comparisons of symbols answered by the ranks of the instance; a number that is
    printed and read back is the number as printed"""
    I = (cls or Interp)(repo, domain=domain, order=RankOrder(ranks) if ranks is not None else None)
    I.track_print_precision = True
    return I


def built(I, repo, qual, objname, **kw):
    """a species made by its own constructor (the names under which a class keeps what it is given are its business)"""
    o = I.construct(repo.cls(qual), [], kw, name=objname)
    if isinstance(o, Raised):
        raise Unsupported('%s(...) raised %s for the model species' % (qual, o.exc))
    sel_opaque(o)
    return o


def bounds_of(I, name, given=None):
    """T_low / T_mid / T_high of a model species: symbols named after the species (ranked by the instance) unless
    the instance gives concrete temperatures"""
    given = given or {}
    return {k: given.get(k, I.D.sym('%s.%s' % (name, k))) for k in ('T_low', 'T_mid', 'T_high')}


def nasa_obj(I, repo, misc=None, name='sp', lo='lo', hi='hi', bounds=None):
    b = bounds_of(I, name, bounds)
    return built(I, repo, NASA + '.Nasa', name, name=name, T_low=b['T_low'], T_mid=b['T_mid'], T_high=b['T_high'],
                 a_low=coeff_vector(I, lo, 7), a_high=coeff_vector(I, hi, 7), misc_models=misc)


def shomate_obj(I, repo, units, misc=None, name='sp', coef='a', bounds=None):
    b = bounds_of(I, name, bounds)
    return built(I, repo, SHO + '.Shomate', name, name=name, T_low=b['T_low'], T_high=b['T_high'],
                 a=coeff_vector(I, coef, 8), units=units, misc_models=misc)


def coeffs(I, o, attr):
    """a coefficient vector of a species as a user reads it"""
    return get_public(I, o, attr)


def check_get_a(run, repo):
    """ORDER: Nasa.get_a on the 7 orderings of T against T_low < T_mid < T_high"""
    ci = repo.cls(NASA + '.Nasa')
    owner, fn = repo.find_method(ci, 'get_a')
    run.fn(owner.qual + '.get_a')
    names = {0: 'T<T_low', 1: 'T=T_low', 2: 'T_low<T<T_mid', 3: 'T=T_mid', 4: 'T_mid<T<T_high',
             5: 'T=T_high', 6: 'T>T_high'}
    for rank, label in names.items():
        I = interp(repo, {'sp.T_low': 1, 'sp.T_mid': 3, 'sp.T_high': 5, 'T': rank})
        o = nasa_obj(I, repo)
        T = I.D.sym('T')
        r = I.call_method(o, 'get_a', [], {'T': T})
        want = coeffs(I, o, 'a_low' if rank < 3 else 'a_high')
        run.check(isinstance(r, ListV) and same(r, want), 'ORDER.get_a', 'nasa.Nasa.get_a', 'ordering:' + label,
                  'for %s the %s-temperature coefficients must be used (upper segment at and above T_mid; '
                  'out of range only warns) but got %s' % (label, 'low' if rank < 3 else 'high', show(r)),
                  owner.module, fn, sample='get_a(%s) -> %s' % (label, 'a_low' if rank < 3 else 'a_high'))
        # out-of-range warns, inside does not
        warned = len(I.warnings) > 0
        if rank in (0, 6):
            run.check(warned, 'ORDER.get_a.warn', 'nasa.Nasa.get_a', 'warn:' + label,
                      'temperature outside [T_low, T_high] is used without a warning', owner.module, fn)
        else:
            run.check(not warned, 'ORDER.get_a.warn', 'nasa.Nasa.get_a', 'warn:' + label,
                      'a warning is raised for a temperature inside the range', owner.module, fn)


def nasa9_segments(I, repo, nseg, seg='seg', coef='s', bounds=None):
    """nseg SingleNasa9 objects <seg>0.. with coefficient symbols <coef>0[..]..; bounds: [(T_low, T_high)] concrete"""
    segs = []
    for j in range(nseg):
        nm = '%s%d' % (seg, j)
        lo, hi = bounds[j] if bounds else (I.D.sym(nm + '.T_low'), I.D.sym(nm + '.T_high'))
        segs.append(built(I, repo, NASA + '.SingleNasa9', nm, T_low=lo, T_high=hi, a=coeff_vector(I, '%s%d' % (coef, j), 9)))
    return segs


def nasa9_obj(I, repo, nseg, misc=None, name='sp', seg='seg', coef='s', bounds=None):
    segs = nasa9_segments(I, repo, nseg, seg, coef, bounds)
    o = built(I, repo, NASA + '.Nasa9', name, name=name, nasas=ListV(list(segs)), misc_models=misc)
    return o, segs


def seg_ranks(nseg, seg='seg', cuts=None):
    """segment j occupies ranks [10j, 10(j+1)] (or [cuts[j], cuts[j+1]]); consecutive segments share the boundary"""
    cuts = cuts or [10 * j for j in range(nseg + 1)]
    ranks = {}
    for j in range(nseg):
        ranks['%s%d.T_low' % (seg, j)] = cuts[j]
        ranks['%s%d.T_high' % (seg, j)] = cuts[j + 1]
    return ranks


def selected_segment(I, o, segs, T, q='CpoR'):
    """which segment's coefficients a NASA-9 species evaluates at T (through the public getter of quantity q): index,
    'raised', or None when the value mixes segments / uses none"""
    got = I.call_method(o, 'get_' + q, [], {'T': T})
    if isinstance(got, Raised):
        return 'raised', got
    got = scalar_of(got)
    if not isinstance(got, Rat):
        return None, got
    used = vectors_used(got, ['s%d' % j for j in range(len(segs))])
    return (int(used[0][1:]) if len(used) == 1 else None), got


def check_get_nasa(run, repo, max_seg):
    """segment selection of NASA-9 decided through the public getter: the value at T must be built from the
    coefficients of the segment whose own bounds contain T, and T outside every segment must be refused"""
    ci = repo.cls(NASA + '.Nasa9')
    owner, fn = repo.find_method(ci, 'get_CpoR')
    con = 'nasa.Nasa9 segment selection'
    n_inst = 0
    for nseg in range(1, max_seg + 1):
        positions = [(-5, None, 'below every segment')]
        for j in range(nseg):
            positions.append((10 * j + 5, j, 'inside segment %d' % j))
            positions.append((10 * j, j - 1 if j > 0 else 0, 'on lower bound of segment %d' % j))
        positions.append((10 * nseg, nseg - 1, 'on upper bound of last segment'))
        positions.append((10 * nseg + 5, None, 'above every segment'))
        for rank, want, label in positions:
            for q in (QUANTITIES if nseg == 2 else ('CpoR',)):
                ranks = seg_ranks(nseg)
                ranks['T'] = rank
                I = interp(repo, ranks)
                o, segs = nasa9_obj(I, repo, nseg)
                sel, r = selected_segment(I, o, segs, I.D.sym('T'), q)
                key = 'segments:%d %s' % (nseg, label)
                conq, ownq, fnq = (con, owner, fn) if q == 'CpoR' else \
                    ('nasa.Nasa9.get_' + q,) + tuple(repo.find_method(ci, 'get_' + q))
                if want is None:
                    run.check(sel == 'raised', 'PATH.refuse', conq, key,
                              'a temperature outside every NASA-9 segment must be refused with an exception, '
                              'got %s' % show(r), ownq.module, fnq,
                              sample='Nasa9 at T %s raises' % label if q == 'CpoR' else None)
                else:
                    # at a shared boundary either adjacent segment contains T
                    allowed = {want, want + 1} if 'lower bound' in label and want + 1 < nseg and \
                        rank == 10 * (want + 1) else {want}
                    run.check(sel in allowed, 'ORDER.segment', conq, key,
                              'the segment whose bounds contain T must be used, got %s' % show(r, 120),
                              ownq.module, fnq)
                n_inst += 1
    # segments listed in descending order, and segments that leave a gap: the segment is chosen by its own bounds
    for nseg in (2, 3):
        for j in range(nseg):
            for q in QUANTITIES:
                ranks = seg_ranks(nseg)
                ranks['T'] = 10 * j + 5
                I = interp(repo, ranks)
                o, segs = nasa9_obj(I, repo, nseg)
                set_public(I, o, 'nasas', ListV(list(reversed(segs))))
                sel, r = selected_segment(I, o, segs, I.D.sym('T'), q)
                conq, ownq, fnq = (con, owner, fn) if q == 'CpoR' else \
                    ('nasa.Nasa9.get_' + q,) + tuple(repo.find_method(ci, 'get_' + q))
                run.check(sel == j, 'ORDER.segment', conq, 'segments listed in descending order',
                          '[%d segments listed from high to low, T inside segment %d] the segment whose own bounds '
                          'contain T must be used, got %s' % (nseg, j, show(r, 120)), ownq.module, fnq)
                n_inst += 1
    ranks = {'seg0.T_low': 0, 'seg0.T_high': 10, 'seg1.T_low': 20, 'seg1.T_high': 30, 'T': 15}
    I = interp(repo, ranks)
    o, segs = nasa9_obj(I, repo, 2)
    sel, r = selected_segment(I, o, segs, I.D.sym('T'))
    run.check(sel == 'raised', 'PATH.refuse', con, 'gap between segments',
              'a temperature in a gap between two segments lies outside every segment and must be refused, got %s'
              % show(r, 120), owner.module, fn)
    n_inst += 1
    # the refusal holds for every quantity, for a single temperature and for an array that contains one temperature
    # outside every segment (the other entries inside)
    for q in ('CpoR', 'HoRT', 'SoR', 'GoRT'):
        ownq, fnq = repo.find_method(ci, 'get_' + q)
        for where, rank in (('below every segment', -5), ('above every segment', 25), ('in a gap', 15)):
            for form in ('scalar', 'array'):
                ranks = {'seg0.T_low': 0, 'seg0.T_high': 10, 'seg1.T_low': 10, 'seg1.T_high': 20, 'T': rank, 'Tin': 5}
                if where == 'in a gap':
                    ranks.update({'seg1.T_low': 20, 'seg1.T_high': 30})
                I = interp(repo, ranks)
                o, segs = nasa9_obj(I, repo, 2)
                if form == 'scalar':
                    arg = I.D.sym('T')
                else:
                    arg = ListV([I.D.sym('Tin'), I.D.sym('T')])
                    arg.is_array = True
                    arg.dtype = 'float'
                r = I.call_method(o, 'get_' + q, [], {'T': arg})
                run.check(isinstance(r, Raised), 'PATH.refuse', 'nasa.Nasa9.get_' + q, '%s, %s' % (where, form),
                          'get_%s with a temperature %s (%s) must be refused with an exception, got %s'
                          % (q, where, form, show(r, 100)), ownq.module, fnq)
                n_inst += 1
    return n_inst


def shomate_units(run, repo, unit_list):
    """the class getters evaluate the species' own coefficients in the species' own fitting unit; the same
    coefficients in another unit scale with R(J/mol/K)/R(unit).  The concrete units are run before anything else of
    this module, the symbolic unit (any unit the constants table knows) in its place among the class rules."""
    sci = repo.cls(SHO + '.Shomate')
    for units in unit_list:
        Iu = interp(repo, {'sp.T_low': 1, 'sp.T_high': 5, 'T': 3})
        uval = Iu.D.sym('units') if units == 'symbolic' else units
        misc = attached_models(Iu, 2)
        ou = shomate_obj(Iu, repo, uval, misc=misc)
        Tu, Pu = Iu.D.sym('T'), Iu.D.sym('P')
        for q in ('CpoR', 'HoRT', 'SoR'):
            got = Iu.call_method(ou, 'get_' + q, [], {'T': Tu, 'P': Pu})
            mq, fq = fn_of(repo, SHO, 'get_shomate_' + q)
            bare = Iu.call_function(mq, fq, [], {'a': coeffs(Iu, ou, 'a'), 'T': Elem(Tu), 'units': uval})
            bare = bare.r if isinstance(bare, Elem) else bare
            want = Iu.binop('+', bare, attached_sum(Iu, misc, q, T=Tu, P=Pu))
            owner, fn = repo.find_method(sci, 'get_' + q)
            run.check(same(got, want), 'SEGMENT.use', 'shomate.Shomate.get_' + q, 'units:%s' % units,
                      'with fitting unit %s the value is not the Shomate evaluator applied to the species\' coefficients '
                      'in that unit plus the attached-model sum: %s, expected %s' % (units, show(got, 160), show(want, 160)),
                      owner.module, fn)
            if units not in ('symbolic', 'J/mol/K'):
                # the same coefficients in another unit: the dimensionless value scales with R(J/mol/K)/R(unit)
                ref = Iu.call_function(mq, fq, [], {'a': coeffs(Iu, ou, 'a'), 'T': Elem(Tu), 'units': 'J/mol/K'})
                ref = ref.r if isinstance(ref, Elem) else ref
                RJ = Iu.D.sym('kb') * Iu.D.sym('Na')
                Ru = Iu.native['pmutt.constants.R'](Iu, None, [units], {}, None)       # the unit model (verified by C12)
                run.check(isinstance(Ru, Rat) and same(bare * Ru, ref * RJ), 'DIM.units', 'shomate.get_shomate_' + q,
                          'units:%s' % units,
                          'the evaluator in %s times R(%s) differs from the evaluator in J/mol/K times R(J/mol/K): the '
                          'coefficients carry the fitting unit, nothing else may depend on it' % (units, units), mq, fq)


def class_rules(run, repo):
    """TWIN G=H-S, segment use for Nasa, Nasa9, Shomate"""
    # ---- Nasa ---------------------------------------------------------
    for seg, rankT in (('low', 2), ('high', 4), ('high@T_mid', 3)):
        I = interp(repo, {'sp.T_low': 1, 'sp.T_mid': 3, 'sp.T_high': 5, 'T': rankT})
        misc = attached_models(I, 2)
        o = nasa_obj(I, repo, misc=misc)
        T = I.D.sym('T')
        P = I.D.sym('P')
        a = coeffs(I, o, 'a_low' if rankT < 3 else 'a_high')
        ev = {}
        for q in ('CpoR', 'HoRT', 'SoR'):
            ev[q] = I.call_method(o, 'get_' + q, [], {'T': T, 'P': P})
            m, f = fn_of(repo, NASA, 'get_nasa_' + q)
            bare = I.call_function(m, f, [], {'a': a, 'T': T})
            mixq = attached_sum(I, misc, q, T=T, P=P)
            want = I.binop('+', bare, mixq)
            owner, fn = repo.find_method(o.ci, 'get_' + q)
            run.fn(owner.qual + '.get_' + q)
            run.check(same(ev[q], want), 'SEGMENT.use', 'nasa.Nasa.get_' + q, 'segment:' + seg,
                      'value in the %s segment is not the evaluator applied to that segment\'s coefficients '
                      'plus the attached-model sum at the same T and options: %s' % (seg, show(ev[q])),
                      owner.module, fn)
        for sel in (None, True):
            G = I.call_method(o, 'get_GoRT', [], {'T': T, 'P': P, 'S_elements': sel})
            Hh = I.call_method(o, 'get_HoRT', [], {'T': T, 'P': P})
            Ss = I.call_method(o, 'get_SoR', [], {'T': T, 'P': P, 'S_elements': sel})
            owner, fn = repo.find_method(o.ci, 'get_GoRT')
            run.check(same(G, I.binop('-', Hh, Ss)), 'TWIN.G=H-S', 'nasa.Nasa.get_GoRT',
                      'segment:%s S_elements=%s' % (seg, sel),
                      'GoRT differs from HoRT - SoR under identical T, P, S_elements: %s'
                      % show(sub(I, G, I.binop('-', Hh, Ss))), owner.module, fn)
    # ---- Nasa9 ----------------------------------------------------------
    for nseg in (1, 2, 3):
        for j in range(nseg):
            ranks = seg_ranks(nseg)
            ranks['T'] = 10 * j + 5
            I = interp(repo, ranks)
            misc = attached_models(I, 2)
            o, segs = nasa9_obj(I, repo, nseg, misc=misc)
            T = I.D.sym('T')
            P = I.D.sym('P')
            for q in ('CpoR', 'HoRT', 'SoR'):
                got = I.call_method(o, 'get_' + q, [], {'T': T, 'P': P})
                m, f = fn_of(repo, NASA, 'get_nasa9_' + q)
                bare = I.call_function(m, f, [], {'a': coeffs(I, segs[j], 'a'), 'T': T})
                mixq = attached_sum(I, misc, q, T=T, P=P)
                want = I.binop('+', bare, mixq)
                owner, fn = repo.find_method(o.ci, 'get_' + q)
                run.fn(owner.qual + '.get_' + q)
                run.check(same(got, want), 'SEGMENT.use', 'nasa.Nasa9.get_' + q,
                          'segments:%d T in segment %d' % (nseg, j),
                          'value is not the NASA-9 evaluator on the containing segment plus the attached-model '
                          'sum: %s' % show(got), owner.module, fn)
            for sel in (None, True):
                G = I.call_method(o, 'get_GoRT', [], {'T': T, 'P': P, 'S_elements': sel})
                Hh = I.call_method(o, 'get_HoRT', [], {'T': T, 'P': P})
                Ss = I.call_method(o, 'get_SoR', [], {'T': T, 'P': P, 'S_elements': sel})
                owner, fn = repo.find_method(o.ci, 'get_GoRT')
                run.check(same(G, I.binop('-', Hh, Ss)), 'TWIN.G=H-S', 'nasa.Nasa9.get_GoRT',
                          'segments:%d seg %d S_elements=%s' % (nseg, j, sel),
                          'GoRT differs from HoRT - SoR under identical arguments', owner.module, fn)
    # ---- Shomate ----------------------------------------------------------
    I = interp(repo, {'sp.T_low': 1, 'sp.T_high': 5, 'T': 3})
    sci = repo.cls(SHO + '.Shomate')
    o = shomate_obj(I, repo, I.D.sym('units'))
    T = I.D.sym('T')
    for sel in (None, True):
        G = I.call_method(o, 'get_GoRT', [], {'T': T, 'S_elements': sel})
        Hh = I.call_method(o, 'get_HoRT', [], {'T': T})
        Ss = I.call_method(o, 'get_SoR', [], {'T': T, 'S_elements': sel})
        owner, fn = repo.find_method(sci, 'get_GoRT')
        run.fn(owner.qual + '.get_GoRT')
        run.check(same(G, I.binop('-', Hh, Ss)), 'TWIN.G=H-S', 'shomate.Shomate.get_GoRT', 'S_elements=%s' % sel,
                  'GoRT differs from HoRT - SoR under identical arguments', owner.module, fn)
    shomate_units(run, repo, ('symbolic',))
    m, f = fn_of(repo, SHO, 'get_shomate_GoRT')
    a8 = coeff_vector(I, 'a', 8)
    u = I.D.sym('units')
    g = I.call_function(m, f, [], {'a': a8, 'T': Elem(T), 'units': u})
    h = I.call_function(*fn_of(repo, SHO, 'get_shomate_HoRT'), [], {'a': a8, 'T': Elem(T), 'units': u})
    s = I.call_function(*fn_of(repo, SHO, 'get_shomate_SoR'), [], {'a': a8, 'T': Elem(T), 'units': u})
    run.fn(SHO + '.get_shomate_GoRT')
    run.check(same(g, I.binop('-', h, s)), 'TWIN.G=H-S', 'shomate.get_shomate_GoRT', 'twin',
              'get_shomate_GoRT differs from get_shomate_HoRT - get_shomate_SoR', m, f)


QUANTITIES = ('CpoR', 'HoRT', 'SoR', 'GoRT')


def reference(repo, I, fam, q, a, T, units=None):
    """the family's evaluator of quantity q applied to the coefficients a at T, in an interpreter of its own: nothing
    that an earlier call left behind anywhere (an object, a class, a module) reaches it"""
    if q == 'GoRT':
        return reference(repo, I, fam, 'HoRT', a, T, units) - reference(repo, I, fam, 'SoR', a, T, units)
    J = interp(repo, domain=I.D)
    mod, prefix = {'nasa': (NASA, 'get_nasa_'), 'nasa9': (NASA, 'get_nasa9_'), 'shomate': (SHO, 'get_shomate_')}[fam]
    m, f = fn_of(repo, mod, prefix + q)
    kw = {'a': ListV(list(a.items)), 'T': T}
    if fam == 'shomate':
        kw = {'a': ListV(list(a.items)), 'T': Elem(T), 'units': units}
    r = J.call_function(m, f, [], kw)
    r = r.r if isinstance(r, Elem) else r
    if isinstance(r, ListV) and len(r) == 1:
        r = r.items[0]
    if not isinstance(r, Rat):
        raise Unsupported('%s%s did not translate to a scalar normal form: %s' % (prefix, q, show(r)))
    return r


def scalar_of(v):
    if isinstance(v, SumV) and v.elem.iszero():
        v = v.scalar
    if isinstance(v, ListV) and len(v) == 1:
        v = v.items[0]
    return v


def vectors_used(v, names):
    """which of the named coefficient vectors occur in a value"""
    used = {a.split('[')[0] for a in atoms_of(v) if '[' in a}
    return sorted(n for n in names if n in used)


def neighbour_rules(run, repo):
    """concrete temperatures on a bound and next to it (closer than any printed resolution), asked for one after the
    other on the same species and in one array: each is evaluated with the segment that contains it, whatever was asked
    for before"""
    n = 0
    delta = C(Fr(1, 2 ** 30))          # 9.3e-10 K; 1000 + 2^-30 is a double
    # the bounds themselves: whole kelvins, and bounds that no printed resolution reproduces (57 * 2^-30 K = 5.3e-8 K
    # above a whole kelvin, still doubles: a bound that is rounded, printed and read back, or kept with a fixed number
    # of decimals is another bound, and a temperature 2^-30 K inside the segment falls outside it; 57 because the
    # logarithms of these temperatures - exact sums of logarithms of primes - are then cheap to write down)
    for off, at in ((C(0), ''), (C(Fr(57, 2 ** 30)), ' [bounds 5.3e-8 K above 200, 1000, 6000 K]')):
        n += neighbours_of(run, repo, C(200) + off, C(1000) + off, C(6000) + off, delta, at)
    return n


def neighbours_of(run, repo, lo, mid, hi, delta, at):
    n = 0
    what = 'segments 200-1000 K and 1000-6000 K%s' % at
    # ---- next to a bound, after the bound itself ------------------------------------------------------------------------
    for q in QUANTITIES:
        I = interp(repo)
        o, segs = nasa9_obj(I, repo, 2, bounds=[(lo, mid), (mid, hi)])
        owner, fn = repo.find_method(o.ci, 'get_' + q)
        if q == 'CpoR':
            # the bounds a segment reports are the bounds it was given
            for j, (wl, wh) in enumerate(((lo, mid), (mid, hi))):
                gl, gh = get_public(I, segs[j], 'T_low'), get_public(I, segs[j], 'T_high')
                run.check(same(gl, wl) and same(gh, wh), 'ORDER.segment', 'nasa.SingleNasa9 bounds',
                          'segment %d%s' % (j, at),
                          '%s: segment %d was given the bounds (%s, %s) and reports (%s, %s)'
                          % (what, j, show(wl), show(wh), show(gl), show(gh)), owner.module, fn)
                n += 1
        seq = [('T_mid', mid, (0, 1)), ('T_mid + 2^-30 K', mid + delta, (1,)), ('T_mid - 2^-30 K', mid - delta, (0,)),
               ('T_high', hi, (1,)), ('T_high + 2^-30 K', hi + delta, None), ('T_low', lo, (0,)),
               ('T_low - 2^-30 K', lo - delta, None), ('T_mid + 2^-30 K', mid + delta, (1,))]
        before = 'nothing'
        for label, Tv, allowed in seq:
            r = I.call_method(o, 'get_' + q, [], {'T': Tv})
            used = None if isinstance(r, Raised) else vectors_used(scalar_of(r), ('s0', 's1'))
            if allowed is None:
                ok = isinstance(r, Raised)
                why = 'lies outside every segment and must be refused'
            else:
                ok = used is not None and len(used) == 1 and int(used[0][1:]) in allowed
                why = 'must be evaluated with segment %s' % ' or '.join(str(j) for j in allowed)
            run.check(ok, 'ORDER.segment', 'nasa.Nasa9.get_' + q, 'next to a bound: %s after %s%s' % (label, before, at),
                      '%s: T = %s (asked for after %s) %s, got %s'
                      % (what, label, before, why, show(r, 110)), owner.module, fn,
                      sample='Nasa9.get_%s at %s after %s' % (q, label, before) if q == 'CpoR' and not at else None)
            before = label
            n += 1
        # the same temperatures in one array
        I = interp(repo)
        o, _ = nasa9_obj(I, repo, 2, bounds=[(lo, mid), (mid, hi)])
        arr = ListV([mid, mid + delta, mid - delta, hi, lo])
        arr.is_array = True
        arr.dtype = 'float'
        r = I.call_method(o, 'get_' + q, [], {'T': arr})
        used = [vectors_used(x, ('s0', 's1')) for x in r.items] if isinstance(r, ListV) else None
        ok = used is not None and len(used) == 5 and used[1:] == [['s1'], ['s0'], ['s1'], ['s0']] and len(used[0]) == 1
        run.check(ok, 'ORDER.segment', 'nasa.Nasa9.get_' + q, 'next to a bound: array [T_mid, T_mid + 2^-30 K, ..]' + at,
                  '%s: the entries of [T_mid, T_mid + 2^-30, T_mid - 2^-30, T_high, '
                  'T_low] must be evaluated with segments [0 or 1, 1, 0, 1, 0], got the coefficients %s' % (what, used),
                  owner.module, fn)
        n += 1
        for order in ((('T_mid', mid, 'hi'), ('T_mid - 2^-30 K', mid - delta, 'lo'), ('T_mid + 2^-30 K', mid + delta, 'hi'),
                       ('T_mid', mid, 'hi')),
                      (('T_mid - 2^-30 K', mid - delta, 'lo'), ('T_mid', mid, 'hi'), ('T_mid - 2^-30 K', mid - delta, 'lo'))):
            I = interp(repo)
            o = nasa_obj(I, repo, bounds={'T_low': lo, 'T_mid': mid, 'T_high': hi})
            owner, fn = repo.find_method(o.ci, 'get_' + q)
            before = 'nothing'
            for label, Tv, want in order:
                r = I.call_method(o, 'get_' + q, [], {'T': Tv})
                used = None if isinstance(r, Raised) else vectors_used(scalar_of(r), ('lo', 'hi'))
                run.check(used == [want], 'ORDER.get_a', 'nasa.Nasa.get_' + q,
                          'next to T_mid: %s after %s%s' % (label, before, at),
                          'T_mid = 1000 K%s: T = %s (asked for after %s) must be evaluated with a_%s, got %s'
                          % (' + 5.3e-8 K' if at else '', label, before, 'low' if want == 'lo' else 'high', show(r, 110)),
                          owner.module, fn)
                before = label
                n += 1
    return n


def state_rules(run, repo):
    """what one evaluation leaves behind must not reach another one: a second species evaluated after a first one at the
    same temperature, a species whose coefficients / segments / break temperature were replaced"""
    n = 0
    # ---- two species in one process -------------------------------------------------------------------------------
    # NASA-9: T lies in segment 0 of the first species and in segment 1 of the second one
    ranks = dict(seg_ranks(2, 'seg', [0, 10, 20]))
    ranks.update(seg_ranks(2, 'teg', [0, 4, 20]))
    ranks['T'] = 5
    I = interp(repo, ranks)
    T, P = I.D.sym('T'), I.D.sym('P')
    first, _ = nasa9_obj(I, repo, 2)
    second, _ = nasa9_obj(I, repo, 2, name='sq', seg='teg', coef='u')
    plan = [('nasa', 'Nasa9', 'nasa9', first, coeff_vector(I, 's0', 9), second, coeff_vector(I, 'u1', 9), None)]
    # NASA-7: T in the high segment of the first species and in the low segment of the second one
    I7 = interp(repo, {'sp.T_low': 1, 'sp.T_mid': 3, 'sp.T_high': 9, 'sq.T_low': 1, 'sq.T_mid': 7, 'sq.T_high': 9, 'T': 5})
    plan.append(('nasa', 'Nasa', 'nasa', nasa_obj(I7, repo), coeff_vector(I7, 'hi', 7),
                 nasa_obj(I7, repo, name='sq', lo='lq', hi='hq'), coeff_vector(I7, 'lq', 7), None))
    Is = interp(repo, {'sp.T_low': 1, 'sp.T_high': 9, 'sq.T_low': 1, 'sq.T_high': 9, 'T': 5})
    plan.append(('shomate', 'Shomate', 'shomate', shomate_obj(Is, repo, Is.D.sym('units')), coeff_vector(Is, 'a', 8),
                 shomate_obj(Is, repo, 'kJ/mol/K', name='sq', coef='b'), coeff_vector(Is, 'b', 8), 'kJ/mol/K'))
    for modname, kind, fam, sp1, a1, sp2, a2, units2 in plan:
        J = {'Nasa9': I, 'Nasa': I7, 'Shomate': Is}[kind]
        T = J.D.sym('T')
        u1 = J.D.sym('units') if kind == 'Shomate' else None
        for q in QUANTITIES:
            owner, fn = repo.find_method(sp2.ci, 'get_' + q)
            con = '%s.%s.get_%s' % (modname, kind, q)
            v1 = scalar_of(J.call_method(sp1, 'get_' + q, [], {'T': T}))
            v2 = scalar_of(J.call_method(sp2, 'get_' + q, [], {'T': T}))
            v2b = scalar_of(J.call_method(sp2, 'get_' + q, [], {'T': T}))
            v1b = scalar_of(J.call_method(sp1, 'get_' + q, [], {'T': T}))
            w1 = reference(repo, J, fam, q, a1, T, u1)
            w2 = reference(repo, J, fam, q, a2, T, units2)
            run.check(same(v2, w2) and same(v2b, w2), 'EFFECT.state', con,
                      'a second species after another one at the same temperature',
                      'a species evaluated after another species was evaluated at the same temperature must report its '
                      'own polynomial (the evaluator on its own coefficients of the segment that contains T), got %s, '
                      'asked again %s - expected %s' % (show(v2, 110), show(v2b, 110), show(w2, 110)),
                      owner.module, fn, sample='two %s species in one interpreter, get_%s of the second' % (kind, q))
            run.check(same(v1, w1) and same(v1b, w1), 'EFFECT.state', con,
                      'the first species again after a second one',
                      'the species evaluated first must report its own polynomial, before and after another species was '
                      'evaluated at the same temperature: got %s, then %s - expected %s'
                      % (show(v1, 110), show(v1b, 110), show(w1, 110)), owner.module, fn)
            n += 2
    # ---- the data of a species replaced after it was evaluated --------------------------------------------------------
    for q in QUANTITIES:
        # NASA-9: new segments (other coefficients, other bounds: T moves from segment 0 to segment 1)
        ranks = dict(seg_ranks(2, 'seg', [0, 10, 20]))
        ranks.update(seg_ranks(2, 'teg', [0, 4, 20]))
        ranks['T'] = 5
        I = interp(repo, ranks)
        T = I.D.sym('T')
        o, _ = nasa9_obj(I, repo, 2)
        owner, fn = repo.find_method(o.ci, 'get_' + q)
        I.call_method(o, 'get_' + q, [], {'T': T})
        set_public(I, o, 'nasas', ListV(nasa9_segments(I, repo, 2, 'teg', 'u')))
        got = scalar_of(I.call_method(o, 'get_' + q, [], {'T': T}))
        want = reference(repo, I, 'nasa9', q, coeff_vector(I, 'u1', 9), T)
        run.check(same(got, want), 'EFFECT.state', 'nasa.Nasa9.get_' + q, 'segments replaced after an evaluation',
                  'after `nasas` was assigned new segments the species must be evaluated with them (T lies in the '
                  'second of the new segments): got %s, expected %s' % (show(got, 120), show(want, 120)),
                  owner.module, fn)
        # NASA-7: the break temperature moved below T, then the coefficients of the high segment replaced
        I = interp(repo, {'sp.T_low': 1, 'sp.T_mid': 7, 'sp.T_high': 9, 'T': 5, 'T_mid2': 3})
        T = I.D.sym('T')
        o = nasa_obj(I, repo)
        owner, fn = repo.find_method(o.ci, 'get_' + q)
        I.call_method(o, 'get_' + q, [], {'T': T})
        set_public(I, o, 'T_mid', I.D.sym('T_mid2'))
        got = scalar_of(I.call_method(o, 'get_' + q, [], {'T': T}))
        want = reference(repo, I, 'nasa', q, coeff_vector(I, 'hi', 7), T)
        run.check(same(got, want), 'EFFECT.state', 'nasa.Nasa.get_' + q, 'T_mid moved after an evaluation',
                  'after T_mid was set below T the high-temperature coefficients must be used: got %s, expected %s'
                  % (show(got, 120), show(want, 120)), owner.module, fn)
        new = coeff_vector(I, 'hn', 7)
        new.is_array = True
        set_public(I, o, 'a_high', new)
        got = scalar_of(I.call_method(o, 'get_' + q, [], {'T': T}))
        want = reference(repo, I, 'nasa', q, coeff_vector(I, 'hn', 7), T)
        run.check(same(got, want), 'EFFECT.state', 'nasa.Nasa.get_' + q, 'a_high replaced after an evaluation',
                  'after a_high was assigned new coefficients they must be used: got %s, expected %s'
                  % (show(got, 120), show(want, 120)), owner.module, fn)
        n += 3
    return n


def _int_const(v):
    """the integer a constant abstract value stands for, else None"""
    if isinstance(v, bool):
        return None
    if isinstance(v, int):
        return v
    if isinstance(v, Fr):
        return int(v) if v.denominator == 1 else None
    if isinstance(v, Rat):
        if v.iszero():
            return 0
        if v.is_const() and v.const_value().denominator == 1:
            return int(v.const_value())
    return None


class LenWatch(Interp):
    """an interpreter that remembers which whole numbers were compared with each other: a getter that compares the
    number of temperatures it was given with a constant takes another path on the other side of that constant, and
    the unrolled lengths have to reach it"""

    def __init__(self, *a, **k):
        Interp.__init__(self, *a, **k)
        self.int_compares = []

    def compare(self, op, a, b, node=None):
        if op in ('<', '<=', '>', '>=', '==', '!='):
            x, y = _int_const(a), _int_const(b)
            if x is not None and y is not None:
                self.int_compares.append((x, y))
        return Interp.compare(self, op, a, b, node)


class PowWatch(Interp):
    """an interpreter that remembers the negative whole powers it computed (base value, exponent)"""

    def __init__(self, *a, **k):
        Interp.__init__(self, *a, **k)
        self.neg_powers = []

    def binop(self, op, a, b):
        if op == '**':
            e = _int_const(b)
            if e is not None and e < 0 and not isinstance(a, (ListV, Elem)):
                self.neg_powers.append((a, e))
        return Interp.binop(self, op, a, b)


LONGEST = 600       # array lengths up to here are unrolled when the code under analysis dispatches on the length


def length_thresholds(compares_by_n, covered):
    """constants c that were compared with the number of temperatures n on every run (n = 1, 2, ..): the lengths
    next to c that are not unrolled yet"""
    common = None
    for n, pairs in compares_by_n.items():
        other = {y for x, y in pairs if x == n} | {x for x, y in pairs if y == n}
        other.discard(n)
        common = other if common is None else common & other
    out = set()
    for c in sorted(common or ()):
        for n in (c - 1, c, c + 1):
            if n >= 1 and n not in covered:
                out.add(n)
    return sorted(out)


def array_rules(run, repo, max_len):
    """scalar / array agreement (BRANCH-TWIN, bounded unrolling), the caller's temperatures are left as they were
    (EFFECT.argument)"""
    n_bt = 0
    # the temperatures of one container are pairwise different (different ranks: nothing may be decided by two of
    # them being "equal"), unsorted, and the container starts with a descent (a getter that assumes ascending
    # temperatures - remembers the segment, sorts, looks at the first / last entry only - is wrong from entry 1 on)
    NASA_RANKS = [40, 20, 30, 25, 45]   # bounds 10 / 30 / 50: high, low, exactly on T_mid, low, high
    NASA9_RANKS = [15, 5, 10, 3, 17]    # two segments 0-10-20: upper, lower, on the shared bound, lower, upper
    SHOMATE_RANKS = [6, 2, 4, 3, 7]     # bounds 1 / 9: all inside, unsorted

    def make(kind, n, with_misc=False, cls=None):
        misc = (lambda I_: attached_models(I_, 1, params=('T',)) if with_misc else None)
        if kind == 'Nasa':
            ranks = {'sp.T_low': 10, 'sp.T_mid': 30, 'sp.T_high': 50}
            for i in range(n):
                ranks['T%d' % i] = NASA_RANKS[i % len(NASA_RANKS)] + Fr(i // len(NASA_RANKS), 1000)
            I = interp(repo, ranks, cls=cls)
            return I, nasa_obj(I, repo, misc=misc(I))
        if kind == 'Nasa9':
            ranks = seg_ranks(2)
            for i in range(n):
                ranks['T%d' % i] = NASA9_RANKS[i % len(NASA9_RANKS)] + Fr(i // len(NASA9_RANKS), 1000)
            I = interp(repo, ranks, cls=cls)
            return I, nasa9_obj(I, repo, 2, misc=misc(I))[0]
        ranks = {'sp.T_low': 1, 'sp.T_high': 9}
        for i in range(n):
            ranks['T%d' % i] = SHOMATE_RANKS[i % len(SHOMATE_RANKS)] + Fr(i // len(SHOMATE_RANKS), 1000)
        I = interp(repo, ranks, cls=cls)
        return I, shomate_obj(I, repo, I.D.sym('units'), misc=misc(I))

    def temperatures(I, n, form, dtype=None):
        Ts = [I.D.sym('T%d' % i) for i in range(n)]
        arr = ListV(list(Ts))
        if form == 'array':
            arr.is_array = True
            # the caller's array: its element type is the caller's business (np.arange(300, 2000, 250) holds integers);
            # every array derived from it without a conversion has that element type too
            arr.dtype = dtype or 'caller'
        return Ts, arr

    def untouched(I, o, kind, modname, q, arr, Ts, form, owner, fn):
        """the container of temperatures holds what it held before the call"""
        same_T = len(arr.items) == len(Ts) and all(x is y or same(x, y) for x, y in zip(arr.items, Ts))
        run.check(same_T, 'EFFECT.argument', '%s.%s.get_%s' % (modname, kind, q), 'temperatures given as %s' % form,
                  'get_%s modifies the %s of temperatures it was given: after the call it holds %s (a result buffer '
                  'that is the caller\'s own array; whatever is evaluated on that array next - the T in G = GoRT*R*T, a '
                  'second quantity - is evaluated at these values)' % (q, form, show(arr, 120)), owner.module, fn)
        return same_T

    # with a model attached (its contribution depends on T): every entry of the array carries the model's value at its
    # own temperature
    for kind, modname in (('Nasa', 'nasa'), ('Nasa9', 'nasa'), ('Shomate', 'shomate')):
        for q in ('CpoR', 'HoRT', 'SoR', 'GoRT'):
            I, o = make(kind, 3, with_misc=True)
            Ts, arr = temperatures(I, 3, 'array', 'float')
            owner, fn = repo.find_method(o.ci, 'get_' + q)
            got = I.call_method(o, 'get_' + q, [], {'T': arr})
            untouched(I, o, kind, modname, q, arr, Ts, 'array of floats', owner, fn)
            each = [I.call_method(o, 'get_' + q, [], {'T': t}) for t in Ts]
            ok = isinstance(got, ListV) and len(got) == 3 and all(same(x, y) for x, y in zip(got.items, each))
            run.check(ok, 'BRANCH-TWIN', '%s.%s.get_%s' % (modname, kind, q), 'array-vs-elementwise with an attached model',
                      'with a model attached the array result %s differs from element-by-element evaluation %s'
                      % (show(got, 200), show(ListV(each), 200)), owner.module, fn)
            n_bt += 1
    # a temperature that occurs twice in one container: one entry per entry given, each at its own position
    for kind, modname in (('Nasa', 'nasa'), ('Nasa9', 'nasa'), ('Shomate', 'shomate')):
        for q in ('CpoR', 'HoRT', 'SoR', 'GoRT'):
            I, o = make(kind, 2)
            Ts, _ = temperatures(I, 2, 'array')
            Ts = [Ts[0], Ts[1], Ts[0]]
            arr = ListV(list(Ts))
            arr.is_array = True
            arr.dtype = 'caller'
            owner, fn = repo.find_method(o.ci, 'get_' + q)
            got = I.call_method(o, 'get_' + q, [], {'T': arr})
            untouched(I, o, kind, modname, q, arr, Ts, 'array with a repeated temperature', owner, fn)
            each = [I.call_method(o, 'get_' + q, [], {'T': t}) for t in Ts]
            ok = isinstance(got, ListV) and len(got) == 3 and all(same(x, y) for x, y in zip(got.items, each))
            run.check(ok, 'BRANCH-TWIN', '%s.%s.get_%s' % (modname, kind, q), 'array-vs-elementwise with a repeated temperature',
                      'for the array [T0, T1, T0] the result %s differs from element-by-element evaluation %s'
                      % (show(got, 200), show(ListV(each), 200)), owner.module, fn)
            n_bt += 1
    for kind, modname in (('Nasa', 'nasa'), ('Nasa9', 'nasa'), ('Shomate', 'shomate')):
        for q in ('CpoR', 'HoRT', 'SoR', 'GoRT'):
            con = '%s.%s.get_%s' % (modname, kind, q)
            bad = None
            compares = {}
            lengths = [(n, 'array') for n in range(1, max_len + 1)] + [(2, 'list')]
            done = set()
            while lengths:
                n, form = lengths.pop(0)
                done.add(n)
                I, o = make(kind, n, cls=LenWatch)
                Ts, arr = temperatures(I, n, form)
                owner, fn = repo.find_method(o.ci, 'get_' + q)
                del I.int_compares[:]
                got = I.call_method(o, 'get_' + q, [], {'T': arr})
                if form == 'array' and n <= max_len:
                    compares[n] = list(I.int_compares)
                hz = list(I.dtype_hazards)
                if n == 2 and form == 'array':
                    # the container of temperatures may hold integers (np.arange(300, 2000, 250)): a result
                    # buffer that takes its element type from it truncates every value stored into it
                    hm = repo.modules.get([mm for mm in repo.modules if repo.modules[mm].relpath == hz[0][1]][0]) \
                        if hz else owner.module
                    run.check(not hz, 'BRANCH-TWIN.dtype', con, 'integer temperatures',
                              'a result buffer is created with the element type of the caller\'s temperature '
                              'container and real values are stored into it: with integer temperatures the array '
                              'result is truncated and differs from element-by-element evaluation', hm,
                              hz[0][0] if hz else fn)
                untouched(I, o, kind, modname, q, arr, Ts, form, owner, fn)
                each = [I.call_method(o, 'get_' + q, [], {'T': t}) for t in Ts]
                if n == 1 and isinstance(got, (Rat, SumV)):
                    got = ListV([got])      # documented: size-1 input may come back as a scalar
                ok = isinstance(got, ListV) and len(got) == n and \
                    all(same(x, y) for x, y in zip(got.items, each))
                n_bt += 1
                if ok:
                    run.ok('BRANCH-TWIN', con,
                           '%s.get_%s([T0..T%d]) == [get_%s(Ti)]' % (kind, q, n - 1, q) if n == 3 else None)
                elif bad is None:
                    bad = (n, form, got, each)
                if not lengths and len(compares) == max_len:
                    # the getter compared the number of temperatures with a constant beyond the unrolled lengths:
                    # the lengths on either side of that constant are instances too
                    more = length_thresholds(compares, done)
                    compares = {}
                    if more and more[-1] > LONGEST:
                        raise Unsupported('%s.get_%s decides on the number of temperatures at %d: arrays of that '
                                          'length are not unrolled' % (kind, q, more[-1]))
                    lengths = [(m_, 'array') for m_ in more]
                    if more:
                        run.extra.setdefault('array lengths added at a dispatch on the length', {})[con] = more
            if bad is not None:
                n, form, got, each = bad
                wrong = [i for i, (x, y) in enumerate(zip(got.items, each)) if not same(x, y)] \
                    if isinstance(got, ListV) and len(got) == n else []
                at = ' (entries %s; entry %d: %s, on its own %s)' % (wrong[:6], wrong[0], show(got.items[wrong[0]], 90),
                                                                   show(each[wrong[0]], 90)) if wrong and n > 5 else ''
                run.fail('BRANCH-TWIN', con, 'array-vs-elementwise',
                         'for %s of %d temperatures the result %s differs from element-by-element '
                         'evaluation %s%s%s'
                         % ('an array' if form == 'array' else 'a list', n, show(got), show(ListV(each)), at,
                            ' (a 1-element array stored into a scalar slot raises in numpy)' if n == 1 else ''),
                         owner.module, fn)
    return n_bt


FLOAT_MAKERS = {'float', 'float64', 'double', 'float_', 'longdouble'}
FLOAT_TYPES = FLOAT_MAKERS | {'floating', 'float32', 'float16', 'half', 'single'}
FLOAT_RESULTS = {'log', 'log10', 'log2', 'log1p', 'exp', 'expm1', 'sqrt', 'divide', 'true_divide', 'float_power', 'mean',
                 'average', 'linspace'}
CARRIERS = {'array', 'asarray', 'asanyarray', 'squeeze', 'atleast_1d', 'ravel', 'copy', 'reshape', 'sort', 'abs',
            'absolute', 'negative', 'positive', 'unique', 'ones_like', 'zeros_like', 'full_like', 'flatten', 'item',
            'min', 'max', 'amin', 'amax', 'sum', 'cumsum', 'sorted', 'list', 'tuple', 'transpose', 'ascontiguousarray'}
RANK = {'float': 0, 'unknown': 1, 'carry': 2}


def _dtype_kind(node):
    """'float' / 'other' of a dtype= argument"""
    if isinstance(node, ast.Name):
        return 'float' if node.id in FLOAT_MAKERS else 'other'
    if isinstance(node, ast.Attribute):
        return 'float' if node.attr in FLOAT_MAKERS else 'other'
    if isinstance(node, ast.Constant) and isinstance(node.value, str):
        return 'float' if node.value.startswith(('float', 'f', 'd', 'double')) else 'other'
    return 'other'


class FuncVal:
    """a function met as a value (the argument of a decorator, what a decorator returns, a helper bound to a name): a
    def / lambda together with the scope it was defined in (None: module level) and the class whose method it is"""

    def __init__(self, m, node, closure=None, ci=None):
        self.m, self.node, self.closure, self.ci = m, node, closure, ci


class Scope:
    """what is known about the local names at one point of a function: the kind of number each holds, for names
    that hold whole-number constants (or a container of them) which, and for names that hold a function which"""

    def __init__(self, kinds=None, consts=None, funcs=None):
        self.k = dict(kinds or {})
        self.c = dict(consts or {})
        self.f = dict(funcs or {})

    def copy(self):
        return Scope(self.k, self.c, self.f)

    @staticmethod
    def join(scopes):
        scopes = [s_ for s_ in scopes if s_ is not None]
        if not scopes:
            return None
        out = Scope()
        for nm in set().union(*[set(s_.k) for s_ in scopes]):
            out.k[nm] = KindFlow.join(s_.k.get(nm, 'unknown') for s_ in scopes)
        for nm in set.intersection(*[set(s_.c) for s_ in scopes]):
            vals = [s_.c[nm] for s_ in scopes]
            if all(v is not None for v in vals):
                out.c[nm] = frozenset().union(*vals)
        for nm in set.intersection(*[set(s_.f) for s_ in scopes]):
            if all(s_.f[nm] is scopes[0].f[nm] for s_ in scopes):
                out.f[nm] = scopes[0].f[nm]
        return out


class KindFlow:
    """Which kind of number does an expression hold where it is evaluated: the caller's number with its type unchanged
    ('carry': an integer temperature is still an integer), a float whatever the caller passed ('float'), or something
    this analysis does not follow ('unknown')?  A forward flow over the statements of a function in execution order:
    assignments (also tuple-wise), both arms of a branch with what the test says about the type of a name
    (isinstance(x, float), type(x) is float) and the join where they meet, loops, comprehensions, conditional
    expressions, calls of functions and methods defined in the repository (with the kinds of the arguments at that
    call).  Every power met on the way is handed to ``on_power`` with the kind of its base and the whole numbers its
    exponent can be (None: not known)."""

    def __init__(self, repo, on_power, stop_at=()):
        self.repo = repo
        self.on_power = on_power
        self.stop_at = set(stop_at)      # ids of function definitions analysed on their own: not entered from a caller
        self.m = None
        self.ci = None
        self.rets = []
        self.retf = []
        self.last_fret = None            # the function the last call returned, when it returns one function on every path
        self.active = []

    @staticmethod
    def join(kinds):
        kinds = list(kinds)
        if not kinds:
            return 'unknown'
        if 'carry' in kinds:
            return 'carry'
        if all(k == 'float' for k in kinds):
            return 'float'
        return 'unknown'

    @staticmethod
    def join_bin(a, b, op):
        if isinstance(op, ast.Div):
            return 'float'
        if 'float' in (a, b):
            return 'float'
        if 'carry' in (a, b):
            return 'carry'
        return 'unknown'

    @staticmethod
    def flat(k):
        """one kind for a value that may be a tuple of kinds"""
        if isinstance(k, str):
            return k
        return KindFlow.join([KindFlow.flat(x) for x in k])

    # ---- functions -----------------------------------------------------------------------------------------------
    def function(self, m, fdef, scope, ci=None):
        """kind of what fdef returns when entered with ``scope``: one kind, or a tuple of kinds when every return
        statement returns a tuple display of the same length (``return np.asarray(a), float(T)``).  ``last_fret`` is the
        function it returns when it returns the same def / lambda on every path (a decorator)."""
        self.last_fret = None
        if id(fdef) in self.active or len(self.active) > 8:
            return 'unknown'
        saved = (self.m, self.ci)
        self.m, self.ci = m, ci
        self.active.append(id(fdef))
        self.rets.append([])
        self.retf.append([])
        fret = None
        try:
            if isinstance(fdef, ast.Lambda):
                self.rets[-1].append(self.ret_kind(fdef.body, scope))
                self.retf[-1].append(self.func_value(fdef.body, scope))
            else:
                self.block(fdef.body, scope)
            rets, retf = self.rets[-1], self.retf[-1]
            if retf and all(x is not None and x.node is retf[0].node for x in retf):
                fret = retf[0]
            if rets and all(isinstance(r_, tuple) and len(r_) == len(rets[0]) for r_ in rets):
                return tuple(self.join([self.flat(r_[i]) for r_ in rets]) for i in range(len(rets[0])))
            return self.join([self.flat(r_) for r_ in rets])
        finally:
            self.rets.pop()
            self.retf.pop()
            self.active.pop()
            self.m, self.ci = saved
            self.last_fret = fret

    def ret_kind(self, value, sc):
        if isinstance(value, ast.Tuple) and not any(isinstance(x, ast.Starred) for x in value.elts):
            return tuple(self.kind(x, sc) for x in value.elts)
        if isinstance(value, ast.Call):
            return self.call(value, sc)
        return self.kind(value, sc)

    def func_value(self, e, sc):
        """the function an expression denotes (FuncVal), None when it is not one this flow follows"""
        if isinstance(e, ast.Name):
            if e.id in sc.f:
                return sc.f[e.id]
            if e.id in sc.k or e.id in sc.c:
                return None
        if isinstance(e, ast.Lambda):
            return FuncVal(self.m, e, sc, self.ci)
        if isinstance(e, (ast.Name, ast.Attribute)) and not (
                isinstance(e, ast.Attribute) and isinstance(e.value, ast.Name) and e.value.id in sc.k):
            try:
                r = self.repo.resolve_expr(self.m, e)
            except Unsupported:
                return None
            if isinstance(r, tuple) and r[0] == 'function':
                return self.named(FuncVal(r[1], r[2]))
            if isinstance(r, tuple) and r[0] == 'value' and isinstance(r[2], ast.Lambda):
                return FuncVal(r[1], r[2])
        return None

    def named(self, fv):
        """what the name of a def of the repository stands for: what its decorators make of the def (None: not followed)"""
        if id(fv.node) in self.stop_at:
            return fv                   # an entry point of its own: never entered from here
        for d in reversed(fv.node.decorator_list):
            fv = self.decorate(fv.m, fv.ci, d, fv) if fv is not None else None
        return fv

    @staticmethod
    def _is_wraps(d):
        """functools.wraps(f) / functools.update_wrapper-style decorators hand the decorated function back"""
        if isinstance(d, ast.Call):
            f = d.func
            return (f.id if isinstance(f, ast.Name) else f.attr if isinstance(f, ast.Attribute) else None) == 'wraps'
        return False

    def apply(self, fv, argk, kwk, sc_args=None, star=None):
        """kind of what the function value fv returns for positional kinds argk / keyword kinds kwk.  sc_args:
        ([argument nodes], {keyword: node}, scope of the call) so that constants and functions passed as arguments are
        followed; star: kind of what ``*args`` / ``**kwargs`` of the call hold"""
        node = fv.node
        if id(node) in self.stop_at:
            self.last_fret = None
            return 'unknown'            # analysed as an entry point of its own, with every argument the caller's
        names, _, vararg, kwarg = params(node)
        sub_ = fv.closure.copy() if fv.closure is not None else Scope()
        for nm in list(names) + [x for x in (vararg, kwarg) if x]:
            sub_.k[nm] = star if star is not None else 'unknown'
            sub_.c.pop(nm, None)
            sub_.f.pop(nm, None)
        anodes, kwnodes, csc = sc_args if sc_args is not None else ([], {}, None)
        for i, (p_, a_) in enumerate(zip(names, argk)):
            sub_.k[p_] = self.flat(a_)
            if i < len(anodes) and csc is not None and not isinstance(anodes[i], ast.Starred):
                c_ = self.consts(anodes[i], csc)
                if c_ is not None:
                    sub_.c[p_] = c_
                fv_ = self.func_value(anodes[i], csc)
                if fv_ is not None:
                    sub_.f[p_] = fv_
        if vararg and len(argk) > len(names):
            sub_.k[vararg] = self.join([self.flat(x) for x in argk[len(names):]] + ([star] if star is not None else []))
        extra = []
        for nm, k_ in kwk.items():
            if nm in names:
                sub_.k[nm] = self.flat(k_)
                if csc is not None and nm in kwnodes:
                    c_ = self.consts(kwnodes[nm], csc)
                    if c_ is not None:
                        sub_.c[nm] = c_
                    fv_ = self.func_value(kwnodes[nm], csc)
                    if fv_ is not None:
                        sub_.f[nm] = fv_
            else:
                extra.append(self.flat(k_))
        if kwarg and extra:
            sub_.k[kwarg] = self.join(extra + ([star] if star is not None else []))
        return self.function(fv.m, node, sub_, fv.ci)

    def decorate(self, m, ci, dec, fv):
        """the function value that ``@dec`` makes of the function value fv, None when this flow does not follow it"""
        if self._is_wraps(dec):
            return fv
        if isinstance(dec, (ast.Name, ast.Attribute)) and ast.unparse(dec) in ('staticmethod', 'classmethod'):
            return fv
        saved = (self.m, self.ci)
        self.m, self.ci = m, ci
        try:
            d = self.func_value(dec, Scope())
            if d is None and isinstance(dec, ast.Call):
                self.kind(dec, Scope())             # a decorator factory: the function its call returns
                d = self.last_fret
            if d is None:
                return None
            names = params(d.node)[0]
            if not names:
                return None
            sub_ = d.closure.copy() if d.closure is not None else Scope()
            for nm in names:
                sub_.k[nm] = 'unknown'
                sub_.c.pop(nm, None)
                sub_.f.pop(nm, None)
            sub_.f[names[0]] = fv
            self.function(d.m, d.node, sub_, d.ci)
            return self.last_fret
        finally:
            self.m, self.ci = saved

    # ---- statements ----------------------------------------------------------------------------------------------
    def block(self, stmts, sc):
        for st in stmts:
            if sc is None:
                return None
            sc = self.stmt(st, sc)
        return sc

    def stmt(self, st, sc):
        if isinstance(st, ast.Assign):
            for t in st.targets:
                self.bind_value(t, st.value, sc)
            return sc
        if isinstance(st, ast.AnnAssign):
            if st.value is not None:
                self.bind_value(st.target, st.value, sc)
            return sc
        if isinstance(st, ast.AugAssign):
            k = self.kind(st.value, sc)
            if isinstance(st.target, ast.Name):
                if isinstance(st.op, ast.Pow):
                    self.power(st, st.target, st.value, sc.k.get(st.target.id, 'unknown'), sc)
                sc.k[st.target.id] = self.join_bin(sc.k.get(st.target.id, 'unknown'), k, st.op)
                sc.c.pop(st.target.id, None)
            else:
                self.kind(st.target, sc)
            return sc
        if isinstance(st, ast.Return):
            fv = self.func_value(st.value, sc) if st.value is not None else None
            self.rets[-1].append(self.ret_kind(st.value, sc) if st.value is not None else 'unknown')
            self.retf[-1].append(fv)
            return None
        if isinstance(st, ast.Raise):
            if st.exc is not None:
                self.kind(st.exc, sc)
            return None
        if isinstance(st, (ast.Break, ast.Continue)):
            return None
        if isinstance(st, ast.Expr):
            self.kind(st.value, sc)
            return sc
        if isinstance(st, ast.If):
            t, f = self.refine(st.test, sc)
            return Scope.join([self.block(st.body, t), self.block(st.orelse, f)])
        if isinstance(st, (ast.For, ast.While)):
            entry = sc
            for _ in range(2):          # kinds only move up; a second pass sees what the first pass assigned
                cur = entry.copy()
                if isinstance(st, ast.For):
                    self.bind(st.target, self.elem_kind(st.iter, cur), cur, self.consts(st.iter, cur))
                else:
                    self.kind(st.test, cur)
                out = self.block(st.body, cur)
                entry = Scope.join([entry, out]) or entry
            return Scope.join([entry, self.block(st.orelse, entry.copy())]) or entry
        if isinstance(st, ast.With):
            for it in st.items:
                self.kind(it.context_expr, sc)
                if it.optional_vars is not None:
                    self.bind(it.optional_vars, 'unknown', sc)
            return self.block(st.body, sc)
        if isinstance(st, ast.Try):
            body = self.block(st.body, sc.copy())
            mid = Scope.join([sc, body]) or sc
            outs = [self.block(st.orelse, body.copy()) if body is not None else None]
            for h in st.handlers:
                hs = mid.copy()
                if h.name:
                    hs.k[h.name] = 'unknown'
                outs.append(self.block(h.body, hs))
            out = Scope.join(outs)
            if st.finalbody:
                out = self.block(st.finalbody, out if out is not None else mid.copy())
            return out
        if isinstance(st, (ast.FunctionDef, ast.ClassDef, ast.Lambda)):
            if isinstance(st, ast.FunctionDef):
                sc.k[st.name] = 'unknown'
                sc.c.pop(st.name, None)
                fv = FuncVal(self.m, st, sc, self.ci)      # the scope itself: a closure sees what is bound later
                for d in reversed(st.decorator_list):
                    fv = self.decorate(self.m, self.ci, d, fv) if fv is not None else None
                if fv is not None:
                    sc.f[st.name] = fv
                else:
                    sc.f.pop(st.name, None)
            return sc
        for ch in ast.iter_child_nodes(st):
            if isinstance(ch, ast.expr):
                self.kind(ch, sc)
        return sc

    def bind_value(self, target, value, sc):
        if isinstance(target, (ast.Tuple, ast.List)) and isinstance(value, (ast.Tuple, ast.List)) and \
                len(target.elts) == len(value.elts) and not any(isinstance(x, ast.Starred) for x in target.elts + value.elts):
            vals = [(self.kind(v, sc), self.consts(v, sc)) for v in value.elts]     # the right side first, as Python does
            for t, (k, c_) in zip(target.elts, vals):
                self.bind(t, k, sc, c_)
            return
        if isinstance(target, (ast.Tuple, ast.List)) and isinstance(value, ast.Call):
            self.bind(target, self.call(value, sc), sc)         # a helper that returns several values: one kind each
            return
        fv = self.func_value(value, sc) if isinstance(target, ast.Name) else None
        self.bind(target, self.kind(value, sc), sc, self.consts(value, sc))
        if fv is not None:
            sc.f[target.id] = fv

    def bind(self, target, k, sc, consts=None):
        if isinstance(target, ast.Name):
            sc.k[target.id] = self.flat(k)
            sc.f.pop(target.id, None)
            if consts is not None:
                sc.c[target.id] = consts
            else:
                sc.c.pop(target.id, None)
        elif isinstance(target, (ast.Tuple, ast.List)):
            ks = list(k) if isinstance(k, tuple) and len(k) == len(target.elts) else \
                [self.flat(k)] * len(target.elts)
            for t, kk in zip(target.elts, ks):
                self.bind(t, kk, sc)
        elif isinstance(target, ast.Starred):
            self.bind(target.value, k, sc)
        else:
            self.kind(target, sc)       # a store into a container / an attribute: only the powers inside are looked at

    def elem_kind(self, it, sc):
        """kind(s) of one element of an iterable"""
        if isinstance(it, ast.Call) and isinstance(it.func, ast.Name) and it.func.id == 'enumerate' and it.args:
            return ('unknown', self.elem_kind(it.args[0], sc))
        if isinstance(it, ast.Call) and isinstance(it.func, ast.Name) and it.func.id == 'zip':
            return tuple(self.elem_kind(a, sc) for a in it.args)
        if isinstance(it, ast.Call) and isinstance(it.func, ast.Name) and it.func.id == 'range':
            for a in it.args:
                self.kind(a, sc)
            return 'unknown'
        k = self.kind(it, sc)
        return k

    # ---- what a test says about types ----------------------------------------------------------------------------
    @staticmethod
    def _float_types(node):
        if isinstance(node, (ast.Tuple, ast.List)):
            return bool(node.elts) and all(KindFlow._float_types(x) for x in node.elts)
        if isinstance(node, ast.Name):
            return node.id in FLOAT_TYPES
        if isinstance(node, ast.Attribute):
            return node.attr in FLOAT_TYPES
        return False

    def refine(self, test, sc):
        """(scope where the test holds, scope where it does not)"""
        self.kind(test, sc)
        return self._refine(test, sc.copy(), sc.copy())

    def _refine(self, test, t, f):
        if isinstance(test, ast.UnaryOp) and isinstance(test.op, ast.Not):
            f2, t2 = self._refine(test.operand, f, t)
            return t2, f2
        if isinstance(test, ast.BoolOp):
            for v in test.values:
                if isinstance(test.op, ast.And):
                    t, _ = self._refine(v, t, t.copy())
                else:
                    _, f = self._refine(v, f.copy(), f)
            return t, f
        if isinstance(test, ast.Call) and isinstance(test.func, ast.Name) and test.func.id == 'isinstance' \
                and len(test.args) == 2 and isinstance(test.args[0], ast.Name) and self._float_types(test.args[1]):
            t.k[test.args[0].id] = 'float'
            return t, f
        if isinstance(test, ast.Compare) and len(test.ops) == 1 and isinstance(test.left, ast.Call) and \
                isinstance(test.left.func, ast.Name) and test.left.func.id == 'type' and len(test.left.args) == 1 and \
                isinstance(test.left.args[0], ast.Name) and self._float_types(test.comparators[0]):
            if isinstance(test.ops[0], (ast.Is, ast.Eq)):
                t.k[test.left.args[0].id] = 'float'
            elif isinstance(test.ops[0], (ast.IsNot, ast.NotEq)):
                f.k[test.left.args[0].id] = 'float'
            return t, f
        return t, f

    # ---- whole-number constants ------------------------------------------------------------------------------------
    def consts(self, e, sc, depth=0):
        """the whole numbers an expression (or the entries of a container) can be, None when not known"""
        if isinstance(e, ast.Constant):
            return frozenset([e.value]) if isinstance(e.value, int) and not isinstance(e.value, bool) else None
        if isinstance(e, ast.UnaryOp) and isinstance(e.op, (ast.USub, ast.UAdd)):
            v = self.consts(e.operand, sc, depth)
            return None if v is None else frozenset(-x if isinstance(e.op, ast.USub) else x for x in v)
        if isinstance(e, ast.BinOp) and isinstance(e.op, (ast.Add, ast.Sub, ast.Mult)):
            l, r = self.consts(e.left, sc, depth), self.consts(e.right, sc, depth)
            if l is None or r is None or len(l) * len(r) > 400:
                return None
            op = {ast.Add: lambda x, y: x + y, ast.Sub: lambda x, y: x - y, ast.Mult: lambda x, y: x * y}[type(e.op)]
            return frozenset(op(x, y) for x in l for y in r)
        if isinstance(e, ast.Name):
            if e.id in sc.k or e.id in sc.c:
                return sc.c.get(e.id)
            vals = self.m.assigns.get(e.id) if self.m is not None else None
            if vals and len(vals) == 1 and depth < 4:
                return self.consts(vals[0], Scope(), depth + 1)
            return None
        if isinstance(e, (ast.List, ast.Tuple, ast.Set)):
            out = frozenset()
            for x in e.elts:
                v = self.consts(x, sc, depth)
                if v is None:
                    return None
                out |= v
            return out
        if isinstance(e, ast.Call):
            f = e.func
            fname = f.id if isinstance(f, ast.Name) else f.attr if isinstance(f, ast.Attribute) else None
            if fname in ('range', 'arange') and 1 <= len(e.args) <= 3 and not e.keywords:
                vs = [self.consts(a, sc, depth) for a in e.args]
                if all(v is not None and len(v) == 1 for v in vs):
                    nums = [next(iter(v)) for v in vs]
                    if len(nums) < 3 or nums[2] != 0:
                        r = range(*nums)
                        return frozenset(r) if len(r) <= 400 else None
                return None
            if fname in ('array', 'asarray', 'list', 'tuple', 'sorted', 'reversed', 'int') and len(e.args) == 1:
                return self.consts(e.args[0], sc, depth)
        return None

    # ---- expressions -----------------------------------------------------------------------------------------------
    def power(self, node, base, exp, base_kind, sc):
        exps = self.consts(exp, sc)
        if exps is None and self.kind_quiet(exp, sc) == 'float':
            return                      # a float exponent makes the result a float for every base
        self.on_power(self.m, node, base, base_kind, exps)

    def kind_quiet(self, e, sc):
        saved, self.on_power = self.on_power, (lambda *a: None)
        try:
            return self.kind(e, sc)
        finally:
            self.on_power = saved

    def comprehension(self, e, sc):
        inner = sc.copy()
        for g in e.generators:
            self.bind(g.target, self.elem_kind(g.iter, inner), inner, self.consts(g.iter, inner))
            for cond in g.ifs:
                inner, _ = self.refine(cond, inner)
        return inner

    def kind(self, e, sc):
        if e is None:
            return 'unknown'
        if isinstance(e, ast.Constant):
            return 'float' if isinstance(e.value, float) else 'unknown'
        if isinstance(e, ast.Name):
            return sc.k.get(e.id, 'unknown')
        if isinstance(e, (ast.List, ast.Tuple, ast.Set)):
            return self.join([self.kind(x, sc) for x in e.elts])
        if isinstance(e, ast.Starred):
            return self.kind(e.value, sc)
        if isinstance(e, ast.UnaryOp):
            return self.kind(e.operand, sc)
        if isinstance(e, ast.BinOp):
            l, r = self.kind(e.left, sc), self.kind(e.right, sc)
            if isinstance(e.op, ast.Pow):
                self.power(e, e.left, e.right, l, sc)
            return self.join_bin(l, r, e.op)
        if isinstance(e, ast.IfExp):
            t, f = self.refine(e.test, sc)
            return self.join([self.kind(e.body, t), self.kind(e.orelse, f)])
        if isinstance(e, ast.Subscript):
            self.kind(e.slice, sc)
            return self.kind(e.value, sc)
        if isinstance(e, (ast.ListComp, ast.GeneratorExp, ast.SetComp)):
            return self.kind(e.elt, self.comprehension(e, sc))
        if isinstance(e, ast.DictComp):
            inner = self.comprehension(e, sc)
            self.kind(e.key, inner)
            return self.kind(e.value, inner)
        if isinstance(e, ast.NamedExpr):
            k = self.kind(e.value, sc)
            self.bind(e.target, k, sc, self.consts(e.value, sc))
            return k
        if isinstance(e, ast.Call):
            return self.flat(self.call(e, sc))
        if isinstance(e, ast.Lambda):
            return 'unknown'
        for ch in ast.iter_child_nodes(e):
            if isinstance(ch, ast.expr):
                self.kind(ch, sc)
        return 'unknown'

    def call(self, e, sc):
        f = e.func
        fname = f.id if isinstance(f, ast.Name) else f.attr if isinstance(f, ast.Attribute) else None
        recv = self.kind(f.value, sc) if isinstance(f, ast.Attribute) else None
        if not isinstance(f, (ast.Name, ast.Attribute)):
            self.kind(f, sc)
        self.last_fret = None
        argk = [self.kind(a, sc) for a in e.args]
        kwk = {kw.arg: self.kind(kw.value, sc) for kw in e.keywords}
        if fname == 'pow' and isinstance(f, ast.Attribute):
            return 'float'              # math.pow: a float for every kind of argument
        if fname in ('pow', 'power') and len(e.args) >= 2:
            self.power(e, e.args[0], e.args[1], argk[0], sc)
            return self.join_bin(argk[0], argk[1], ast.Pow())
        for kw in e.keywords:
            if kw.arg == 'dtype':
                return 'float' if _dtype_kind(kw.value) == 'float' else 'unknown'
        target = None
        if isinstance(f, ast.Name) and f.id in sc.f:
            target = sc.f[f.id]         # a nested def, a lambda, a function received as an argument
        elif isinstance(f, ast.Attribute) and isinstance(f.value, ast.Name) and f.value.id in ('self', 'cls') \
                and self.ci is not None and f.value.id not in sc.k:
            got = self.repo.find_method(self.ci, f.attr, missing_ok=True)
            if got:
                target = self.named(FuncVal(got[0].module, got[1], None, got[0]))
                if target is None:
                    return 'unknown'
        elif isinstance(f, (ast.Name, ast.Attribute)) and not (isinstance(f, ast.Name) and f.id in sc.k):
            r = self.repo.resolve_expr(self.m, f)
            if isinstance(r, tuple) and r[0] == 'function':
                target = self.named(FuncVal(r[1], r[2]))
            elif isinstance(r, tuple) and r[0] == 'method':
                target = self.named(FuncVal(r[1].module, r[2], None, r[1]))
            elif isinstance(r, tuple) and r[0] == 'value' and isinstance(r[2], ast.Lambda):
                target = FuncVal(r[1], r[2])
            if target is None and isinstance(r, tuple) and r[0] in ('function', 'method'):
                return 'unknown'
        if target is not None:
            stars = [k_ for a_, k_ in zip(e.args, argk) if isinstance(a_, ast.Starred)] + \
                ([kwk[None]] if None in kwk else [])
            pos_k = []
            for a_, k_ in zip(e.args, argk):
                if isinstance(a_, ast.Starred):
                    break
                pos_k.append(k_)
            return self.apply(target, pos_k, {k_: v_ for k_, v_ in kwk.items() if k_ is not None},
                              (list(e.args), {kw.arg: kw.value for kw in e.keywords if kw.arg}, sc),
                              self.join(stars) if stars else None)
        if fname in FLOAT_MAKERS or fname in FLOAT_RESULTS:
            return 'float'
        if fname == 'astype' and e.args:
            return 'float' if _dtype_kind(e.args[0]) == 'float' else 'unknown'
        if fname in CARRIERS:
            if isinstance(f, ast.Attribute) and recv is not None and not (
                    isinstance(f.value, ast.Name) and f.value.id not in sc.k):
                return recv             # a method of the value itself: T.squeeze(), T.copy()
            if argk:
                return argk[0]
        return 'unknown'


def integer_temperatures(run, repo):
    """numpy refuses a negative integer power of an integer: an evaluator that raises its temperature argument to such a
    power without first making it a float cannot be evaluated at T=300 / np.arange(...) temperatures, which the sibling
    evaluators accept.  Decided for every public evaluator and getter of the two modules by a forward flow of number kinds
    (KindFlow) from its arguments - which hold the caller's numbers as they are - to the base of every power whose
    exponent can be a negative whole number.  Returns (instances, {construct: powers decided in it})."""
    n = 0
    entries = []
    for modname in (NASA, SHO):
        m = repo.module(modname)
        short = modname.split('.')[-1]
        for fname in sorted(set(m.functions) | set(m.aliases)):
            if fname.startswith('get_'):
                r = repo.lookup(m, fname)           # defined in the module or imported into it
                if isinstance(r, tuple) and r[0] == 'function':
                    entries.append(('%s.%s' % (short, fname), r[1], r[2], None))
        for cname, ci in sorted(m.classes.items()):
            for mname, fn in sorted(ci.methods.items()):
                if mname.startswith('get_') and '.' not in mname:
                    entries.append(('%s.%s.%s' % (short, cname, mname), m, fn, ci))
    stop = {id(fn) for _, _, fn, _ in entries}
    decided = {}
    for con, m, fn, ci in entries:
        sites = {}

        def on_power(pm, node, base, kind, exps, sites=sites):
            if exps is not None and not any(x < 0 for x in exps):
                return
            key = (pm.relpath, node.lineno, node.col_offset)
            how = 'neg' if exps is not None else 'open'
            old = sites.get(key)
            if old is None or RANK[kind] > RANK[old[2]]:
                sites[key] = (pm, node, kind, how, base)
        flow = KindFlow(repo, on_power, stop_at=stop - {id(fn)})
        # what is called under the evaluator's name is what its decorators make of it; every argument of that
        # holds the caller's number as it is
        entry = FuncVal(m, fn, None, ci)
        for d in reversed(fn.decorator_list):
            entry = flow.decorate(m, ci, d, entry) if entry is not None else None
        if entry is None:
            # a decorator this flow does not follow: nothing is known about what reaches the evaluator
            flow.function(m, fn, Scope(), ci)
        else:
            names, _, vararg, kwarg = params(entry.node)
            flow.apply(entry, ['carry'] * len(names), {}, None, 'carry')
        decided[con] = 0
        for key in sorted(sites):
            pm, node, kind, how, base = sites[key]
            where = '%s:%d' % (pm.relpath, node.lineno)
            if how == 'open':
                if kind == 'carry':
                    run.extra.setdefault('powers of an argument whose exponent was not followed', []).append(where)
                continue
            if kind == 'unknown':
                run.extra.setdefault('negative powers whose base was not followed', []).append(where)
                continue
            n += 1
            decided[con] += 1
            run.check(kind == 'float', 'TYPE.negpow', con, 'integer temperatures',
                      '%s is raised to a negative integer power and holds the caller\'s value with its type '
                      'unchanged: numpy refuses this for integer temperatures (T=300 reaches here as np.int64), '
                      'so the species cannot be evaluated there although its sibling evaluators can'
                      % ast.unparse(base), pm, node)
    return n, decided


def negpow_guard(decided, neg_events):
    """neg_events: evaluator -> number of negative whole powers of T the interpreter computed in it; an evaluator for
    which the number-kind flow found none of them is spelled in a way the flow does not follow"""
    for con, cnt in sorted(neg_events.items()):
        if cnt and not decided.get(con):
            raise Unsupported('%s computes %d negative whole power(s) of T, none of which the number-kind flow of '
                              'TYPE.negpow found: spelled in a way the flow does not follow' % (con, cnt))


def check(run, repo):
    run.explanation = (
        'Abstract interpretation of the polynomial evaluators and getters of pmutt/empirical/nasa.py and '
        'shomate.py into exact rational normal forms over symbolic coefficients a[i], T, units; the model species are '
        'made by their own constructors. Decided for '
        'ALL coefficient vectors and temperatures at once: linearity in a; d(T*HoRT)/dT == CpoR and '
        'dSoR/dT == CpoR/T slot by slot; one H- and one S-integration-constant slot; GoRT == HoRT - SoR '
        'with identical arguments; Nasa.get_a on the 7 orderings of T against T_low<T_mid<T_high; '
        'the NASA-9 segment selection on every position of T relative to 1-4 segments (refusal outside; through all four '
        'getters for two segments, through get_CpoR otherwise); class getters use '
        'the containing segment, also when the segments are listed from high to low (all four getters) or leave a gap; '
        'concrete temperatures on a bound and 2^-30 K next to it, asked for one after the other on one species and in one '
        'array, are evaluated with the segment that contains them (nothing coarser than the temperature itself may '
        'identify it), for bounds at whole kelvins and for bounds 5.3e-8 K above them (a bound that is rounded or kept '
        'with a fixed number of decimals is another bound; the segments report the bounds they were given); a second species evaluated after another one at the same temperature, and a species whose '
        'segments / coefficients / break temperature were replaced, report their own current polynomial (reference: the '
        'evaluator in an interpreter of its own); array evaluation '
        'equals element-wise evaluation (bounded unrolling, arrays and a list, the temperatures pairwise different, '
        'unsorted and starting with a descent for all three classes, also with an attached model and with a temperature '
        'that occurs twice; when a getter compares the number of '
        'temperatures with a constant, the lengths on both sides of that constant are unrolled as well); a getter leaves '
        'the temperatures it was given as they were; a result buffer must not take its element type from the '
        'caller\'s temperature container, and a temperature argument is not raised to a negative integer power before '
        'it is made a float (integer temperatures; forward flow of number kinds through every public evaluator and getter - '
        'entered through what its decorators make of it, helpers that return several values followed value by value - '
        'cross-checked against the negative powers the interpreter computed).')
    run.assumptions = ['identities are over the reals (IEEE rounding not modelled)',
                       'scalar/array agreement is decided for array lengths up to the stated bound and next to every '
                       'constant the number of temperatures is compared with; the loops are uniform in the index',
                       'neighbours of a bound are 2^-30 K away: a resolution finer than that is not told apart from exact']
    run.undecided = ['floating-point agreement beyond the identity over the reals',
                     'behaviour for non-numeric T']
    thorough = run.tier == 'thorough'
    # decided on the syntax tree alone, so before anything that may leave the interpreted fragment
    run.extra['negative integer powers of an argument'], decided = integer_temperatures(run, repo)
    shomate_units(run, repo, ('J/mol/K', 'kJ/mol/K', 'cal/mol/K', 'kcal/mol/K', 'eV/K'))
    run.floor('temperatures next to a bound', neighbour_rules(run, repo), 130)
    fams = {}
    fams['nasa'] = slot_rules(run, repo, 'nasa', NASA, 'get_nasa_', 7)
    fams['nasa9'] = slot_rules(run, repo, 'nasa9', NASA, 'get_nasa9_', 9)
    fams['shomate'] = slot_rules(run, repo, 'shomate', SHO, 'get_shomate_', 8)
    neg = {}
    for fam in fams.values():
        neg.update(fam['neg'])
    negpow_guard(decided, neg)
    check_get_a(run, repo)
    n = check_get_nasa(run, repo, 4 if thorough else 3)
    run.floor('Nasa9 segment-selection positions', n, 80)
    class_rules(run, repo)
    run.floor('species evaluated after another one / after their data were replaced', state_rules(run, repo), 36)
    nbt = array_rules(run, repo, 5 if thorough else 3)
    run.floor('BRANCH-TWIN instances', nbt, 72)
    run.extra['array_length_bound'] = 5 if thorough else 3



N = 'pmutt/empirical/nasa.py'
S = 'pmutt/empirical/shomate.py'
MUTANTS = [
    {'name': 'Shomate entropy evaluated in the default unit', 'expect': ('SEGMENT.use', 'Shomate.get_SoR'),
     'edits': [('pmutt/empirical/shomate.py', "        SoR = get_shomate_SoR(a=self.a, T=T, units=self.units)", "        SoR = get_shomate_SoR(a=self.a, T=T, units='J/mol/K')")]},
    {'name': 'NASA-9 enthalpy falls back to the first segment outside every segment', 'expect': ('PATH.refuse', 'Nasa9.get_HoRT'),
     'edits': [('pmutt/empirical/nasa.py', "            nasa = self._get_nasa(T=T)\n            HoRT = nasa.get_HoRT(T=T) \\", "            try:\n                nasa = self._get_nasa(T=T)\n            except ValueError:\n                nasa = self.nasas[0]\n            HoRT = nasa.get_HoRT(T=T) \\")]},
    {'name': 'nasa HoRT T^3/4 -> T^3/3', 'expect': ('DERIV', 'get_nasa_HoRT'),
     'edits': [(N, '[np.ones_like(T), T / 2., (T**2) / 3., (T**3) / 4., (T**4) / 5.,',
                '[np.ones_like(T), T / 2., (T**2) / 3., (T**3) / 3., (T**4) / 5.,')]},
    {'name': 'nasa9 SoR sign of T^-1 slot', 'expect': ('DERIV', 'get_nasa9_SoR'),
     'edits': [(N, '-(T**-2) / 2., -(T**-1),', '-(T**-2) / 2., (T**-1),')]},
    {'name': 'nasa9 HoRT ln(T)/T -> ln(T)', 'expect': ('DERIV', 'get_nasa9_HoRT'),
     'edits': [(N, 'np.log(T) / T, np.ones_like(T), T / 2.,', 'np.log(T), np.ones_like(T), T / 2.,')]},
    {'name': 'get_a < -> <=', 'expect': ('ORDER.get_a', 'get_a'),
     'edits': [(N, 'if T < self.T_mid:', 'if T <= self.T_mid:')]},
    {'name': '_get_nasa >= T_low -> >', 'expect': ('', 'segment selection'),
     'edits': [(N, 'if T <= nasa.T_high and T >= nasa.T_low:', 'if T <= nasa.T_high and T > nasa.T_low:')]},
    {'name': '_get_nasa for-else raise removed (falls through to last segment)', 'expect': ('PATH.refuse', 'segment selection'),
     'edits': [(N, "                                                  self.T_high))\n            raise ValueError(err_msg)",
                "                                                  self.T_high))\n            return nasa")]},
    {'name': 'Nasa.get_SoR array branch picks segment from T[0]', 'expect': ('BRANCH-TWIN', 'Nasa.get_SoR'),
     'edits': [(N, 'a = self.get_a(T=T_i)', 'a = self.get_a(T=T[0])', 1, 2)]},
    {'name': 'Nasa.get_CpoR buffer one short', 'expect': ('BRANCH-TWIN', 'Nasa.get_CpoR'),
     'edits': [(N, 'CpoR = np.zeros(len(T))', 'CpoR = np.zeros(len(T) - 1)', 0, 2)]},
    {'name': 'shomate SoR E-slot factor', 'expect': ('DERIV', 'get_shomate_SoR'),
     'edits': [(S, '-1. / 2. / x**2, 0., 1., 0.]', '-1. / x**2, 0., 1., 0.]')]},
    {'name': 'shomate GoRT uses H+S', 'expect': ('TWIN', 'get_shomate_GoRT'),
     'edits': [(S, '        - get_shomate_SoR(a=a, T=T, units=units)', '        + get_shomate_SoR(a=a, T=T, units=units)')]},
    {'name': 'Nasa.get_GoRT drops S_elements', 'expect': ('TWIN', 'Nasa.get_GoRT'),
     'edits': [(N, '                           S_elements=S_elements, **kwargs)', '                           **kwargs)', 0, 2)]},
    {'name': 'nasa9 CpoR negative integer powers of the raw argument', 'expect': ('TYPE.negpow', 'get_nasa9_CpoR'),
     'edits': [(N, 'T_arr = np.array([1. / T**2, 1. / T, np.ones_like(T), T, T**2, T**3, T**4,',
                'T_arr = np.array([T**-2, T**-1, np.ones_like(T), T, T**2, T**3, T**4,')]},
    {'name': 'nasa9 HoRT no longer made a float', 'expect': ('TYPE.negpow', 'get_nasa9_HoRT'),
     'edits': [(N, 'T = float(np.squeeze(T))', 'T = np.squeeze(T)', 0, 2)]},
    # white-box round 2
    {'name': 'NASA-9 enthalpy takes the last listed segment from its lower bound upwards',
     'expect': ('ORDER.segment', 'Nasa9.get_HoRT'),
     'edits': [(N, "            nasa = self._get_nasa(T=T)\n            HoRT = nasa.get_HoRT(T=T) \\",
                "            nasa = self.nasas[-1] if T >= self.nasas[-1].T_low else self._get_nasa(T=T)\n"
                "            HoRT = nasa.get_HoRT(T=T) \\")]},
    {'name': 'NASA-9 segment memo declared in the class body (shared by all species)',
     'expect': ('EFFECT.state', 'Nasa9.get_'),
     'edits': [(N, "    def _get_nasa(self, T):\n", "    _segment_cache = {}\n\n    def _get_nasa(self, T):\n"),
               (N, "        for nasa in self.nasas:\n            if T <= nasa.T_high and T >= nasa.T_low:\n                return nasa\n",
                "        try:\n            return self._segment_cache[T]\n        except KeyError:\n            pass\n"
                "        for nasa in self.nasas:\n            if T <= nasa.T_high and T >= nasa.T_low:\n"
                "                self._segment_cache[T] = nasa\n                return nasa\n")]},
    {'name': 'NASA-9 segment memo of the species keyed by the temperature printed with two decimals',
     'expect': ('ORDER.segment', 'Nasa9.get_'),
     'edits': [(N, "        self._nasas = copy(val)\n", "        self._nasas = copy(val)\n        self._segment_of = {}\n"),
               (N, "        for nasa in self.nasas:\n            if T <= nasa.T_high and T >= nasa.T_low:\n                return nasa\n",
                "        key = '{:.2f}'.format(T)\n        try:\n            return self._segment_of[key]\n"
                "        except KeyError:\n            pass\n"
                "        for nasa in self.nasas:\n            if T <= nasa.T_high and T >= nasa.T_low:\n"
                "                self._segment_of[key] = nasa\n                return nasa\n")]},
    {'name': 'NASA-9 segment memo of the species not emptied when the segments are replaced',
     'expect': ('EFFECT.state', 'Nasa9.get_'),
     'edits': [(N, "        self.nasas = nasas\n", "        self._segment_of = {}\n        self.nasas = nasas\n"),
               (N, "        for nasa in self.nasas:\n            if T <= nasa.T_high and T >= nasa.T_low:\n                return nasa\n",
                "        try:\n            return self._segment_of[T]\n        except KeyError:\n            pass\n"
                "        for nasa in self.nasas:\n            if T <= nasa.T_high and T >= nasa.T_low:\n"
                "                self._segment_of[T] = nasa\n                return nasa\n")]},
    {'name': 'NASA-7 coefficient memo declared in the class body', 'expect': ('EFFECT.state', 'Nasa.get_'),
     'edits': [(N, "    def get_a(self, T):\n", "    _a_of = {}\n\n    def get_a(self, T):\n"),
               (N, "        if T < self.T_mid:\n", "        if T in self._a_of:\n            return self._a_of[T]\n        if T < self.T_mid:\n"),
               (N, "            return self.a_low\n", "            self._a_of[T] = self.a_low\n            return self.a_low\n"),
               (N, "            return self.a_high\n", "            self._a_of[T] = self.a_high\n            return self.a_high\n")]},
    {'name': 'NASA-7 Cp of 32 or more temperatures by array expressions, T_mid itself in the low segment',
     'expect': ('BRANCH-TWIN', 'Nasa.get_CpoR'),
     'edits': [(N, "        if _is_iterable(T):\n            CpoR = np.zeros(len(T))\n",
                "        if _is_iterable(T) and len(T) >= 32:\n"
                "            a = np.array([self.a_high if T_i > self.T_mid else self.a_low for T_i in T])\n"
                "            T = np.asarray(T, dtype=np.double)\n"
                "            CpoR = a[:, 0] + a[:, 1] * T + a[:, 2] * T**2 + a[:, 3] * T**3 + a[:, 4] * T**4\n"
                "        elif _is_iterable(T):\n            CpoR = np.zeros(len(T))\n", 0, 2)]},
    {'name': 'NASA-9 entropy buffer is the caller\'s temperature array', 'expect': ('EFFECT.argument', 'Nasa9.get_SoR'),
     'edits': [(N, "SoR = np.zeros_like(a=T, dtype=np.double)", "SoR = np.asarray(T, dtype=np.double)", 1, 2)]},
    {'name': 'nasa9 CpoR powers of the raw argument through a comprehension', 'expect': ('TYPE.negpow', 'get_nasa9_CpoR'),
     'edits': [(N, 'T_arr = np.array([1. / T**2, 1. / T, np.ones_like(T), T, T**2, T**3, T**4,\n'
                   '                      np.zeros_like(T), np.zeros_like(T)])',
                'T_arr = np.array([T**n for n in range(-2, 5)] + [np.zeros_like(T), np.zeros_like(T)])')]},
    # white-box round 3
    {'name': 'Shomate range check sorts the temperatures it is given (the getter\'s own copy) in place',
     'expect': ('BRANCH-TWIN', 'Shomate.get_'),
     'edits': [(S, "    def _check_T(self, T):\n        for T_i in T:\n", "    def _check_T(self, T):\n        T.sort()\n        for T_i in T:\n")]},
    {'name': 'Shomate Cp evaluated on the sorted temperatures', 'expect': ('BRANCH-TWIN', 'Shomate.get_CpoR'),
     'edits': [(S, "        T = np.array(T)\n        self._check_T(T)\n", "        T = np.sort(np.array(T))\n        self._check_T(T)\n", 0, 3)]},
    {'name': 'NASA-7 enthalpy array branch keeps the high-temperature coefficients once T_mid was passed',
     'expect': ('BRANCH-TWIN', 'Nasa.get_HoRT'),
     'edits': [(N, "            for i, T_i in enumerate(T):\n                a = self.get_a(T=T_i)\n",
                "            above_T_mid = False\n            for i, T_i in enumerate(T):\n"
                "                if not above_T_mid:\n                    a = self.get_a(T=T_i)\n"
                "                    above_T_mid = T_i >= self.T_mid\n", 0, 2)]},
    {'name': 'Shomate enthalpy adds the attached-model sum of the last temperature to every entry',
     'expect': ('BRANCH-TWIN', 'Shomate.get_HoRT'),
     'edits': [(S, "        for i, T_i in enumerate(T):\n            HoRT[i] += np.sum(\n", "        for T_i in T:\n            mix = np.sum(\n"),
               (S, "        if len(T) == 1:\n            HoRT = HoRT.item(0)\n", "        HoRT += mix\n        if len(T) == 1:\n            HoRT = HoRT.item(0)\n")]},
    {'name': 'NASA-9 segment bounds kept with three decimals by a property(fget, fset) setter',
     'expect': ('ORDER.segment', ''),
     'edits': [(N, "        self.T_high = T_high\n        self.a = np.array(a)\n\n",
                "        self.T_high = T_high\n        self.a = np.array(a)\n\n"
                "    def _get_T_low(self):\n        return self._T_low\n\n"
                "    def _set_T_low(self, val):\n        self._T_low = float('{:.3f}'.format(val))\n\n"
                "    def _get_T_high(self):\n        return self._T_high\n\n"
                "    def _set_T_high(self, val):\n        self._T_high = float('{:.3f}'.format(val))\n\n"
                "    T_low = property(_get_T_low, _set_T_low, doc='Lower temperature bound (in K)')\n"
                "    T_high = property(_get_T_high, _set_T_high, doc='High temperature bound (in K)')\n\n")]},
    {'name': 'NASA-7 break temperature kept with three decimals by its setter', 'expect': ('ORDER.get_a', 'Nasa.get_'),
     'edits': [(N, "    def get_a(self, T):\n",
                "    @property\n    def T_mid(self):\n        return self._T_mid\n\n"
                "    @T_mid.setter\n    def T_mid(self, val):\n        self._T_mid = float('{:.3f}'.format(val))\n\n"
                "    def get_a(self, T):\n")]},
    {'name': 'nasa9 HoRT: the float conversion moved into a decorator that no longer converts',
     'expect': ('TYPE.negpow', 'get_nasa9_HoRT'),
     'edits': [(N, "def get_nasa9_HoRT(a, T):\n",
                "def _scalar_temperature(evaluator):\n    def wrapper(a, T):\n        return evaluator(a=a, T=np.squeeze(T))\n"
                "    return wrapper\n\n\n@_scalar_temperature\ndef get_nasa9_HoRT(a, T):\n"),
               (N, "    T = float(np.squeeze(T))\n", "", 0, 2)]},
    {'name': 'nasa9 SoR: helper returns coefficients and the temperature as it came', 'expect': ('TYPE.negpow', 'get_nasa9_SoR'),
     'edits': [(N, "def get_nasa9_SoR(a, T):\n",
                "def _as_arrays(a, T):\n    return np.asarray(a), np.squeeze(T)\n\n\ndef get_nasa9_SoR(a, T):\n"),
               (N, "    T = float(np.squeeze(T))\n", "    a, T = _as_arrays(a, T)\n", 1, 2)]},
]
EQUIV = [
    {'name': 'nasa9 HoRT made a float through dtype', 
     'edits': [(N, 'T = float(np.squeeze(T))', 'T = np.squeeze(np.asarray(T, dtype=np.float64))', 0, 2)]},
    {'name': 'nasa CpoR rewritten powers', 'edits': [(N, 'T_arr = np.array([1., T, T**2, T**3, T**4, np.zeros_like(T),',
                                                      'T_arr = np.array([1., T, T * T, T * T**2, (T**2)**2, 0. * T,')]},
    {'name': 'shomate HoRT rewritten divisor',
     'edits': [(S, "HoRT = np.dot(t_arr, a) / (T * c.R(units) / c.prefixes['k'])",
                "HoRT = np.dot(t_arr, a) * c.prefixes['k'] / T / c.R(units)")]},
    {'name': 'get_a with flipped comparison', 'edits': [(N, 'if T < self.T_mid:', 'if self.T_mid > T:')]},
    {'name': 'Nasa9._get_nasa chained comparison',
     'edits': [(N, 'if T <= nasa.T_high and T >= nasa.T_low:', 'if nasa.T_low <= T <= nasa.T_high:')]},
    # white-box round 2
    {'name': 'nasa9 HoRT converted only when it is not a float yet',
     'edits': [(N, '    T = float(np.squeeze(T))\n', '    if not isinstance(T, float):\n        T = float(np.squeeze(T))\n', 0, 2)]},
    {'name': 'nasa9 SoR converted by a conditional expression',
     'edits': [(N, '    T = float(np.squeeze(T))\n', '    T = T if isinstance(T, float) else float(np.squeeze(T))\n', 1, 2)]},
    {'name': 'Nasa.T_mid kept behind a pass-through property',
     'edits': [(N, "    def get_a(self, T):\n",
                "    @property\n    def T_mid(self):\n        return self._T_mid\n\n"
                "    @T_mid.setter\n    def T_mid(self, val):\n        self._T_mid = val\n\n    def get_a(self, T):\n")]},
    {'name': 'NASA-9 segment memo of the species keyed by the temperature, emptied with the segments',
     'edits': [(N, "        self._nasas = copy(val)\n", "        self._nasas = copy(val)\n        self._segment_of = {}\n"),
               (N, "        for nasa in self.nasas:\n            if T <= nasa.T_high and T >= nasa.T_low:\n                return nasa\n",
                "        try:\n            return self._segment_of[T]\n        except KeyError:\n            pass\n"
                "        for nasa in self.nasas:\n            if T <= nasa.T_high and T >= nasa.T_low:\n"
                "                self._segment_of[T] = nasa\n                return nasa\n")]},
    {'name': 'NASA-7 Cp of 32 or more temperatures by array expressions, upper segment at T_mid',
     'edits': [(N, "        if _is_iterable(T):\n            CpoR = np.zeros(len(T))\n",
                "        if _is_iterable(T) and len(T) >= 32:\n"
                "            a = np.array([self.a_high if T_i >= self.T_mid else self.a_low for T_i in T])\n"
                "            T = np.asarray(T, dtype=np.double)\n"
                "            CpoR = a[:, 0] + a[:, 1] * T + a[:, 2] * T**2 + a[:, 3] * T**3 + a[:, 4] * T**4\n"
                "        elif _is_iterable(T):\n            CpoR = np.zeros(len(T))\n", 0, 2)]},
    # white-box round 3
    {'name': 'result buffers shaped like the temperatures converted to float64',
     'edits': [(N, "HoRT = np.zeros_like(a=T, dtype=np.double)", "HoRT = np.zeros_like(np.asanyarray(T, dtype=np.double))", 0, 2),
               (N, "SoR = np.zeros_like(a=T, dtype=np.double)", "SoR = np.zeros_like(np.asanyarray(T, dtype=np.double))", 1, 2)]},
    {'name': 'nasa9 HoRT: the float conversion moved into a decorator',
     'edits': [(N, "import inspect\n", "import functools\nimport inspect\n"),
               (N, "def get_nasa9_HoRT(a, T):\n",
                "def _scalar_temperature(evaluator):\n    @functools.wraps(evaluator)\n    def wrapper(a, T):\n"
                "        return evaluator(a=a, T=float(np.squeeze(T)))\n"
                "    return wrapper\n\n\n@_scalar_temperature\ndef get_nasa9_HoRT(a, T):\n"),
               (N, "    T = float(np.squeeze(T))\n", "", 0, 2)]},
    {'name': 'nasa9 SoR: helper returns coefficients and the temperature as a float',
     'edits': [(N, "def get_nasa9_SoR(a, T):\n",
                "def _as_arrays(a, T):\n    return np.asarray(a), float(np.squeeze(T))\n\n\ndef get_nasa9_SoR(a, T):\n"),
               (N, "    T = float(np.squeeze(T))\n", "    a, T = _as_arrays(a, T)\n", 1, 2)]},
    {'name': 'NASA-9 segment bounds behind pass-through property(fget, fset)',
     'edits': [(N, "        self.T_high = T_high\n        self.a = np.array(a)\n\n",
                "        self.T_high = T_high\n        self.a = np.array(a)\n\n"
                "    def _get_T_low(self):\n        return self._T_low\n\n"
                "    def _set_T_low(self, val):\n        self._T_low = val\n\n"
                "    def _get_T_high(self):\n        return self._T_high\n\n"
                "    def _set_T_high(self, val):\n        self._T_high = val\n\n"
                "    T_low = property(_get_T_low, _set_T_low, doc='Lower temperature bound (in K)')\n"
                "    T_high = property(_get_T_high, _set_T_high, doc='High temperature bound (in K)')\n\n")]},
    {'name': 'Shomate range check on a sorted copy of the temperatures',
     'edits': [(S, "    def _check_T(self, T):\n        for T_i in T:\n", "    def _check_T(self, T):\n        for T_i in np.sort(T):\n")]},
]
