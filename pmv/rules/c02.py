"""C02 - NASA-7 / NASA-9 / Shomate are internally consistent polynomials."""
import ast
import itertools
from fractions import Fraction as Fr

from ..nf import Rat, C
from ..source import Unsupported, AnchorError, params
from ..xlate import Interp, Obj, ListV, Elem, SumV, Raised, RankOrder
from .rxnfix import set_public, get_public
from .common import (same, show, deriv, is_zero, slots_in, coeff_vector, attached_models, attached_sum, sel_opaque,
                     sub, atoms_of)

NASA = 'pmutt.empirical.nasa'
SHO = 'pmutt.empirical.shomate'


def fn_of(repo, mod, name):
    m = repo.module(mod)
    if name not in m.functions:
        raise AnchorError('%s.%s not found' % (mod, name))
    return m, m.functions[name]


def evaluator(run, repo, I, mod, name, **kw):
    m, fn = fn_of(repo, mod, name)
    run.fn('%s.%s' % (mod, name))
    r = I.call_function(m, fn, [], kw, name='%s.%s' % (mod, name))
    if isinstance(r, Elem):
        r = r.r
    if isinstance(r, ListV) and len(r) == 1:
        r = r.items[0]
    if not isinstance(r, Rat):
        raise Unsupported('%s.%s did not translate to a scalar normal form: %s' % (mod, name, show(r)))
    return r, m, fn


def slot_rules(run, repo, fam, mod, prefix, n, hfac=None):
    """SLOT/DERIV for one family. prefix: get_nasa_ / get_nasa9_ / get_shomate_"""
    I = Interp(repo)
    D = I.D
    T = D.sym('T')
    a = coeff_vector(I, 'a', n)
    kw = {'a': a}
    if fam == 'shomate':
        kw['T'] = Elem(T)
        kw['units'] = D.sym('units')
    else:
        kw['T'] = T
    Cp, m, fCp = evaluator(run, repo, I, mod, prefix + 'CpoR', **kw)
    H, _, fH = evaluator(run, repo, I, mod, prefix + 'HoRT', **kw)
    S, _, fS = evaluator(run, repo, I, mod, prefix + 'SoR', **kw)
    con = '%s.%s' % (mod.split('.')[-1], prefix)
    # linear in the coefficients
    for q, r, f in (('CpoR', Cp, fCp), ('HoRT', H, fH), ('SoR', S, fS)):
        lin = C(0)
        for ai in a.items:
            nm = list(ai.atoms())[0]
            lin = lin + ai * D.d(r, nm)
        run.check(lin.eq(r), 'SLOT.linear', con + q, 'linear',
                  'evaluator is not linear and homogeneous in the coefficient vector', m, f)
    # dH/dT = Cp  <=>  d(T*HoRT)/dT == CpoR ; dS/dT = Cp/T, for all coefficient vectors at once
    res_h = D.d(T * H, 'T') - Cp
    res_s = D.d(S, 'T') - Cp / T
    run.check(res_h.iszero(), 'DERIV.dH=Cp', con + 'HoRT', 'd(T*HoRT)/dT==CpoR',
              'd(T*HoRT)/dT differs from CpoR in slot(s) %s: residual %s'
              % (slots_in(res_h, 'a['), show(res_h)), m, fH,
              sample={'family': fam, 'identity': 'd(T*HoRT)/dT - CpoR == 0 for all a, T',
                      'HoRT': show(H, 400), 'CpoR': show(Cp, 400)})
    run.check(res_s.iszero(), 'DERIV.dS=Cp/T', con + 'SoR', 'dSoR/dT==CpoR/T',
              'dSoR/dT differs from CpoR/T in slot(s) %s: residual %s'
              % (slots_in(res_s, 'a['), show(res_s)), m, fS,
              sample={'family': fam, 'identity': 'd(SoR)/dT - CpoR/T == 0 for all a, T', 'SoR': show(S, 400)})
    # per-slot table + integration-constant slots
    table = []
    hconst, sconst = [], []
    for i, ai in enumerate(a.items):
        nm = list(ai.atoms())[0]
        ci, hi, si = D.d(Cp, nm), D.d(H, nm), D.d(S, nm)
        table.append({'slot': i, 'c': show(ci), 'h': show(hi), 's': show(si)})
        ok_h = D.d(T * hi, 'T').eq(ci)
        ok_s = D.d(si, 'T').eq(ci / T)
        run.check(ok_h, 'SLOT.h', con + 'HoRT', 'slot:%d' % i,
                  'slot %d: H-basis %s is not the integral/T of the Cp-basis %s' % (i, show(hi), show(ci)), m, fH)
        run.check(ok_s, 'SLOT.s', con + 'SoR', 'slot:%d' % i,
                  'slot %d: S-basis %s is not the integral of Cp-basis/T %s' % (i, show(si), show(ci)), m, fS)
        if ci.iszero() and si.iszero() and not hi.iszero() and D.d(T * hi, 'T').iszero():
            hconst.append(i)
        if ci.iszero() and hi.iszero() and not si.iszero() and D.d(si, 'T').iszero():
            sconst.append(i)
    run.check(len(hconst) == 1, 'SLOT.const', con + 'HoRT', 'H-constant-slot',
              'expected exactly one enthalpy integration-constant slot (basis k/T in H, 0 in Cp and S), '
              'found %s' % hconst, m, fH)
    run.check(len(sconst) == 1, 'SLOT.const', con + 'SoR', 'S-constant-slot',
              'expected exactly one entropy integration-constant slot (basis k in S, 0 in Cp and H), '
              'found %s' % sconst, m, fS)
    run.sample({'family': fam, 'slot_table': table, 'H_const_slot': hconst, 'S_const_slot': sconst})
    return {'I': I, 'Cp': Cp, 'H': H, 'S': S, 'hconst': hconst, 'sconst': sconst}


def nasa_obj(I, repo, misc=None):
    ci = repo.cls(NASA + '.Nasa')
    o = Obj('sp', ci, attrs={'a_low': coeff_vector(I, 'lo', 7), 'a_high': coeff_vector(I, 'hi', 7),
                             'misc_models': misc, 'name': 'sp'})
    sel_opaque(o)
    return o


def check_get_a(run, repo):
    """ORDER: Nasa.get_a on the 7 orderings of T against T_low < T_mid < T_high"""
    ci = repo.cls(NASA + '.Nasa')
    owner, fn = repo.find_method(ci, 'get_a')
    run.fn(owner.qual + '.get_a')
    names = {0: 'T<T_low', 1: 'T=T_low', 2: 'T_low<T<T_mid', 3: 'T=T_mid', 4: 'T_mid<T<T_high',
             5: 'T=T_high', 6: 'T>T_high'}
    for rank, label in names.items():
        I = Interp(repo, order=RankOrder({'sp.T_low': 1, 'sp.T_mid': 3, 'sp.T_high': 5, 'T': rank}))
        o = nasa_obj(I, repo)
        T = I.D.sym('T')
        r = I.call_method(o, 'get_a', [], {'T': T})
        want = o.attrs['a_low'] if rank < 3 else o.attrs['a_high']
        run.check(isinstance(r, ListV) and same(r, want), 'ORDER.get_a', 'nasa.Nasa.get_a', 'ordering:' + label,
                  'for %s the %s-temperature coefficients must be used (upper segment at and above T_mid; '
                  'out of range only warns) but got %s' % (label, 'low' if rank < 3 else 'high', show(r)),
                  owner.module, fn, sample='get_a(%s) -> %s' % (label, 'a_low' if rank < 3 else 'a_high'))
        # out-of-range warns, inside does not
        warned = len(I.warnings) > 0
        if rank in (0, 6):
            run.check(warned, 'ORDER.get_a.warn', 'nasa.Nasa.get_a', 'warn:' + label,
                      'temperature outside [T_low, T_high] is used without a warning', owner.module, fn)
        else:
            run.check(not warned, 'ORDER.get_a.warn', 'nasa.Nasa.get_a', 'warn:' + label,
                      'a warning is raised for a temperature inside the range', owner.module, fn)


def nasa9_obj(I, repo, nseg, misc=None):
    ci = repo.cls(NASA + '.Nasa9')
    sci = repo.cls(NASA + '.SingleNasa9')
    segs = []
    for j in range(nseg):
        segs.append(Obj('seg%d' % j, sci, attrs={'a': coeff_vector(I, 's%d' % j, 9)}))
    o = Obj('sp', ci, attrs={'misc_models': misc, 'name': 'sp'})
    set_public(I, o, 'nasas', ListV(segs))
    sel_opaque(o)
    return o, segs


def seg_ranks(nseg):
    """segment j occupies ranks [10j+1, 10j+9]; consecutive segments share the
    boundary (T_high of j == T_low of j+1 have the same rank 10(j+1)+... )"""
    ranks = {}
    for j in range(nseg):
        ranks['seg%d.T_low' % j] = 10 * j
        ranks['seg%d.T_high' % j] = 10 * (j + 1)
    return ranks


def selected_segment(I, o, segs, T):
    """which segment's coefficients a NASA-9 species evaluates at T (through the public getter): index, 'raised',
    or None when the value mixes segments / uses none"""
    got = I.call_method(o, 'get_CpoR', [], {'T': T})
    if isinstance(got, Raised):
        return 'raised', got
    if isinstance(got, SumV):
        got = got.scalar
    if isinstance(got, ListV) and len(got) == 1:
        got = got.items[0]
    if not isinstance(got, Rat):
        return None, got
    used = {a.split('[')[0] for a in got.atoms() if '[' in a}
    idx = [j for j in range(len(segs)) if 's%d' % j in used]
    return (idx[0] if len(idx) == 1 else None), got


def check_get_nasa(run, repo, max_seg):
    """segment selection of NASA-9 decided through the public getter: the value at T must be built from the
    coefficients of the segment whose own bounds contain T, and T outside every segment must be refused"""
    ci = repo.cls(NASA + '.Nasa9')
    owner, fn = repo.find_method(ci, 'get_CpoR')
    con = 'nasa.Nasa9 segment selection'
    n_inst = 0
    for nseg in range(1, max_seg + 1):
        positions = [(-5, None, 'below every segment')]
        for j in range(nseg):
            positions.append((10 * j + 5, j, 'inside segment %d' % j))
            positions.append((10 * j, j - 1 if j > 0 else 0, 'on lower bound of segment %d' % j))
        positions.append((10 * nseg, nseg - 1, 'on upper bound of last segment'))
        positions.append((10 * nseg + 5, None, 'above every segment'))
        for rank, want, label in positions:
            ranks = seg_ranks(nseg)
            ranks['T'] = rank
            I = Interp(repo, order=RankOrder(ranks))
            o, segs = nasa9_obj(I, repo, nseg)
            sel, r = selected_segment(I, o, segs, I.D.sym('T'))
            key = 'segments:%d %s' % (nseg, label)
            if want is None:
                run.check(sel == 'raised', 'PATH.refuse', con, key,
                          'a temperature outside every NASA-9 segment must be refused with an exception, '
                          'got %s' % show(r), owner.module, fn,
                          sample='Nasa9 at T %s raises' % label)
            else:
                # at a shared boundary either adjacent segment contains T
                allowed = {want, want + 1} if 'lower bound' in label and want + 1 < nseg and rank == 10 * (want + 1) \
                    else {want}
                run.check(sel in allowed, 'ORDER.segment', con, key,
                          'the segment whose bounds contain T must be used, got %s' % show(r, 120),
                          owner.module, fn)
            n_inst += 1
    # segments listed in descending order, and segments that leave a gap: the segment is chosen by its own bounds
    for nseg in (2, 3):
        for j in range(nseg):
            ranks = seg_ranks(nseg)
            ranks['T'] = 10 * j + 5
            I = Interp(repo, order=RankOrder(ranks))
            o, segs = nasa9_obj(I, repo, nseg)
            set_public(I, o, 'nasas', ListV(list(reversed(segs))))
            sel, r = selected_segment(I, o, segs, I.D.sym('T'))
            run.check(sel == j, 'ORDER.segment', con, 'segments listed in descending order',
                      '[%d segments listed from high to low, T inside segment %d] the segment whose own bounds contain '
                      'T must be used, got %s' % (nseg, j, show(r, 120)), owner.module, fn)
            n_inst += 1
    ranks = {'seg0.T_low': 0, 'seg0.T_high': 10, 'seg1.T_low': 20, 'seg1.T_high': 30, 'T': 15}
    I = Interp(repo, order=RankOrder(ranks))
    o, segs = nasa9_obj(I, repo, 2)
    sel, r = selected_segment(I, o, segs, I.D.sym('T'))
    run.check(sel == 'raised', 'PATH.refuse', con, 'gap between segments',
              'a temperature in a gap between two segments lies outside every segment and must be refused, got %s'
              % show(r, 120), owner.module, fn)
    n_inst += 1
    # the refusal holds for every quantity, for a single temperature and for an array that contains one temperature
    # outside every segment (the other entries inside)
    for q in ('CpoR', 'HoRT', 'SoR', 'GoRT'):
        ownq, fnq = repo.find_method(ci, 'get_' + q)
        for where, rank in (('below every segment', -5), ('above every segment', 25), ('in a gap', 15)):
            for form in ('scalar', 'array'):
                ranks = {'seg0.T_low': 0, 'seg0.T_high': 10, 'seg1.T_low': 10, 'seg1.T_high': 20, 'T': rank, 'Tin': 5}
                if where == 'in a gap':
                    ranks.update({'seg1.T_low': 20, 'seg1.T_high': 30})
                I = Interp(repo, order=RankOrder(ranks))
                o, segs = nasa9_obj(I, repo, 2)
                if form == 'scalar':
                    arg = I.D.sym('T')
                else:
                    arg = ListV([I.D.sym('Tin'), I.D.sym('T')])
                    arg.is_array = True
                    arg.dtype = 'float'
                r = I.call_method(o, 'get_' + q, [], {'T': arg})
                run.check(isinstance(r, Raised), 'PATH.refuse', 'nasa.Nasa9.get_' + q, '%s, %s' % (where, form),
                          'get_%s with a temperature %s (%s) must be refused with an exception, got %s'
                          % (q, where, form, show(r, 100)), ownq.module, fnq)
                n_inst += 1
    return n_inst


def shomate_units(run, repo, unit_list):
    """the class getters evaluate the species' own coefficients in the species' own fitting unit; the same
    coefficients in another unit scale with R(J/mol/K)/R(unit).  The concrete units are run before anything else of
    this module, the symbolic unit (any unit the constants table knows) in its place among the class rules."""
    sci = repo.cls(SHO + '.Shomate')
    for units in unit_list:
        Iu = Interp(repo, order=RankOrder({'sp.T_low': 1, 'sp.T_high': 5, 'T': 3}))
        uval = Iu.D.sym('units') if units == 'symbolic' else units
        misc = attached_models(Iu, 2)
        ou = Obj('sp', sci, attrs={'a': coeff_vector(Iu, 'a', 8), 'misc_models': misc, 'name': 'sp'})
        set_public(Iu, ou, 'units', uval)
        sel_opaque(ou)
        Tu, Pu = Iu.D.sym('T'), Iu.D.sym('P')
        for q in ('CpoR', 'HoRT', 'SoR'):
            got = Iu.call_method(ou, 'get_' + q, [], {'T': Tu, 'P': Pu})
            mq, fq = fn_of(repo, SHO, 'get_shomate_' + q)
            bare = Iu.call_function(mq, fq, [], {'a': ou.attrs['a'], 'T': Elem(Tu), 'units': uval})
            bare = bare.r if isinstance(bare, Elem) else bare
            want = Iu.binop('+', bare, attached_sum(Iu, misc, q, T=Tu, P=Pu))
            owner, fn = repo.find_method(sci, 'get_' + q)
            run.check(same(got, want), 'SEGMENT.use', 'shomate.Shomate.get_' + q, 'units:%s' % units,
                      'with fitting unit %s the value is not the Shomate evaluator applied to the species\' coefficients '
                      'in that unit plus the attached-model sum: %s, expected %s' % (units, show(got, 160), show(want, 160)),
                      owner.module, fn)
            if units not in ('symbolic', 'J/mol/K'):
                # the same coefficients in another unit: the dimensionless value scales with R(J/mol/K)/R(unit)
                ref = Iu.call_function(mq, fq, [], {'a': ou.attrs['a'], 'T': Elem(Tu), 'units': 'J/mol/K'})
                ref = ref.r if isinstance(ref, Elem) else ref
                RJ = Iu.D.sym('kb') * Iu.D.sym('Na')
                Ru = Iu.native['pmutt.constants.R'](Iu, None, [units], {}, None)       # the unit model (verified by C12)
                run.check(isinstance(Ru, Rat) and same(bare * Ru, ref * RJ), 'DIM.units', 'shomate.get_shomate_' + q,
                          'units:%s' % units,
                          'the evaluator in %s times R(%s) differs from the evaluator in J/mol/K times R(J/mol/K): the '
                          'coefficients carry the fitting unit, nothing else may depend on it' % (units, units), mq, fq)


def class_rules(run, repo, max_len):
    """TWIN G=H-S, segment use, scalar/array agreement for Nasa, Nasa9, Shomate"""
    n_bt = 0
    # ---- Nasa ---------------------------------------------------------
    for seg, rankT in (('low', 2), ('high', 4), ('high@T_mid', 3)):
        I = Interp(repo, order=RankOrder({'sp.T_low': 1, 'sp.T_mid': 3, 'sp.T_high': 5, 'T': rankT}))
        misc = attached_models(I, 2)
        o = nasa_obj(I, repo, misc=misc)
        T = I.D.sym('T')
        P = I.D.sym('P')
        a = o.attrs['a_low'] if rankT < 3 else o.attrs['a_high']
        ev = {}
        for q in ('CpoR', 'HoRT', 'SoR'):
            ev[q] = I.call_method(o, 'get_' + q, [], {'T': T, 'P': P})
            m, f = fn_of(repo, NASA, 'get_nasa_' + q)
            bare = I.call_function(m, f, [], {'a': a, 'T': T})
            mixq = attached_sum(I, misc, q, T=T, P=P)
            want = I.binop('+', bare, mixq)
            owner, fn = repo.find_method(o.ci, 'get_' + q)
            run.fn(owner.qual + '.get_' + q)
            run.check(same(ev[q], want), 'SEGMENT.use', 'nasa.Nasa.get_' + q, 'segment:' + seg,
                      'value in the %s segment is not the evaluator applied to that segment\'s coefficients '
                      'plus the attached-model sum at the same T and options: %s' % (seg, show(ev[q])),
                      owner.module, fn)
        for sel in (None, True):
            G = I.call_method(o, 'get_GoRT', [], {'T': T, 'P': P, 'S_elements': sel})
            Hh = I.call_method(o, 'get_HoRT', [], {'T': T, 'P': P})
            Ss = I.call_method(o, 'get_SoR', [], {'T': T, 'P': P, 'S_elements': sel})
            owner, fn = repo.find_method(o.ci, 'get_GoRT')
            run.check(same(G, I.binop('-', Hh, Ss)), 'TWIN.G=H-S', 'nasa.Nasa.get_GoRT',
                      'segment:%s S_elements=%s' % (seg, sel),
                      'GoRT differs from HoRT - SoR under identical T, P, S_elements: %s'
                      % show(sub(I, G, I.binop('-', Hh, Ss))), owner.module, fn)
    # ---- Nasa9 ----------------------------------------------------------
    for nseg in (1, 2, 3):
        for j in range(nseg):
            ranks = seg_ranks(nseg)
            ranks['T'] = 10 * j + 5
            I = Interp(repo, order=RankOrder(ranks))
            misc = attached_models(I, 2)
            o, segs = nasa9_obj(I, repo, nseg, misc=misc)
            T = I.D.sym('T')
            P = I.D.sym('P')
            for q in ('CpoR', 'HoRT', 'SoR'):
                got = I.call_method(o, 'get_' + q, [], {'T': T, 'P': P})
                m, f = fn_of(repo, NASA, 'get_nasa9_' + q)
                bare = I.call_function(m, f, [], {'a': segs[j].attrs['a'], 'T': T})
                mixq = attached_sum(I, misc, q, T=T, P=P)
                want = I.binop('+', bare, mixq)
                owner, fn = repo.find_method(o.ci, 'get_' + q)
                run.fn(owner.qual + '.get_' + q)
                run.check(same(got, want), 'SEGMENT.use', 'nasa.Nasa9.get_' + q,
                          'segments:%d T in segment %d' % (nseg, j),
                          'value is not the NASA-9 evaluator on the containing segment plus the attached-model '
                          'sum: %s' % show(got), owner.module, fn)
            for sel in (None, True):
                G = I.call_method(o, 'get_GoRT', [], {'T': T, 'P': P, 'S_elements': sel})
                Hh = I.call_method(o, 'get_HoRT', [], {'T': T, 'P': P})
                Ss = I.call_method(o, 'get_SoR', [], {'T': T, 'P': P, 'S_elements': sel})
                owner, fn = repo.find_method(o.ci, 'get_GoRT')
                run.check(same(G, I.binop('-', Hh, Ss)), 'TWIN.G=H-S', 'nasa.Nasa9.get_GoRT',
                          'segments:%d seg %d S_elements=%s' % (nseg, j, sel),
                          'GoRT differs from HoRT - SoR under identical arguments', owner.module, fn)
    # ---- Shomate ----------------------------------------------------------
    I = Interp(repo, order=RankOrder({'sp.T_low': 1, 'sp.T_high': 5, 'T': 3}))
    sci = repo.cls(SHO + '.Shomate')
    o = Obj('sp', sci, attrs={'a': coeff_vector(I, 'a', 8), 'misc_models': None, 'name': 'sp'})
    set_public(I, o, 'units', I.D.sym('units'))
    sel_opaque(o)
    T = I.D.sym('T')
    for sel in (None, True):
        G = I.call_method(o, 'get_GoRT', [], {'T': T, 'S_elements': sel})
        Hh = I.call_method(o, 'get_HoRT', [], {'T': T})
        Ss = I.call_method(o, 'get_SoR', [], {'T': T, 'S_elements': sel})
        owner, fn = repo.find_method(sci, 'get_GoRT')
        run.fn(owner.qual + '.get_GoRT')
        run.check(same(G, I.binop('-', Hh, Ss)), 'TWIN.G=H-S', 'shomate.Shomate.get_GoRT', 'S_elements=%s' % sel,
                  'GoRT differs from HoRT - SoR under identical arguments', owner.module, fn)
    shomate_units(run, repo, ('symbolic',))
    m, f = fn_of(repo, SHO, 'get_shomate_GoRT')
    a8 = coeff_vector(I, 'a', 8)
    u = I.D.sym('units')
    g = I.call_function(m, f, [], {'a': a8, 'T': Elem(T), 'units': u})
    h = I.call_function(*fn_of(repo, SHO, 'get_shomate_HoRT'), [], {'a': a8, 'T': Elem(T), 'units': u})
    s = I.call_function(*fn_of(repo, SHO, 'get_shomate_SoR'), [], {'a': a8, 'T': Elem(T), 'units': u})
    run.fn(SHO + '.get_shomate_GoRT')
    run.check(same(g, I.binop('-', h, s)), 'TWIN.G=H-S', 'shomate.get_shomate_GoRT', 'twin',
              'get_shomate_GoRT differs from get_shomate_HoRT - get_shomate_SoR', m, f)

    # ---- scalar / array agreement (BRANCH-TWIN, bounded unrolling) ----------
    def make(kind, n, with_misc=False):
        if kind == 'Nasa':
            # elements alternate between the low and high segment, one exactly on T_mid
            ranks = {'sp.T_low': 1, 'sp.T_mid': 3, 'sp.T_high': 5}
            for i, r in enumerate([2, 4, 3, 2, 4][:n]):
                ranks['T%d' % i] = r
            I = Interp(repo, order=RankOrder(ranks))
            return I, nasa_obj(I, repo, misc=attached_models(I, 1, params=('T',)) if with_misc else None)
        if kind == 'Nasa9':
            ranks = seg_ranks(2)
            for i, r in enumerate([5, 15, 10, 3, 17][:n]):
                ranks['T%d' % i] = r
            I = Interp(repo, order=RankOrder(ranks))
            return I, nasa9_obj(I, repo, 2, misc=attached_models(I, 1, params=('T',)) if with_misc else None)[0]
        ranks = {'sp.T_low': 1, 'sp.T_high': 5}
        for i in range(n):
            ranks['T%d' % i] = 3
        I = Interp(repo, order=RankOrder(ranks))
        o = Obj('sp', sci, attrs={'a': coeff_vector(I, 'a', 8), 'misc_models': None, 'name': 'sp'})
        set_public(I, o, 'units', I.D.sym('units'))
        sel_opaque(o)
        return I, o

    # with a model attached (its contribution depends on T): every entry of the array carries the model's value at its
    # own temperature
    for kind in ('Nasa', 'Nasa9'):
        for q in ('CpoR', 'HoRT', 'SoR', 'GoRT'):
            I, o = make(kind, 3, with_misc=True)
            Ts = [I.D.sym('T%d' % i) for i in range(3)]
            arr = ListV(list(Ts))
            arr.is_array = True
            arr.dtype = 'float'
            owner, fn = repo.find_method(o.ci, 'get_' + q)
            got = I.call_method(o, 'get_' + q, [], {'T': arr})
            each = [I.call_method(o, 'get_' + q, [], {'T': t}) for t in Ts]
            ok = isinstance(got, ListV) and len(got) == 3 and all(same(x, y) for x, y in zip(got.items, each))
            run.check(ok, 'BRANCH-TWIN', 'nasa.%s.get_%s' % (kind, q), 'array-vs-elementwise with an attached model',
                      'with a model attached the array result %s differs from element-by-element evaluation %s'
                      % (show(got, 200), show(ListV(each), 200)), owner.module, fn)
            n_bt += 1
    for kind, modname in (('Nasa', 'nasa'), ('Nasa9', 'nasa'), ('Shomate', 'shomate')):
        for q in ('CpoR', 'HoRT', 'SoR', 'GoRT'):
            bad = None
            for n in range(1, max_len + 1):
                I, o = make(kind, n)
                Ts = [I.D.sym('T%d' % i) for i in range(n)]
                arr = ListV(list(Ts))
                arr.is_array = True
                owner, fn = repo.find_method(o.ci, 'get_' + q)
                got = I.call_method(o, 'get_' + q, [], {'T': arr})
                hz = list(I.dtype_hazards)
                if n == 2:
                    # the container of temperatures may hold integers (np.arange(300, 2000, 250)): a result
                    # buffer that takes its element type from it truncates every value stored into it
                    hm = repo.modules.get([mm for mm in repo.modules if repo.modules[mm].relpath == hz[0][1]][0]) \
                        if hz else owner.module
                    run.check(not hz, 'BRANCH-TWIN.dtype', '%s.%s.get_%s' % (modname, kind, q), 'integer temperatures',
                              'a result buffer is created with the element type of the caller\'s temperature '
                              'container and real values are stored into it: with integer temperatures the array '
                              'result is truncated and differs from element-by-element evaluation', hm,
                              hz[0][0] if hz else fn)
                each = [I.call_method(o, 'get_' + q, [], {'T': t}) for t in Ts]
                if n == 1 and isinstance(got, (Rat, SumV)):
                    got = ListV([got])      # documented: size-1 input may come back as a scalar
                ok = isinstance(got, ListV) and len(got) == n and \
                    all(same(x, y) for x, y in zip(got.items, each))
                n_bt += 1
                if ok:
                    run.ok('BRANCH-TWIN', '%s.%s.get_%s' % (modname, kind, q),
                           '%s.get_%s([T0..T%d]) == [get_%s(Ti)]' % (kind, q, n - 1, q) if n == 3 else None)
                elif bad is None:
                    bad = (n, got, each)
            if bad is not None:
                n, got, each = bad
                run.fail('BRANCH-TWIN', '%s.%s.get_%s' % (modname, kind, q), 'array-vs-elementwise',
                         'for an array of %d temperatures the result %s differs from element-by-element '
                         'evaluation %s (a 1-element array stored into a scalar slot raises in numpy)'
                         % (n, show(got), show(ListV(each))), owner.module, fn)
    return n_bt


FLOAT_MAKERS = {'float', 'float64', 'double', 'float_', 'longdouble'}
CARRIERS = {'array', 'asarray', 'asanyarray', 'squeeze', 'atleast_1d', 'ravel', 'copy', 'reshape', 'sort', 'abs',
            'absolute', 'negative', 'positive', 'unique'}


def _dtype_kind(node):
    """'float' / 'other' of a dtype= argument"""
    if isinstance(node, ast.Name):
        return 'float' if node.id in FLOAT_MAKERS else 'other'
    if isinstance(node, ast.Attribute):
        return 'float' if node.attr in FLOAT_MAKERS else 'other'
    if isinstance(node, ast.Constant) and isinstance(node.value, str):
        return 'float' if node.value.startswith(('float', 'f', 'd', 'double')) else 'other'
    return 'other'


class NumKind:
    """does an expression hold the caller's number unchanged in type ('carry': an integer temperature stays an
    integer), a float whatever the caller passed ('float'), or something this analysis does not follow ('unknown')?
    Follows assignments inside the function and calls of functions defined in the repository."""

    def __init__(self, repo):
        self.repo = repo

    @staticmethod
    def join(kinds):
        kinds = list(kinds)
        if not kinds:
            return 'unknown'
        if 'carry' in kinds:
            return 'carry'
        if all(k == 'float' for k in kinds):
            return 'float'
        return 'unknown'

    def name_kind(self, m, fn, name, before, env, depth):
        """kind of the value of ``name`` in ``fn`` where it is read at line ``before``"""
        defs = []
        for st in ast.walk(fn):
            if isinstance(st, ast.Assign) and any(isinstance(t, ast.Name) and t.id == name for t in st.targets) \
                    and st.lineno < before:
                defs.append(st)
            elif isinstance(st, ast.AugAssign) and isinstance(st.target, ast.Name) and st.target.id == name \
                    and st.lineno < before:
                defs.append(st)
        if not defs:
            return env.get(name, 'unknown')
        # the last straight-line (function body level) assignment kills the earlier ones
        top = [st for st in defs if st in fn.body]
        if top:
            last = max(top, key=lambda s: s.lineno)
            defs = [st for st in defs if st.lineno >= last.lineno]
            start = None
        else:
            start = env.get(name)
        kinds = [] if start is None else [start]
        for st in defs:
            if isinstance(st, ast.AugAssign):
                kinds.append(self.join_bin(self.name_kind(m, fn, name, st.lineno, env, depth),
                                           self.kind(m, fn, st.value, env, depth), st.op))
            else:
                kinds.append(self.kind(m, fn, st.value, env, depth))
        return self.join(kinds)

    @staticmethod
    def join_bin(a, b, op):
        if isinstance(op, ast.Div):
            return 'float'
        if 'float' in (a, b):
            return 'float'
        if 'carry' in (a, b):
            return 'carry'
        return 'unknown'

    def kind(self, m, fn, e, env, depth=0):
        if isinstance(e, ast.Constant):
            return 'float' if isinstance(e.value, float) else 'unknown'
        if isinstance(e, ast.Name):
            return self.name_kind(m, fn, e.id, e.lineno, env, depth)
        if isinstance(e, (ast.List, ast.Tuple)):
            return self.join(self.kind(m, fn, x, env, depth) for x in e.elts)
        if isinstance(e, ast.UnaryOp):
            return self.kind(m, fn, e.operand, env, depth)
        if isinstance(e, ast.BinOp):
            return self.join_bin(self.kind(m, fn, e.left, env, depth), self.kind(m, fn, e.right, env, depth), e.op)
        if isinstance(e, ast.IfExp):
            return self.join([self.kind(m, fn, e.body, env, depth), self.kind(m, fn, e.orelse, env, depth)])
        if isinstance(e, ast.Subscript):
            return self.kind(m, fn, e.value, env, depth)
        if isinstance(e, ast.Call):
            f = e.func
            fname = f.id if isinstance(f, ast.Name) else f.attr if isinstance(f, ast.Attribute) else None
            for kw in e.keywords:
                if kw.arg == 'dtype':
                    return 'float' if _dtype_kind(kw.value) == 'float' else 'unknown'
            target = self.repo.resolve_expr(m, f) if isinstance(f, (ast.Name, ast.Attribute)) else None
            if isinstance(target, tuple) and target[0] == 'function':
                if depth > 6:
                    return 'unknown'
                _, fm, fdef = target
                pos, _ = params(fdef)[0], None
                sub_env = {}
                for p, a in zip(pos, e.args):
                    sub_env[p] = self.kind(m, fn, a, env, depth)
                for kw in e.keywords:
                    if kw.arg:
                        sub_env[kw.arg] = self.kind(m, fn, kw.value, env, depth)
                rets = [r for r in ast.walk(fdef) if isinstance(r, ast.Return) and r.value is not None]
                return self.join(self.kind(fm, fdef, r.value, sub_env, depth + 1) for r in rets)
            if fname in FLOAT_MAKERS:
                return 'float'
            if fname == 'astype' and e.args:
                return 'float' if _dtype_kind(e.args[0]) == 'float' else 'unknown'
            if fname in CARRIERS:
                if e.args:
                    return self.kind(m, fn, e.args[0], env, depth)
                if isinstance(f, ast.Attribute):
                    return self.kind(m, fn, f.value, env, depth)
            return 'unknown'
        return 'unknown'


def integer_temperatures(run, repo):
    """numpy refuses a negative integer power of an integer: an evaluator that raises its temperature argument
    to such a power without first making it a float cannot be evaluated at T=300 / np.arange(...) temperatures,
    which the sibling evaluators accept.  Decided by following the value of the base of every such power back to
    the function's arguments (assignments, array constructors and helpers defined in the repository are followed;
    'float' wherever float()/np.float64()/dtype=float/true division/a float constant intervenes)."""
    n = 0
    nk = NumKind(repo)
    for modname in (NASA, SHO):
        m = repo.module(modname)
        for fname, fn in sorted(m.functions.items()):
            if not fname.startswith('get_'):
                continue
            env = {p: 'carry' for p in params(fn)[0]}
            for node in ast.walk(fn):
                if not (isinstance(node, ast.BinOp) and isinstance(node.op, ast.Pow)):
                    continue
                e = node.right
                neg = isinstance(e, ast.UnaryOp) and isinstance(e.op, ast.USub) and \
                    isinstance(e.operand, ast.Constant) and isinstance(e.operand.value, int)
                if not neg:
                    continue
                k = nk.kind(m, fn, node.left, env)
                if k == 'unknown':
                    run.extra.setdefault('negative powers whose base was not followed', []).append(
                        '%s:%d' % (m.relpath, node.lineno))
                    continue
                n += 1
                run.check(k == 'float', 'TYPE.negpow', '%s.%s' % (modname.split('.')[-1], fname),
                          'integer temperatures',
                          '%s is raised to a negative integer power and holds the caller\'s value with its type '
                          'unchanged: numpy refuses this for integer temperatures (T=300 reaches here as np.int64), '
                          'so the species cannot be evaluated there although its sibling evaluators can'
                          % ast.unparse(node.left), m, node)
    return n


def check(run, repo):
    run.explanation = (
        'Abstract interpretation of the polynomial evaluators and getters of pmutt/empirical/nasa.py and '
        'shomate.py into exact rational normal forms over symbolic coefficients a[i], T, units. Decided for '
        'ALL coefficient vectors and temperatures at once: linearity in a; d(T*HoRT)/dT == CpoR and '
        'dSoR/dT == CpoR/T slot by slot; one H- and one S-integration-constant slot; GoRT == HoRT - SoR '
        'with identical arguments; Nasa.get_a on the 7 orderings of T against T_low<T_mid<T_high; '
        'the NASA-9 segment selection (through Nasa9.get_CpoR) on every position of T relative to 1-4 segments (refusal outside); class getters use '
        'the containing segment, also when the segments are listed from high to low or leave a gap; array evaluation '
        'equals element-wise evaluation (bounded unrolling); a result buffer must not take its element type from the '
        'caller\'s temperature container, and a temperature argument is not raised to a negative integer power before '
        'it is made a float (integer temperatures).')
    run.assumptions = ['identities are over the reals (IEEE rounding not modelled)',
                       'scalar/array agreement is decided for array lengths up to the stated bound; the '
                       'loops are uniform in the index']
    run.undecided = ['floating-point agreement beyond the identity over the reals',
                     'behaviour for non-numeric T']
    thorough = run.tier == 'thorough'
    shomate_units(run, repo, ('J/mol/K', 'kJ/mol/K', 'cal/mol/K', 'kcal/mol/K', 'eV/K'))
    fams = {}
    fams['nasa'] = slot_rules(run, repo, 'nasa', NASA, 'get_nasa_', 7)
    fams['nasa9'] = slot_rules(run, repo, 'nasa9', NASA, 'get_nasa9_', 9)
    fams['shomate'] = slot_rules(run, repo, 'shomate', SHO, 'get_shomate_', 8)
    check_get_a(run, repo)
    n = check_get_nasa(run, repo, 4 if thorough else 3)
    run.floor('Nasa9 segment-selection positions', n, 20)
    nbt = class_rules(run, repo, 5 if thorough else 3)
    run.floor('BRANCH-TWIN instances', nbt, 36)
    run.extra['negative integer powers of an argument'] = integer_temperatures(run, repo)
    run.extra['array_length_bound'] = 5 if thorough else 3



N = 'pmutt/empirical/nasa.py'
S = 'pmutt/empirical/shomate.py'
MUTANTS = [
    {'name': 'Shomate entropy evaluated in the default unit', 'expect': ('SEGMENT.use', 'Shomate.get_SoR'),
     'edits': [('pmutt/empirical/shomate.py', "        SoR = get_shomate_SoR(a=self.a, T=T, units=self.units)", "        SoR = get_shomate_SoR(a=self.a, T=T, units='J/mol/K')")]},
    {'name': 'NASA-9 enthalpy falls back to the first segment outside every segment', 'expect': ('PATH.refuse', 'Nasa9.get_HoRT'),
     'edits': [('pmutt/empirical/nasa.py', "            nasa = self._get_nasa(T=T)\n            HoRT = nasa.get_HoRT(T=T) \\", "            try:\n                nasa = self._get_nasa(T=T)\n            except ValueError:\n                nasa = self.nasas[0]\n            HoRT = nasa.get_HoRT(T=T) \\")]},
    {'name': 'nasa HoRT T^3/4 -> T^3/3', 'expect': ('DERIV', 'get_nasa_HoRT'),
     'edits': [(N, '[np.ones_like(T), T / 2., (T**2) / 3., (T**3) / 4., (T**4) / 5.,',
                '[np.ones_like(T), T / 2., (T**2) / 3., (T**3) / 3., (T**4) / 5.,')]},
    {'name': 'nasa9 SoR sign of T^-1 slot', 'expect': ('DERIV', 'get_nasa9_SoR'),
     'edits': [(N, '-(T**-2) / 2., -(T**-1),', '-(T**-2) / 2., (T**-1),')]},
    {'name': 'nasa9 HoRT ln(T)/T -> ln(T)', 'expect': ('DERIV', 'get_nasa9_HoRT'),
     'edits': [(N, 'np.log(T) / T, np.ones_like(T), T / 2.,', 'np.log(T), np.ones_like(T), T / 2.,')]},
    {'name': 'get_a < -> <=', 'expect': ('ORDER.get_a', 'get_a'),
     'edits': [(N, 'if T < self.T_mid:', 'if T <= self.T_mid:')]},
    {'name': '_get_nasa >= T_low -> >', 'expect': ('', 'segment selection'),
     'edits': [(N, 'if T <= nasa.T_high and T >= nasa.T_low:', 'if T <= nasa.T_high and T > nasa.T_low:')]},
    {'name': '_get_nasa for-else raise removed (falls through to last segment)', 'expect': ('PATH.refuse', 'segment selection'),
     'edits': [(N, "                                                  self.T_high))\n            raise ValueError(err_msg)",
                "                                                  self.T_high))\n            return nasa")]},
    {'name': 'Nasa.get_SoR array branch picks segment from T[0]', 'expect': ('BRANCH-TWIN', 'Nasa.get_SoR'),
     'edits': [(N, 'a = self.get_a(T=T_i)', 'a = self.get_a(T=T[0])', 1, 2)]},
    {'name': 'Nasa.get_CpoR buffer one short', 'expect': ('BRANCH-TWIN', 'Nasa.get_CpoR'),
     'edits': [(N, 'CpoR = np.zeros(len(T))', 'CpoR = np.zeros(len(T) - 1)', 0, 2)]},
    {'name': 'shomate SoR E-slot factor', 'expect': ('DERIV', 'get_shomate_SoR'),
     'edits': [(S, '-1. / 2. / x**2, 0., 1., 0.]', '-1. / x**2, 0., 1., 0.]')]},
    {'name': 'shomate GoRT uses H+S', 'expect': ('TWIN', 'get_shomate_GoRT'),
     'edits': [(S, '        - get_shomate_SoR(a=a, T=T, units=units)', '        + get_shomate_SoR(a=a, T=T, units=units)')]},
    {'name': 'Nasa.get_GoRT drops S_elements', 'expect': ('TWIN', 'Nasa.get_GoRT'),
     'edits': [(N, '                           S_elements=S_elements, **kwargs)', '                           **kwargs)', 0, 2)]},
    {'name': 'nasa9 CpoR negative integer powers of the raw argument', 'expect': ('TYPE.negpow', 'get_nasa9_CpoR'),
     'edits': [(N, 'T_arr = np.array([1. / T**2, 1. / T, np.ones_like(T), T, T**2, T**3, T**4,',
                'T_arr = np.array([T**-2, T**-1, np.ones_like(T), T, T**2, T**3, T**4,')]},
    {'name': 'nasa9 HoRT no longer made a float', 'expect': ('TYPE.negpow', 'get_nasa9_HoRT'),
     'edits': [(N, 'T = float(np.squeeze(T))', 'T = np.squeeze(T)', 0, 2)]},
]
EQUIV = [
    {'name': 'nasa9 HoRT made a float through dtype', 
     'edits': [(N, 'T = float(np.squeeze(T))', 'T = np.squeeze(np.asarray(T, dtype=np.float64))', 0, 2)]},
    {'name': 'nasa CpoR rewritten powers', 'edits': [(N, 'T_arr = np.array([1., T, T**2, T**3, T**4, np.zeros_like(T),',
                                                      'T_arr = np.array([1., T, T * T, T * T**2, (T**2)**2, 0. * T,')]},
    {'name': 'shomate HoRT rewritten divisor',
     'edits': [(S, "HoRT = np.dot(t_arr, a) / (T * c.R(units) / c.prefixes['k'])",
                "HoRT = np.dot(t_arr, a) * c.prefixes['k'] / T / c.R(units)")]},
    {'name': 'get_a with flipped comparison', 'edits': [(N, 'if T < self.T_mid:', 'if self.T_mid > T:')]},
    {'name': 'Nasa9._get_nasa chained comparison',
     'edits': [(N, 'if T <= nasa.T_high and T >= nasa.T_low:', 'if nasa.T_low <= T <= nasa.T_high:')]},
]
