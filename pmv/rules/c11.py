"""C11 - JSON serialisation round-trips every pMuTT object.

Every serialisable class is instantiated through its real constructor with
symbolic attribute values; its real to_dict is interpreted; the result is
encoded the way pmuttEncoder/json would (objects via to_dict, tuples as lists,
ndarrays are not encodable) and decoded bottom-up through the real
json_to_pmutt / type_to_class / from_dict code.  The decoded object must be of
the same class and carry the same attributes; the dictionary handed to the
decoder must be unchanged.  The cycle is repeated on objects that have been
used (public getters called): histories are part of the quantifier.
"""
import ast
import re
from fractions import Fraction as Fr

from ..nf import Rat, C
from ..source import Unsupported, AnchorError, Module, ClassInfo
from ..xlate import Interp, Frame, Obj, ListV, DictV, Raised, RankOrder, _RaisedExc, is_iter
from ..absstr import SegStr
from .common import same, show

JSON = 'pmutt.io.json'


class Problem(Exception):
    pass


def call_default(I, v):
    """pmuttEncoder().default(v), interpreted.  The encoder's base class is json.JSONEncoder, whose default() raises
    TypeError for every argument; it lies outside the repository.  An interpreter that models the stdlib base returns
    that TypeError itself; one that does not stops at the super() call with "method default not found in MRO of
    <the encoder>" - which says that control reached the base class's default, i.e. the same TypeError."""
    enc_ci = I.repo.module(JSON).classes.get('pmuttEncoder')
    if enc_ci is None or I.repo.find_method(enc_ci, 'default', missing_ok=True) is None:
        raise AnchorError('pmuttEncoder.default not found')
    try:
        return I.call_method(Obj('encoder', enc_ci), 'default', [v], {})
    except _RaisedExc as e:
        return e.raised
    except AnchorError as e:
        if 'method default not found in MRO of %s' % enc_ci.qual in str(e) and \
                any(b_.split('.')[-1] == 'JSONEncoder' for b_ in enc_ci.base_exprs):
            return Raised('TypeError')
        raise


def via_default(I, v, path, what):
    """what json does with a value it cannot write itself: it asks the encoder's default() (interpreted) and writes
    what that returns; a default() that raises ends the encoding"""
    d = call_default(I, v)
    if isinstance(d, Raised):
        raise Problem('%s: %s is left in the dictionary (%s: Object of type %s is not JSON serializable)'
                      % (path, what[0], d.exc, what[1]))
    if d is v and isinstance(v, (ListV, DictV, Obj)):
        raise Problem('%s: the encoder hands %s back as it is (ValueError: Circular reference detected)'
                      % (path, what[0]))
    return encode(I, d, path)


def json_key(I, d, nk, path):
    """the key of a JSON object is a text: json writes str keys as they are, numbers, booleans and None in their JSON
    spelling (what json.loads returns is that text, not the number), and refuses every other key (a tuple ...) with
    TypeError - default() is not asked for keys"""
    k = d.okey(nk)
    if isinstance(k, (str, SegStr)):
        return nk, d.keyobj.get(nk)
    if isinstance(k, bool):
        return ('true' if k else 'false'), None
    if k is None:
        return 'null', None
    if isinstance(k, int):
        return str(k), None
    if isinstance(k, Rat):
        if k.iszero() or (k.is_const() and k.const_value().denominator == 1):
            # 1 or 1.0: the model has one number type for constants, the text of the key is not known
            raise Unsupported('a whole number as key of a dictionary handed to json (%s: written as "1" or as "1.0"?)'
                              % path)
        t = I.plain(I.seg(k))          # the text str() gives; float() of it is the number again
        if isinstance(t, str):
            return t, None
        return DictV().nkey(t), t
    raise Problem('%s: a key that is not a text or a number (TypeError: keys must be str, int, float, bool or None)'
                  % path)


class _ObjectMembers(dict):
    """attribute table of a stand-in for an object of a class outside the package.  It has the attributes it is given;
    a name every Python object answers (dir(object): __doc__, __eq__, __reduce__ ...) that the stand-in has no value
    for is refused - it is not the AttributeError a closed stand-in would otherwise model"""
    EVERY_OBJECT = (frozenset(dir(object)) | {'__weakref__'}) - {'__class__', '__doc__', '__module__'}

    def __contains__(self, k):
        if dict.__contains__(self, k):
            return True
        if k in self.EVERY_OBJECT:
            raise Unsupported('member %s of a stand-in object of the rule (every Python object has it; no model)' % k)
        return False

    def __getitem__(self, k):
        if k in self:
            return dict.__getitem__(self, k)
        raise KeyError(k)

    def get(self, k, default=None):
        return dict.__getitem__(self, k) if k in self else default


def foreign_object(label, cname, opaque_methods=None):
    """an object of a class that is not part of the package (what a user may leave in a dictionary handed to json):
    a class without methods in a module of the user's, an instance without attributes"""
    m = Module('userdata', '<rule>', '<rule>', "class %s:\n    __module__ = 'userdata'\n    __doc__ = None\n" % cname)
    ci = ClassInfo(m, m.tree.body[0])
    ci.mro = [ci]
    m.classes[cname] = ci
    o = Obj(label, ci, closed=True, opaque_methods=opaque_methods)
    o.attrs = _ObjectMembers()
    return o


_NPINT = [0]


def numpy_integer(I, x, lpath, path):
    """an entry of a list that holds numpy integers: json cannot write an np.int64 and hands it to the encoder's
    default() (interpreted).  For the duration of that call the symbols of the entry are declared numpy integers
    (I.np_syms), so that isinstance(o, np.integer / int / float) in default() is decided for what the entry is there"""
    if isinstance(x, ListV):
        return ListV([numpy_integer(I, y, lpath, '%s[%d]' % (path, i)) for i, y in enumerate(x.items)])
    if not isinstance(x, Rat):
        return encode(I, x, path)
    saved_np, saved_int = dict(I.np_syms), set(I.int_syms)
    stand_in = None
    try:
        if x.atoms():
            arg = x
        else:
            # a literal (the 0 of intervals=[0, 1]): a symbol stands in for it while default() looks at its type
            _NPINT[0] += 1
            stand_in = 'npint%d' % _NPINT[0]
            arg = I.D.sym(stand_in)
        for a_ in arg.atoms():
            I.np_syms[a_] = 'int64'
            I.int_syms.add(a_)
        d = call_default(I, arg)
    finally:
        I.np_syms.clear()
        I.np_syms.update(saved_np)
        I.int_syms.clear()
        I.int_syms.update(saved_int)
    if isinstance(d, Raised):
        raise Problem('%s: the list holds numpy integers (%s: Object of type int64 is not JSON serializable; '
                      'np.float64 is a float, np.int64 is not an int)' % (lpath, d.exc))
    if stand_in is not None:
        if isinstance(d, Rat) and d.eq(arg):
            return x
        raise Unsupported('what the encoder makes of the numpy integer %r at %s' % (x, path))
    return encode(I, d, path)


def encode(I, v, path='$'):
    """model of json.dumps(..., cls=pmuttEncoder) followed by json.loads without hook: json writes dict, list, tuple,
    str, int, float, bool and None itself and hands everything else - an object, a set, a map/filter/zip/generator
    object, a class, a function - to the encoder's default()"""
    if isinstance(v, Obj):
        if v.ci is None:
            raise Problem('%s: opaque object cannot be serialised' % path)
        if I.repo.find_method(v.ci, 'to_dict', missing_ok=True) is None:
            raise Problem('%s: %s has no to_dict (TypeError: not JSON serializable)' % (path, v.ci.qual))
        # json hands every object it cannot write itself to the package's encoder (interpreted)
        d = call_default(I, v)
        if isinstance(d, Raised):
            raise Problem('%s: encoding %s raises %s' % (path, v.ci.name, d.exc))
        if not isinstance(d, DictV):
            raise Problem('%s: the encoder turns %s into %s, not a dict' % (path, v.ci.name, show(d, 60)))
        return encode(I, d, path)
    if isinstance(v, DictV):
        out = DictV()
        for k, x in v.d.items():
            k2, ko = json_key(I, v, k, path)
            out.d[k2] = encode(I, x, '%s.%s' % (path, k))
            if ko is not None:
                out.keyobj[k2] = ko
        return out
    if isinstance(v, ListV) and (is_iter(v) or any(getattr(v, m_, False) for m_ in ('is_set', 'is_view', 'is_range'))):
        # not a list and not a tuple: json cannot write it (a Python-2 habit: map() returned a list there).  is_view /
        # is_range: dict views and range objects, should the interpreter mark them one day (REQ3_C11 item 4)
        kind = 'set' if getattr(v, 'is_set', False) else 'dict view' if getattr(v, 'is_view', False) else \
            'range' if getattr(v, 'is_range', False) else 'iterator'
        return via_default(I, v, path, ('a set (set / frozenset)' if kind == 'set' else 'a %s' % kind if kind != 'iterator'
                                        else 'an iterator (a map / filter / reversed / zip / generator object)', kind))
    if isinstance(v, ListV):
        if getattr(v, 'is_array', False):
            # json cannot write an ndarray: default() is asked (an encoder that knows numpy answers with tolist())
            return via_default(I, v, path, ('a numpy array', 'ndarray'))
        if getattr(v, 'np_int', False) or getattr(v, 'dtype', None) == 'int':
            # list(arr)/tuple(arr)/[x for x in arr] of an integer array: a Python list of numpy integers
            # (arr.tolist() gives ints).  The interpreter marks such a list np_int (or hands the element type on).
            # json writes the list and asks default() for every entry: np.float64 is a float, np.int64 is not an int
            return ListV([numpy_integer(I, x, path, '%s[%d]' % (path, i)) for i, x in enumerate(v.items)])
        return ListV([encode(I, x, '%s[%d]' % (path, i)) for i, x in enumerate(v.items)])
    if getattr(v, 'np_int', False):
        # a single numpy integer (an item of an integer array), should the interpreter mark scalars one day
        return numpy_integer(I, v, path, path)
    if v is None or isinstance(v, (bool, int, float, Fr, str, SegStr, Rat)):
        return v
    # anything else (a zip object, a class, a function, a vector of unknown length ...) is no JSON value
    return via_default(I, v, path, ('%s' % show(v, 40), type(v).__name__))


_SPEC = re.compile(r'^%?(?:.?[<>=^])?[ +\-#0]*\d*[,_]?(?:\.(\d+))?([a-zA-Z])?$')


def exact_print(spec):
    """does a float printed with this format specification read back as the same float?  The plain conversion (str,
    repr, '{}', '%s', '{!r}': the shortest text that reads back to the same number) does; so do the exponent and
    general presentations with 17 significant digits or more.  Everything else rounds (E15.8 keeps nine digits)."""
    m_ = _SPEC.match(spec or '')
    if m_ is None:
        return False
    prec, typ = m_.group(1), m_.group(2)
    if typ is None:
        return prec is None or int(prec) >= 17          # '{:.17}': the general presentation
    if typ in 'rs':
        return prec is None
    if typ in 'eE':
        return prec is not None and int(prec) >= 16
    if typ in 'gG':
        return prec is not None and int(prec) >= 17
    return False


def unprinted(I, r):
    """a number the package printed and read back (float('{:.8E}'.format(x))) is, for the interpreter of this rule,
    the number as rounded by that format - unless the format is exact: then it is the number itself"""
    if not isinstance(r, Rat) or not I.printed:
        return r
    for _ in range(8):
        ats = [a_ for a_ in r.atoms() if a_ in I.printed and exact_print(I.printed[a_][0])]
        done = True
        for a_ in ats:
            sl = r.split_linear(a_)
            if sl is not None:
                r = sl[0] * I.printed[a_][1] + sl[1]
                done = False
        if done:
            break
    return r


def deep_copy(v):
    if isinstance(v, DictV):
        return DictV({k: deep_copy(x) for k, x in v.d.items()})
    if isinstance(v, ListV):
        return ListV([deep_copy(x) for x in v.items])
    return v


def deep_same(a, b, num=None):
    if isinstance(a, DictV) and isinstance(b, DictV):
        return list(a.d.keys()) == list(b.d.keys()) and all(deep_same(a.d[k], b.d[k], num) for k in a.d)
    if isinstance(a, ListV) and isinstance(b, ListV):
        return len(a) == len(b) and all(deep_same(x, y, num) for x, y in zip(a.items, b.items))
    if isinstance(a, Rat) and isinstance(b, Rat):
        return a.eq(b) or (num is not None and num(a).eq(num(b)))
    if isinstance(a, (DictV, ListV, Rat)) or isinstance(b, (DictV, ListV, Rat)):
        return False
    return a is b or a == b


def decode(I, jm, v, mutated, path='$'):
    """model of json.loads(..., object_hook=json_to_pmutt): inner dicts first"""
    if isinstance(v, DictV):
        out = DictV()
        for k, x in v.d.items():
            out.d[k] = decode(I, jm, x, mutated, '%s.%s' % (path, k))
        snap = deep_copy(out)
        r = I.call_function(jm, jm.functions['json_to_pmutt'], [out], {})
        if isinstance(r, Raised):
            raise Problem('%s: json_to_pmutt raises %s' % (path, r.exc))
        if not deep_same(out, snap):
            mutated.append((path, sorted(set(snap.d) - set(out.d)), snap.d.get('class')))
        return r
    if isinstance(v, ListV):
        return ListV([decode(I, jm, x, mutated, '%s[%d]' % (path, i)) for i, x in enumerate(v.items)])
    return v


def differences(a, b, path, out, depth=0, owner=None, attr=None, visited=None, pub=None, name_of=None, num=None):
    """attribute-wise comparison of the original and the decoded object; every difference is attributed to
    the innermost enclosing object's class and attribute: out gets (class name, attribute, message).  A pair of
    objects that is already being compared is not entered again (a reaction and the BEP relation it registers itself
    with refer to each other)"""
    if depth > 10:
        return
    if visited is None:
        visited = set()

    def rec(msg):
        out.append((owner or '?', attr or '?', '%s: %s' % (path, msg)))
    if isinstance(a, Obj) and isinstance(b, Obj):
        if a.ci is not b.ci:
            rec('class %s became %s' % (a.ci.qual if a.ci else '?', b.ci.qual if b.ci else '?'))
            return
        if (id(a), id(b)) in visited:
            return
        visited.add((id(a), id(b)))
        cname = a.ci.name if a.ci else '?'
        for k in sorted(set(a.attrs) | set(b.attrs)):
            if pub is not None and not pub(a.ci, k):
                continue
            # the private store of a property is named by the property (the public name a user knows it by)
            nk = name_of(a.ci, k) if name_of is not None else k
            if k not in b.attrs:
                out.append((cname, nk, '%s.%s: missing after decoding' % (path, nk)))
            elif k not in a.attrs:
                out.append((cname, nk, '%s.%s: appears only after decoding' % (path, nk)))
            else:
                differences(a.attrs[k], b.attrs[k], '%s.%s' % (path, nk), out, depth + 1, cname, nk, visited, pub,
                            name_of, num)
        return
    if isinstance(a, Obj) or isinstance(b, Obj):
        rec('%s became %s' % (show(a, 40), 'a plain dict' if isinstance(b, DictV) else show(b, 40)))
        return
    if isinstance(a, ListV) and isinstance(b, ListV):
        if len(a) != len(b):
            rec('length %d became %d' % (len(a), len(b)))
            return
        if len(a) > 1 and all(isinstance(x, Obj) for x in a.items + b.items):
            # a list of objects (the polynomials of a Nasa9, the reactions of a set): when entries differ position by
            # position and every original entry is found unchanged at another position, what happened is said once -
            # the entries come back in another order - instead of once per number of every entry
            def unchanged(x, y):
                tmp = []
                differences(x, y, path, tmp, depth + 1, owner, attr, set(visited), pub, name_of, num)
                return not tmp
            if not all(unchanged(x, y) for x, y in zip(a.items, b.items)):
                now_at, free = [], list(range(len(b)))
                for x in a.items:
                    j = next((j_ for j_ in free if unchanged(x, b.items[j_])), None)
                    if j is None:
                        break
                    free.remove(j)
                    now_at.append(j)
                if len(now_at) == len(a):
                    rec('the same %d entries come back in another order (entry %s)' % (len(a), ', '.join(
                        '%d at position %d' % (i, j) for i, j in enumerate(now_at) if i != j)))
                    return
        for i, (x, y) in enumerate(zip(a.items, b.items)):
            differences(x, y, '%s[%d]' % (path, i), out, depth + 1, owner, attr, visited, pub, name_of, num)
        return
    if isinstance(a, DictV) and isinstance(b, DictV):
        for k in sorted(set(a.d) | set(b.d), key=str):
            if k not in a.d or k not in b.d:
                rec('key %r differs' % (k,))
            else:
                differences(a.d[k], b.d[k], '%s[%r]' % (path, k), out, depth + 1, owner, attr, visited, pub, name_of,
                            num)
        return
    if isinstance(a, Rat) and isinstance(b, Rat):
        if not a.eq(b) and not (num is not None and num(a).eq(num(b))):
            rec('%s became %s' % (show(a, 40), show(b, 40)))
        return
    if isinstance(a, DictV) or isinstance(b, DictV) or isinstance(a, ListV) or isinstance(b, ListV):
        rec('%s became %s' % ('a dict' if isinstance(a, DictV) else show(a, 40),
                              'a dict' if isinstance(b, DictV) else show(b, 40)))
        return
    if type(a) is not type(b) or a != b:
        rec('%s became %s' % (show(a, 40), show(b, 40)))


def class_at(enc, path):
    """class name of the innermost dictionary on a '$.a[0].b' path of the encoded value"""
    import re
    cur = enc
    name = None
    for tok in re.findall(r'\.([A-Za-z_0-9]+)|\[(\d+)\]', path):
        if isinstance(cur, DictV) and isinstance(cur.d.get('class'), str):
            name = cur.d['class']
        if tok[0] and isinstance(cur, DictV):
            cur = cur.d.get(tok[0])
        elif tok[1] and isinstance(cur, ListV):
            cur = cur.items[int(tok[1])]
    if isinstance(cur, DictV) and isinstance(cur.d.get('class'), str):
        name = cur.d['class']
    if name:
        return name.split("'")[1].split('.')[-1]
    return None


# ----------------------------------------------------------------------
# constructors

def builders(I, repo):
    D = I.D
    fr = Frame(I, repo.module('pmutt'), {}, None, None)

    def new(qual, **kw):
        ci = repo.cls(qual)
        try:
            o = fr.apply(ci, [], kw, None)
        except _RaisedExc as e:
            raise Problem('constructor of %s raises %s' % (qual, e.raised.exc))
        if isinstance(o, Raised):
            raise Problem('constructor of %s raises %s' % (qual, o.exc))
        return o

    def arr(prefix, n):
        v = ListV([D.sym('%s%d' % (prefix, i)) for i in range(n)])
        return v

    S = 'pmutt.statmech.'
    out = []

    def add(label, fn):
        out.append((label, fn))

    add('FreeTrans', lambda: new(S + 'trans.FreeTrans', n_degrees=D.sym('ndeg'), molecular_weight=D.sym('mw')))
    add('HarmonicVib', lambda: new(S + 'vib.HarmonicVib', vib_wavenumbers=arr('w', 2),
                                   imaginary_substitute=D.sym('wsub')))
    add('QRRHOVib', lambda: new(S + 'vib.QRRHOVib', vib_wavenumbers=arr('w', 2), Bav=D.sym('Bav'), v0=D.sym('v0'),
                                alpha=D.sym('alpha'), imaginary_substitute=D.sym('wsub')))
    add('EinsteinVib', lambda: new(S + 'vib.EinsteinVib', einstein_temperature=D.sym('thE'),
                                   interaction_energy=D.sym('uE')))
    add('DebyeVib', lambda: new(S + 'vib.DebyeVib', debye_temperature=D.sym('thD'), interaction_energy=D.sym('uD')))
    add('RigidRotor', lambda: new(S + 'rot.RigidRotor', symmetrynumber=D.sym('sigma'), rot_temperatures=arr('th', 3),
                                  geometry='nonlinear'))
    add('GroundStateElec', lambda: new(S + 'elec.GroundStateElec', potentialenergy=D.sym('E0'), spin=D.sym('spin'),
                                       D0=D.sym('D0')))
    add('EmptyNucl', lambda: new(S + 'nucl.EmptyNucl'))
    add('EmptyMode', lambda: new(S + 'EmptyMode'))
    add('ConstantMode', lambda: new(S + 'ConstantMode', q=D.sym('cq'), Cv=D.sym('cCv'), Cp=D.sym('cCp'), U=D.sym('cU'),
                                    H=D.sym('cH'), S=D.sym('cS'), F=D.sym('cF'), G=D.sym('cG'), notes='note'))
    add('GasPressureAdj', lambda: new('pmutt.empirical.GasPressureAdj'))
    add('PiecewiseCovEffect', lambda: new('pmutt.mixture.cov.PiecewiseCovEffect', name_i='A', name_j='B',
                                          intervals=ListV([C(0), D.sym('b1')]), slopes=arr('k', 2), name='cov1'))
    add('CatSite', lambda: new('pmutt.chemkin.CatSite', name='Pt', site_density=D.sym('sden'), density=D.sym('rho'),
                               bulk_specie='Pt(B)'))
    add('IdealGasEOS', lambda: new('pmutt.eos.IdealGasEOS'))
    add('vanDerWaalsEOS', lambda: new('pmutt.eos.vanDerWaalsEOS', a=D.sym('vdwa'), b=D.sym('vdwb')))

    def statmech(name='sp', refs=None, misc=None, tag=None):
        # tag: what the symbols of this species are called (two species may carry the same name, or none)
        tag = tag or name
        return new(S + 'StatMech', name=name,
                   trans_model=new(S + 'trans.FreeTrans', n_degrees=C(3), molecular_weight=D.sym('mw_' + tag)),
                   vib_model=new(S + 'vib.EinsteinVib', einstein_temperature=D.sym('thE_' + tag),
                                 interaction_energy=D.sym('u_' + tag)),
                   rot_model=new(S + 'EmptyMode'),
                   elec_model=new(S + 'elec.GroundStateElec', potentialenergy=D.sym('E_' + tag),
                                  spin=D.sym('spin_' + tag)),
                   nucl_model=new(S + 'nucl.EmptyNucl'),
                   elements=DictV({'H': D.sym('nH_' + tag)}), smiles='[HH]', notes='n1', references=refs,
                   misc_models=misc)
    add('StatMech', lambda: statmech())

    def nasa(name='nasa1', phase='G', misc=None, tag=None, **extra):
        tag = tag or name
        return new('pmutt.empirical.nasa.Nasa', name=name, **extra, T_low=D.sym('Tl_' + tag), T_mid=D.sym('Tm_' + tag),
                   T_high=D.sym('Th_' + tag), a_low=arr('al_' + tag, 7), a_high=arr('ah_' + tag, 7),
                   elements=DictV({'H': D.sym('nH_' + tag)}), phase=phase, notes='nn', smiles='C', n_sites=D.sym('ns_' + tag),
                   cat_site=new('pmutt.chemkin.CatSite', name='Pt', site_density=D.sym('sden'), density=D.sym('rho'),
                                bulk_specie='Pt(B)'), misc_models=misc)
    add('Nasa[gas]', lambda: nasa())
    add('Nasa[gas, adjustment disabled]', lambda: nasa('nasa3', 'G', None, add_gas_P_adj=False))
    add('Nasa[surface+cov]', lambda: nasa('nasa2', 'S', ListV([
        new('pmutt.mixture.cov.PiecewiseCovEffect', name_i='A', name_j='B', intervals=ListV([C(0), D.sym('b1')]),
            slopes=arr('k', 2), name='cov1')])))

    def single9(i):
        v = arr('a9_%d_' % i, 9)
        v.is_array = True
        return new('pmutt.empirical.nasa.SingleNasa9', T_low=D.sym('T9l%d' % i), T_high=D.sym('T9h%d' % i), a=v)
    add('SingleNasa9', lambda: single9(0))
    add('Nasa9', lambda: new('pmutt.empirical.nasa.Nasa9', name='n9', nasas=ListV([single9(0), single9(1)]),
                             n_sites=D.sym('ns9'), elements=DictV({'O': D.sym('nO')}), phase='S', notes='x'))

    def cov_model():
        return new('pmutt.mixture.cov.PiecewiseCovEffect', name_i='A', name_j='B',
                   intervals=ListV([C(0), D.sym('b1')]), slopes=arr('k', 2), name='cov1')

    # the polynomials of a Nasa9 are kept in the order the user listed them, and that order is part of what the
    # object is: the `nasas` getter returns them in it and a temperature that two intervals share (T_high of one is
    # T_low of the next) is answered by the one listed first.  The instances above list them upwards; these list
    # them downwards (the high-temperature interval first: bounds ranked by SEGMENT_BOUNDS, so that a writer or a
    # reader that sorts is decided) - the decoded object must hold the same polynomials in the same order
    add('Nasa9[three intervals listed from the highest temperature down]', lambda: new(
        'pmutt.empirical.nasa.Nasa9', name='n9c', nasas=ListV([single9(2), single9(3), single9(4)]),
        elements=DictV({'O': D.sym('nO')}), phase='G'))
    add('Nasa9[two intervals, the upper one listed first]', lambda: new(
        'pmutt.empirical.nasa.Nasa9', name='n9d', nasas=ListV([single9(5), single9(6)]),
        elements=DictV({'O': D.sym('nO')}), phase='G'))

    def shomate(phase='G', misc=None, name='sh1'):
        v = arr('sh', 8)
        v.is_array = True
        return new('pmutt.empirical.shomate.Shomate', name=name, T_low=D.sym('Tsl'), T_high=D.sym('Tsh'), a=v,
                   units='J/mol/K', n_sites=D.sym('nss'), elements=DictV({'C': D.sym('nC')}), phase=phase, notes='y',
                   misc_models=misc)
    add('Shomate', shomate)
    add('Shomate[surface+cov]', lambda: shomate('S', ListV([cov_model()]), 'sh2'))
    add('Nasa9[gas+cov]', lambda: new('pmutt.empirical.nasa.Nasa9', name='n9b', nasas=ListV([single9(0)]),
                                      n_sites=D.sym('ns9'), elements=DictV({'O': D.sym('nO')}), phase='gas',
                                      misc_models=ListV([cov_model()])))

    def reference(i):
        return new('pmutt.empirical.references.Reference', T_ref=D.sym('Tref'), HoRT_ref=D.sym('Href%d' % i),
                   name='ref%d' % i, elements=DictV({'H': D.sym('rH%d' % i)}), phase='G',
                   model=statmech('refsp%d' % i))
    add('Reference', lambda: reference(0))
    add('References', lambda: new('pmutt.empirical.references.References',
                                  offset=DictV({'H': D.sym('offH')}), references=ListV([reference(0)]),
                                  descriptor='elements', T_ref=D.sym('Tref')))
    add('StatMech[references+misc]', lambda: statmech('sp2', refs=new(
        'pmutt.empirical.references.References', offset=DictV({'H': D.sym('offH')}), references=None,
        descriptor='elements', T_ref=D.sym('Tref')), misc=ListV([new('pmutt.empirical.GasPressureAdj')])))
    add('BEP', lambda: new('pmutt.reaction.bep.BEP', slope=D.sym('bslope'), intercept=D.sym('bicpt'), name='bep1',
                           descriptor='delta_H', elements=DictV({'H': D.sym('bH')}), notes='bn'))

    def rxn(qual, **extra):
        kw = dict(reactants=ListV([nasa('r1'), nasa('r2')]), reactants_stoich=ListV([D.sym('nu1'), D.sym('nu2')]),
                  products=ListV([nasa('p1')]), products_stoich=ListV([D.sym('nu3')]),
                  transition_state=ListV([nasa('ts1')]), transition_state_stoich=ListV([C(1)]), notes='rxn note')
        kw.update(extra)
        return new(qual, **kw)
    add('Reaction', lambda: rxn('pmutt.reaction.Reaction'))
    # the numbers most often given for the kinetic parameters: zero (before the instances with symbolic parameters: a
    # test on the value of a parameter is decidable here)
    add('SurfaceReaction[beta and Ea zero]', lambda: rxn('pmutt.omkm.reaction.SurfaceReaction', id='r_0005',
                                                         is_adsorption=False, A=D.sym('Apre'), beta=C(0), Ea=C(0),
                                                         direction='cleavage', notes=None))
    add('ChemkinReaction[beta zero, no adsorption]', lambda: rxn('pmutt.reaction.ChemkinReaction', beta=C(0),
                                                                 is_adsorption=False, notes=None))
    add('ChemkinReaction', lambda: rxn('pmutt.reaction.ChemkinReaction', beta=D.sym('beta'), is_adsorption=True,
                                       sticking_coeff=D.sym('stick')))
    add('SurfaceReaction', lambda: rxn('pmutt.omkm.reaction.SurfaceReaction', id='r_0001', is_adsorption=False,
                                       A=D.sym('Apre'), beta=D.sym('beta'), Ea=D.sym('Ea'), direction='cleavage',
                                       use_motz_wise=True))
    add('Reactions', lambda: new('pmutt.reaction.Reactions', reactions=ListV([rxn('pmutt.reaction.Reaction')])))
    add('PhaseDiagram', lambda: new('pmutt.reaction.phasediagram.PhaseDiagram',
                                    reactions=ListV([rxn('pmutt.reaction.Reaction')]),
                                    norm_factors=ListV([D.sym('nf0')])))
    add('LSR', lambda: new(S + 'lsr.LSR', slope=D.sym('lslope'), intercept=D.sym('licpt'),
                           reaction=rxn('pmutt.reaction.Reaction'), surf_species=statmech('surf'),
                           gas_species=statmech('gas'), notes='ln'))
    add('LSR[numeric reaction]', lambda: new(S + 'lsr.LSR', slope=D.sym('lslope'), intercept=D.sym('licpt'),
                                             reaction=D.sym('dE_ref'), surf_species=D.sym('E_surf'),
                                             gas_species=D.sym('E_gas')))
    add('ExtendedLSR', lambda: new(S + 'lsr.ExtendedLSR', slopes=ListV([D.sym('e0')]), intercept=D.sym('eicpt'),
                                   reactions=ListV([rxn('pmutt.reaction.Reaction')]),
                                   surf_species=ListV([statmech('surf')]), gas_species=ListV([statmech('gas')])))
    add('omkm.BEP', lambda: new('pmutt.omkm.reaction.BEP', slope=D.sym('bslope'), intercept=D.sym('bicpt'),
                                name='bep2', descriptor='delta_H', direction='cleavage'))

    # ---- every option once with a value that is NOT the constructor's default (a key that is not written, or
    # not read back, otherwise returns with the same value), and the documented "(N,) ndarray" attributes once as
    # the array the documentation names and once left to the constructor's default
    def nparr(prefix, n):
        v = arr(prefix, n)
        v.is_array = True
        return v
    add('PhaseDiagram[default norm_factors]', lambda: new('pmutt.reaction.phasediagram.PhaseDiagram',
                                                          reactions=ListV([rxn('pmutt.reaction.Reaction')])))
    add('PhaseDiagram[ndarray norm_factors]', lambda: new('pmutt.reaction.phasediagram.PhaseDiagram',
                                                          reactions=ListV([rxn('pmutt.reaction.Reaction')]),
                                                          norm_factors=nparr('nfa', 1)))
    add('SurfaceReaction[adsorption]', lambda: rxn('pmutt.omkm.reaction.SurfaceReaction', id='r_0002',
                                                   is_adsorption=True, sticking_coeff=D.sym('stick'),
                                                   Ea=D.sym('Ea'), direction='synthesis', use_motz_wise=True))
    add('ExtendedLSR[notes, ndarray slopes]', lambda: new(
        S + 'lsr.ExtendedLSR', slopes=nparr('es', 1), intercept=D.sym('eicpt'),
        reactions=ListV([rxn('pmutt.reaction.Reaction')]), surf_species=ListV([statmech('surf')]),
        gas_species=ListV([statmech('gas')]), notes='source of the relation'))
    add('References[descriptor=notes]', lambda: new(
        'pmutt.empirical.references.References', offset=DictV({'CH3': D.sym('offCH3'), 'OH': D.sym('offOH')}),
        references=None, descriptor='notes', T_ref=D.sym('Tref2')))
    add('StatMech[references by notes]', lambda: statmech('sp3', refs=new(
        'pmutt.empirical.references.References', offset=DictV({'CH3': D.sym('offCH3'), 'OH': D.sym('offOH')}),
        references=None, descriptor='notes', T_ref=D.sym('Tref2'))))
    add('Shomate[units]', lambda: new('pmutt.empirical.shomate.Shomate', name='sh3', T_low=D.sym('Tsl'),
                                      T_high=D.sym('Tsh'), a=nparr('shb', 8), units='cal/mol/K',
                                      elements=DictV({'C': D.sym('nC')}), phase='G'))
    add('BEP[descriptor]', lambda: new('pmutt.reaction.bep.BEP', slope=D.sym('bslope'), intercept=D.sym('bicpt'),
                                       name='bep3', descriptor='rev_delta_H'))
    add('Reaction[no transition state]', lambda: rxn('pmutt.reaction.Reaction', transition_state=None,
                                                     transition_state_stoich=None, notes=None))

    # ---- white-box review, round 2
    # a transition state's imaginary mode (negative wavenumber, rank of wi below zero): dropped from, or replaced
    # in, what the model computes with - the vib_wavenumbers the user gave must come back as given
    for cls_, extra_ in (('HarmonicVib', {}), ('QRRHOVib', dict(Bav=D.sym('Bav'), v0=D.sym('v0'),
                                                                alpha=D.sym('alpha')))):
        add('%s[imaginary mode, no substitute]' % cls_,
            lambda cls_=cls_, extra_=extra_: new(S + 'vib.' + cls_, vib_wavenumbers=ListV([D.sym('wi'), D.sym('w1')]),
                                                 imaginary_substitute=None, **extra_))
        add('%s[imaginary mode, substitute]' % cls_,
            lambda cls_=cls_, extra_=extra_: new(S + 'vib.' + cls_, vib_wavenumbers=ListV([D.sym('wi'), D.sym('w1')]),
                                                 imaginary_substitute=D.sym('wsub'), **extra_))

    # a surface reaction whose transition state is an OpenMKM BEP relation: the reaction registers itself with the
    # relation (back reference), in the list named by its direction
    def bep_rxn(direction, rid):
        return rxn('pmutt.omkm.reaction.SurfaceReaction', id=rid, is_adsorption=False, A=D.sym('Apre'),
                   beta=D.sym('beta'), Ea=D.sym('Ea'), direction=direction, notes=None,
                   transition_state=ListV([new('pmutt.omkm.reaction.BEP', slope=D.sym('bslope'),
                                               intercept=D.sym('bicpt'), name='CH', descriptor='delta_H',
                                               direction=direction)]))
    add('SurfaceReaction[BEP transition state, cleavage]', lambda: bep_rxn('cleavage', 'r_0003'))
    add('SurfaceReaction[BEP transition state, synthesis]', lambda: bep_rxn('synthesis', 'r_0004'))

    # a reaction set with more than one reaction in which species agree in their name and differ elsewhere (water as
    # liquid and as vapour told apart by the phase), species without a name (name=None for every one of them), and a
    # species that takes part in two reactions
    def plain_rxn(reactants, rst, products, pst):
        return new('pmutt.reaction.Reaction', reactants=ListV(reactants), reactants_stoich=ListV(rst),
                   products=ListV(products), products_stoich=ListV(pst))

    def shared_names():
        wl, wg = nasa('w', 'L', tag='wl'), nasa('w', 'G', tag='wg')
        u1, u2 = statmech(None, tag='u1'), statmech(None, tag='u2')
        return ListV([plain_rxn([wl], [D.sym('nu1')], [wg], [D.sym('nu2')]),
                      plain_rxn([wg, u1], [D.sym('nu3'), D.sym('nu4')], [u2], [D.sym('nu5')])])
    # options no other instance passes: a model kept inside an empirical species and no catalyst site; a species left
    # with the constructor's default (shared) empty modes; modes given as classes plus their keyword arguments (what
    # the presets do); a linear rotor; a point group instead of a symmetry number; an extended relation over numbers
    add('Nasa[model, no catalyst site]', lambda: new(
        'pmutt.empirical.nasa.Nasa', name='nasa4', T_low=D.sym('Tl_n4'), T_mid=D.sym('Tm_n4'), T_high=D.sym('Th_n4'),
        a_low=arr('al_n4', 7), a_high=arr('ah_n4', 7), phase='G', model=statmech('inner')))
    add('StatMech[default modes]', lambda: new(S + 'StatMech', name='bare', elements=DictV({'H': D.sym('nH_bare')})))
    add('StatMech[mode classes and their arguments]', lambda: new(
        S + 'StatMech', name='preset', trans_model=repo.cls(S + 'trans.FreeTrans'), n_degrees=C(3),
        molecular_weight=D.sym('mw_preset'), elec_model=repo.cls(S + 'elec.GroundStateElec'),
        potentialenergy=D.sym('E_preset'), spin=D.sym('spin_preset')))
    add('RigidRotor[linear]', lambda: new(S + 'rot.RigidRotor', symmetrynumber=D.sym('sigma'),
                                          rot_temperatures=arr('th', 1), geometry='linear'))
    # the documented default rot_temperatures=None (a monatomic species has no rotational temperatures): must be
    # written as None and come back as None (fixed in f5552c6: list(None) in to_dict)
    add('RigidRotor[monatomic, default rot_temperatures]',
        lambda: new(S + 'rot.RigidRotor', symmetrynumber=D.sym('sigma'), geometry='monatomic'))
    add('RigidRotor[point group]', lambda: new(S + 'rot.RigidRotor', symmetrynumber='C2v',
                                               rot_temperatures=arr('th', 3), geometry='nonlinear'))
    add('ExtendedLSR[numeric reactions, default species]', lambda: new(
        S + 'lsr.ExtendedLSR', slopes=ListV([D.sym('e0'), D.sym('e1')]), intercept=D.sym('eicpt'),
        reactions=ListV([D.sym('dE0'), D.sym('dE1')])))

    # stoichiometric coefficients written as integers (2 H2 + O2 -> 2 H2O): the symbols are declared to stand for
    # Python ints, so that an array made of them has an integer element type and list() of it holds numpy integers
    def int_rxn(qual, **extra):
        I.int_syms.update(('nui1', 'nui2', 'nui3', 'nui4'))
        return rxn(qual, reactants_stoich=ListV([D.sym('nui1'), D.sym('nui2')]),
                   products_stoich=ListV([D.sym('nui3')]), transition_state_stoich=ListV([D.sym('nui4')]), notes=None,
                   **extra)
    # numbers typed without a decimal point (wavenumbers 3650, 1595; intervals 0, 1; a slope of 2): lists of Python
    # ints.  A class that turns such a list into an array holds numpy integers, and list() of that array is not
    # something json can write itself: it is the encoder's default() that has to
    def ints(*names):
        I.int_syms.update(names)
        return ListV([D.sym(n_) for n_ in names])
    add('QRRHOVib[integer wavenumbers]', lambda: new(S + 'vib.QRRHOVib', vib_wavenumbers=ints('w0i', 'w1i'),
                                                     Bav=D.sym('Bav'), v0=D.sym('v0'), alpha=D.sym('alpha')))
    add('PiecewiseCovEffect[integer intervals and slopes]', lambda: new(
        'pmutt.mixture.cov.PiecewiseCovEffect', name_i='A', name_j='B',
        intervals=ListV([C(0)] + ints('b1i').items), slopes=ints('k0i', 'k1i'), name='cov2'))
    add('RigidRotor[integer rot_temperatures]', lambda: new(S + 'rot.RigidRotor', symmetrynumber=D.sym('sigma'),
                                                            rot_temperatures=ints('th0i', 'th1i', 'th2i'),
                                                            geometry='nonlinear'))
    add('ExtendedLSR[integer slopes, numeric reactions]', lambda: new(
        S + 'lsr.ExtendedLSR', slopes=ints('e0i', 'e1i'), intercept=D.sym('eicpt'),
        reactions=ListV([D.sym('dE0'), D.sym('dE1')])))
    # (fixed in f96063f: the encoder writes numpy integers as ints and arrays as lists) a class that turns the list
    # into an array - HarmonicVib does - and the arrays of whole numbers a caller hands in as they are
    def int_array(*names):
        # what np.array([1, 2]) is for the interpreter: an array whose list()/iteration hands out numpy integers
        return I.native['numpy.array'](I, fr, [ints(*names)], {}, None)
    add('HarmonicVib[integer wavenumbers]', lambda: new(S + 'vib.HarmonicVib', vib_wavenumbers=ints('w0i', 'w1i')))
    add('StatMech[integer wavenumbers]', lambda: new(
        S + 'StatMech', name='h2o', trans_model=repo.cls(S + 'trans.FreeTrans'), n_degrees=C(3),
        molecular_weight=D.sym('mw_h2o'), vib_model=repo.cls(S + 'vib.HarmonicVib'),
        vib_wavenumbers=ints('w0i', 'w1i'), elements=DictV({'H': D.sym('nH_h2o')})))
    add('PhaseDiagram[integer ndarray norm_factors]', lambda: new(
        'pmutt.reaction.phasediagram.PhaseDiagram', reactions=ListV([rxn('pmutt.reaction.Reaction')]),
        norm_factors=int_array('nfi0')))
    add('Shomate[integer ndarray]', lambda: new(
        'pmutt.empirical.shomate.Shomate', name='sh4', T_low=D.sym('Tsl'), T_high=D.sym('Tsh'),
        a=int_array(*['shi%d' % i_ for i_ in range(8)]), elements=DictV({'C': D.sym('nC')}), phase='G'))
    add('Reaction[integer ndarray stoichiometry]', lambda: rxn(
        'pmutt.reaction.Reaction', reactants_stoich=int_array('nua1', 'nua2'), products_stoich=int_array('nua3'),
        transition_state_stoich=int_array('nua4'), notes=None))
    add('Reaction[integer stoichiometry]', lambda: int_rxn('pmutt.reaction.Reaction'))
    add('ChemkinReaction[integer stoichiometry]', lambda: int_rxn('pmutt.reaction.ChemkinReaction',
                                                                  beta=D.sym('beta'), is_adsorption=False))
    add('Reactions[integer stoichiometry]',
        lambda: new('pmutt.reaction.Reactions', reactions=ListV([int_rxn('pmutt.reaction.Reaction')])))
    add('Reactions[two reactions, species sharing a name]',
        lambda: new('pmutt.reaction.Reactions', reactions=shared_names()))
    add('PhaseDiagram[two reactions, species sharing a name]',
        lambda: new('pmutt.reaction.phasediagram.PhaseDiagram', reactions=shared_names(),
                    norm_factors=ListV([D.sym('nf0'), D.sym('nf1')])))
    return out


def fingerprint(v, seen=None):
    """the state of an object as a nested tuple (attribute names and values, identity of containers not included)"""
    seen = {} if seen is None else seen
    if isinstance(v, Obj):
        if id(v) in seen:
            return ('ref', seen[id(v)])
        seen[id(v)] = len(seen)
        return ('obj', v.ci.qual if v.ci else v.name,
                tuple((k, fingerprint(x, seen)) for k, x in sorted(v.attrs.items(), key=lambda kv: str(kv[0]))))
    if isinstance(v, ListV):
        return ('list', bool(getattr(v, 'is_array', False)), tuple(fingerprint(x, seen) for x in v.items))
    if isinstance(v, DictV):
        return ('dict', tuple((repr(k), fingerprint(x, seen)) for k, x in v.d.items()))
    return repr(v)


HIST_ARGS = ('T', 'P', 'V', 'n')     # what a history step may be called with: symbols of these names


def getter_calls(repo, ci):
    """the history of an object: every public get_* method of its class (found through the MRO, resolved by
    find_method) that can be called with a temperature / pressure / volume / amount alone -> [(name, parameter names
    to pass)]; getters that need further arguments (a unit, a state name) are not part of the enumerated histories"""
    names = []
    for k in ci.mro:
        for nm in k.methods:
            if nm.startswith('get_') and '.' not in nm and nm not in names:
                names.append(nm)
    calls = []
    for nm in names:
        got = repo.find_method(ci, nm, missing_ok=True)
        if not got:
            continue
        deco = [ast.unparse(d_) for d_ in got[1].decorator_list]
        if deco and deco != ['staticmethod']:
            continue
        a = got[1].args
        # a getter that never touches the object may be a static method: called through the instance all the same
        pos = [x.arg for x in a.posonlyargs + a.args][0 if deco else 1:]
        required = pos[:len(pos) - len(a.defaults)] + [x.arg for x, d_ in zip(a.kwonlyargs, a.kw_defaults) if d_ is None]
        if any(p_ not in HIST_ARGS for p_ in required):
            continue
        give = list(required)
        if 'T' not in give and ('T' in pos or 'T' in [x.arg for x in a.kwonlyargs] or a.kwarg is not None):
            give.append('T')
        calls.append((nm, give))
    return calls


def new_interp(repo, order=None):
    """numbers the package prints and reads back on the way into or out of the dictionary (float('{:.8E}'.format(a)))
    are the numbers as printed - named by their format - not the numbers that were printed"""
    I = Interp(repo, order=order)
    I.track_print_precision = True
    return I


def check(run, repo):
    run.explanation = (
        'Every serialisable class named by the property is instantiated through its real constructor with symbolic '
        'attribute values (nested: species inside reactions inside reaction sets; two reactions whose species share a '
        'name or have none; a reaction registered with the BEP relation that is its transition state; an imaginary '
        'wavenumber with and without substitute; kinetic parameters that are zero; integer stoichiometry); the real '
        'to_dict is interpreted, the result encoded as pmuttEncoder/json would (dict, list, tuple, text, number, bool '
        'and None are written; objects, sets, map/filter/zip/generator objects and anything else go through the '
        'interpreted default(); numpy arrays and lists of numpy integers are not encodable; keys become texts) and '
        'decoded bottom-up '
        'through the real json_to_pmutt, type_to_class and from_dict code. Decided per class: encoding succeeds; the '
        'decoded value is an object of the same class (registry entry present, class string matches); every attribute '
        'of the original equals the decoded one (constructor state written, read back under the right key, not '
        're-typed); the dictionary given to the decoder is unchanged; a second encode/decode cycle gives the same '
        'object. Histories: the same cycle after the public getters of the object have been called (each alone on an '
        'object of its own, and all of them on one object at two temperatures) - what a getter leaves behind must not '
        'keep the object from being encoded and decoded, and its public state (public attributes, property values) '
        'must come back. A number the package prints and reads back on the way (float of a formatted text) is the '
        'number as rounded by that format: equal to the original only for the plain conversion or 17 significant '
        'digits. Lists of numbers typed as integers are instances of their own. The encoder is interpreted on objects '
        'of a class outside the package it cannot serialise: default() must not return.')
    run.assumptions = ['json.dumps/loads modelled structurally: dict/list/str/number/bool/None pass through, tuples '
                       'become lists, any other value goes through pmuttEncoder.default; json writes a float as the '
                       'shortest text that reads back to the same float (exact)',
                       'the symbols of quantities the documentation restricts to positive values (van der Waals '
                       'constants, characteristic temperatures, molecular weight, densities) carry a valid witness '
                       'value: a validation of such an attribute is decided for it',
                       'json.JSONEncoder.default (the base class, outside the repository) raises TypeError',
                       'list versus ndarray is not distinguished when comparing attributes',
                       'quick tier: histories for the objects that hold no other pMuTT object (mode models, equations '
                       'of state, adjustments); thorough tier: for every instance']
    run.undecided = ['rounding by round()/np.round/narrow float types (refused), only rounding through printed text is '
                     'decided',
                     'a whole-number constant as dictionary key (written as "1" or "1.0": refused)',
                     'NumPy integers reached by iterating over or indexing an integer array (list()/tuple() of one is '
                     'decided); integer constants are not told from floats, the integer instances use declared symbols',
                     'equality of getter values beyond attribute equality (constructors are deterministic by '
                     'inspection)',
                     'histories through getters that need more than T/P/V/n (units, state names), setters, and the '
                     'mutating methods of reaction sets']
    jm = repo.module(JSON)
    for f in ('json_to_pmutt', 'type_to_class', 'remove_class'):
        if f not in jm.functions:
            raise AnchorError('%s.%s not found' % (JSON, f))
        run.fn('%s.%s' % (JSON, f))
    # the object hook sees every dictionary of the document, including free-form ones kept in notes: whatever is not
    # the serialised form of a registered class must come back untouched (not raise, not be converted)
    hook = jm.functions['json_to_pmutt']
    Ih = Interp(repo)
    plain = [('no class entry', DictV({'family': 'alcohol', 'n': C(3)})),
             ('class entry that is no pMuTT class', DictV({'family': 'alcohol', 'class': 'oxygenate'})),
             ('class entry that is a number', DictV({'class': C(3)})),
             ('class entry that is a list', DictV({'class': ListV(['a', 'b'])})),
             ('empty', DictV({}))]
    for lab, d_ in plain:
        snap = dict(d_.d)
        r = Ih.call_function(jm, hook, [], {'json_obj': d_})
        run.check(r is d_ and d_.d == snap, 'PATH.hook-passthrough', 'json.json_to_pmutt', lab,
                  'a dictionary that is not a serialised pMuTT object (%s) must be returned unchanged by the object '
                  'hook; got %s' % (lab, show(r, 80)), jm, hook, sample='json_to_pmutt(%s) is the same dictionary' % lab)
    # a witness value for the quantities the documentation restricts in sign or order (wavenumbers, interval bounds,
    # van der Waals constants, characteristic temperatures, masses, densities): a validation of such an attribute
    # (`if val <= 0.: raise ValueError`) is decided for a valid value, which is what the property quantifies over
    VALID = {'w0': 5, 'w1': 7, 'b1': 3, 'wi': -5, 'wsub': 2, 'w0i': 5, 'w1i': 7, 'b1i': 3,
             'vdwa': Fr(547, 1000), 'vdwb': Fr(305, 10 ** 7), 'thE': 215, 'thD': 215, 'mw': Fr(1802, 100),
             'sden': Fr(25, 10 ** 10), 'rho': Fr(2145, 100)}
    # the temperature bounds of the Nasa9 intervals (T_low < T_high within one, T_high of one is T_low of the next):
    # intervals 0-1 are listed upwards, 2-3-4 and 5-6 downwards.  A to_dict/from_dict that orders the intervals by
    # temperature is decided for these instead of being refused
    SEGMENT_BOUNDS = {'T9l0': 100, 'T9h0': 500, 'T9l1': 500, 'T9h1': 1000,
                      'T9l2': 1000, 'T9h2': 6000, 'T9l3': 500, 'T9h3': 1000, 'T9l4': 100, 'T9h4': 500,
                      'T9l5': 500, 'T9h5': 1000, 'T9l6': 100, 'T9h6': 500}
    VALID.update(SEGMENT_BOUNDS)
    order = RankOrder(dict(VALID), const_ranks=True)
    I0 = new_interp(repo, order)
    labels = [lab for lab, _ in builders(I0, repo)]
    run.floor('serialisable classes', len(labels), 30)

    def is_public(ci, k):
        """public state: a public attribute, or the private store of a property of the same name"""
        if not k.startswith('_'):
            return True
        got = repo.find_method(ci, k[1:], missing_ok=True) if ci is not None else None
        return bool(got) and any(ast.unparse(d_) == 'property' for d_ in got[1].decorator_list)

    def public_name(ci, k):
        if k.startswith('_') and not k.startswith('__') and is_public(ci, k):
            return k[1:]
        return k

    def cycle(I, label, obj, hist=None):
        """one object through encode -> decode -> compare -> encode; hist: the calls made on the object before
        (None: the object as its constructor left it)"""
        tail = '' if hist is None else ' after getters'
        after = '' if hist is None else ' after the calls %s' % hist
        ci = obj.ci
        owner_td = repo.find_method(ci, 'to_dict', missing_ok=True)
        owner_fd = repo.find_method(ci, 'from_dict', missing_ok=True)
        mod_td, fn_td = (owner_td[0].module, owner_td[1]) if owner_td else (ci.module, ci.node)
        mod_fd, fn_fd = (owner_fd[0].module, owner_fd[1]) if owner_fd else (ci.module, ci.node)
        run.fn(ci.qual + '.to_dict', ci.qual + '.from_dict')
        # encode
        try:
            enc = encode(I, obj)
        except Problem as e:
            run.fail('TABLE.encode', ci.name, 'encode' + tail, 'encoding fails (%s%s): %s' % (label, after, e),
                     mod_td, fn_td, sig=re.sub(r'#\d+', '', str(e)))
            return
        run.ok('TABLE.encode', label + tail)
        # decode
        mutated = []
        try:
            dec = decode(I, jm, deep_copy(enc), mutated)
        except Problem as e:
            where = str(e).split(':')[0]
            inner = class_at(enc, where) or ci.name
            run.fail('TABLE.decode', inner, 'decode' + tail,
                     'decoding fails (met while round-tripping %s%s): %s' % (label, after, e), mod_fd, fn_fd)
            return
        if not isinstance(dec, Obj):
            cls_str = enc.d.get('class') if isinstance(enc, DictV) else None
            run.fail('TABLE.registry', ci.name if label != 'omkm.BEP' else 'omkm.BEP', 'decoded-class' + tail,
                     'decoding returns %s instead of a %s object: class string %s is not resolved by type_to_class '
                     '(not registered, or not a plain string)' % ('the dictionary' if isinstance(dec, DictV)
                                                                   else show(dec, 40), ci.name, show(cls_str, 80)),
                     jm, jm.functions['type_to_class'])
            return
        run.ok('TABLE.registry', label + tail)
        diffs = []
        # an object that has been used is compared by its public state (public attributes and what the property
        # getters return): a cache a getter left behind is not part of what the property promises to restore
        differences(obj, dec, label, diffs, pub=None if hist is None else is_public, name_of=public_name,
                    num=lambda r_: unprinted(I, r_))
        # one finding per (class, attribute, what happened to the value): nested occurrences of the same defect
        # collapse, a different defect at the same attribute does not
        seen = set()
        for cname, attr, dmsg in diffs:
            what = re.sub(r'#\d+', '', dmsg.split(': ', 1)[-1])
            if (cname, attr, what) in seen:
                continue
            seen.add((cname, attr, what))
            run.fail('TABLE.roundtrip', cname, 'attr:' + attr, 'after encode/decode%s ' % after + dmsg, mod_td, fn_td,
                     sig=what)
        if not diffs:
            run.ok('TABLE.roundtrip', label + tail,
                   sample='%s%s: decode(encode(obj)) has the same class and attributes' % (label, after))
        # decoding must not alter the dictionary it was given
        top = [m_ for m_ in mutated]
        if top:
            keys = sorted({k for _, ks, _ in top for k in ks})
            run.fail('EFFECT.decode-mutates', 'json.remove_class', 'caller-dict',
                     'decoding alters the dictionary it was given (keys %s removed at %s): decoding the same '
                     'dictionary again no longer finds the class' % (keys, top[0][0]), jm, jm.functions['remove_class'])
        else:
            run.ok('EFFECT.decode-mutates', label + tail)
        # second cycle
        try:
            enc2 = encode(I, dec)
            ok2 = deep_same(enc, enc2, lambda r_: unprinted(I, r_))
        except Problem as e:
            ok2 = False
        if not diffs and hist is None:
            run.check(ok2, 'TABLE.repeat', label, 'second-cycle',
                      'encoding the decoded object does not give the same dictionary again', mod_td, fn_td)
        if hist is not None:
            return
        # the direct path: the nested dictionary as to_dict()/a stored document gives it, handed to the decoder as
        # it is (from_dict decodes the nested entries itself). The dictionary must come out as it went in - at every
        # depth - or decoding it a second time meets objects where it expects dictionaries.
        try:
            stored = deep_copy(enc)
            snap = deep_copy(enc)
            r_ = I.call_function(jm, jm.functions['json_to_pmutt'], [stored], {})
        except (Unsupported, Problem):
            r_ = None
        if isinstance(r_, Obj):
            def first_diff(x, y, path='$'):
                if isinstance(x, DictV) and isinstance(y, DictV):
                    if list(x.d) != list(y.d):
                        return path, 'keys %s became %s' % (sorted(map(str, y.d)), sorted(map(str, x.d)))
                    for k_ in x.d:
                        got_ = first_diff(x.d[k_], y.d[k_], '%s[%r]' % (path, k_))
                        if got_:
                            return got_
                    return None
                if isinstance(x, ListV) and isinstance(y, ListV) and len(x) == len(y):
                    for i_, (p_, q_) in enumerate(zip(x.items, y.items)):
                        got_ = first_diff(p_, q_, '%s[%d]' % (path, i_))
                        if got_:
                            return got_
                    return None
                if deep_same(x, y):
                    return None
                return path, 'is now %s' % (('a %s object' % x.ci.name) if isinstance(x, Obj) and x.ci else show(x, 60))
            fd_ = first_diff(stored, snap)
            o_fd = repo.find_method(ci, 'from_dict', missing_ok=True)
            run.check(fd_ is None, 'EFFECT.decode-mutates', ci.name + '.from_dict', 'nested entries of the caller\'s dictionary',
                      'decoding the dictionary of a %s directly alters it: %s %s (decoding is not repeatable)'
                      % (label, fd_[0] if fd_ else '', fd_[1] if fd_ else ''),
                      o_fd[0].module if o_fd else jm, o_fd[1] if o_fd else jm.functions['json_to_pmutt'])


    for idx, label in enumerate(labels):
        I = new_interp(repo, order)
        fn_build = builders(I, repo)[idx][1]
        try:
            obj = fn_build()
        except Problem as e:
            run.fail('TABLE.construct', label, 'constructor', str(e), jm, None)
            continue
        cycle(I, label, obj)

    # ---- histories: the property quantifies over objects "the library can construct" and their histories, not only
    # over objects fresh from the constructor. Every instance is used first - each public getter that takes a
    # temperature (pressure, volume, amount) alone is called, at two temperatures - and then sent through the cycle:
    # whatever the getters leave behind in the object (a memo, a flag, a rewritten attribute) must not keep it from
    # being encoded and decoded, and the public state must come back.
    def hist_rank(name):
        # temperature bounds of the empirical species, so that T (300) and T2 (700) lie inside the fitted range
        for pre, rk in (('Tl_', 100), ('Tm_', 500), ('Th_', 1000), ('T9l', 100), ('T9h', 1000), ('Tsl', 100),
                        ('Tsh', 1000)):
            if name.startswith(pre):
                return rk
        return None
    order_h = RankOrder({**VALID, 'T': 300, 'T2': 700, 'P': 1, 'V': 1, 'n': 1}, const_ranks=True, fallback=hist_rank)
    def holds_objects(v, top=True):
        if isinstance(v, Obj):
            return (not top) or any(holds_objects(x, False) for x in v.attrs.values())
        if isinstance(v, ListV):
            return any(holds_objects(x, False) for x in v.items)
        if isinstance(v, DictV):
            return any(holds_objects(x, False) for x in v.d.values())
        return False
    n_hist = 0
    for idx, label in enumerate(labels):
        I = new_interp(repo, order_h)
        try:
            obj = builders(I, repo)[idx][1]()
        except Problem:
            continue                    # reported above
        if run.tier != 'thorough' and holds_objects(obj):
            continue                    # quick tier: the objects that hold no other pMuTT object (mode models,
            #                             equations of state, adjustments, single polynomials); the rest: thorough
        calls = getter_calls(repo, obj.ci)
        # (a) each getter alone, on an object of its own: what a single call leaves behind
        for nm, give in calls:
            obj = builders(I, repo)[idx][1]()
            before = fingerprint(obj)
            try:
                I.call_method(obj, nm, [], {p_: I.D.sym(p_) for p_ in give})
            except _RaisedExc:
                pass                    # a getter that refuses its arguments is a history step like any other
            if fingerprint(obj) == before:
                # the call left nothing behind in the object: the cycle is the one of the fresh object, done above
                # (the thorough tier still cycles every object after the whole sequence, (b))
                run.ok('EFFECT.getter-state', '%s.%s' % (label, nm))
                continue
            cycle(I, label, obj, hist='%s(%s)' % (nm, ', '.join(give)))
        # (b) all of them on one object, each at two temperatures: what the calls leave behind for each other
        if len(calls) > 1:
            obj = builders(I, repo)[idx][1]()
            before = fingerprint(obj)
            for nm, give in calls:
                for t_ in ('T', 'T2'):
                    try:
                        I.call_method(obj, nm, [], {p_: I.D.sym(t_ if p_ == 'T' else p_) for p_ in give})
                    except _RaisedExc:
                        pass
                    if 'T' not in give:
                        break
            if run.tier != 'thorough' and fingerprint(obj) == before:
                run.ok('EFFECT.getter-state', '%s.%s' % (label, 'all getters'))
            else:
                cycle(I, label, obj, hist='%s, each at T and at T2' % ', '.join(nm for nm, _ in calls))
        n_hist += 1 if calls else 0
    run.floor('instances with a history', n_hist, 18 if run.tier != 'thorough' else 55)

    # encoder: what json cannot write and the package cannot turn into a dictionary must end in the TypeError of
    # the base encoder - decided by interpreting default() on such objects, not by the shape of its statements
    def no_to_dict(I_, o_, a_, k_):
        raise _RaisedExc(Raised('AttributeError'))
    Ie = Interp(repo)
    got_enc = repo.find_method(jm.classes['pmuttEncoder'], 'default', missing_ok=True) if 'pmuttEncoder' in jm.classes \
        else None
    if not got_enc:
        raise AnchorError('pmuttEncoder.default not found')
    run.fn(JSON + '.pmuttEncoder.default')
    # (1) no to_dict at all: json's contract for default() is the TypeError of the base class; (2) a to_dict that
    # fails with AttributeError (an object half built): the pinned encoder turns that into the same TypeError, an
    # encoder that looks the method up first lets the AttributeError through - either way default() must not return.
    # The stand-ins are objects of a class of the user's (not of the package): they have what every Python object
    # has - a class with a name and a module, a __dict__, a repr - and nothing else
    r = call_default(Ie, foreign_object('plain object', 'Measurement'))
    run.check(isinstance(r, Raised) and r.exc == 'TypeError', 'PATH.encoder', 'pmuttEncoder.default', 'fallback',
              'an object without to_dict is not handed to the base encoder (which raises TypeError): default() gives %s'
              % show(r, 60), got_enc[0].module, got_enc[1], sig='no to_dict')
    r = call_default(Ie, foreign_object('half-built object', 'Draft', opaque_methods={'to_dict': no_to_dict}))
    run.check(isinstance(r, Raised), 'PATH.encoder', 'pmuttEncoder.default', 'fallback',
              'an object whose to_dict raises AttributeError is encoded as %s instead of being refused' % show(r, 60),
              got_enc[0].module, got_enc[1], sig='to_dict raises')


J_ = 'pmutt/io/json.py'
MUTANTS = [
    {'name': 'the encoder strips the class entry', 'expect': ('', ''),
     'edits': [(J_, "        else:\n            return o_dict", "        else:\n            o_dict.pop('class', None)\n            return o_dict")]},
    {'name': 'registry entry for Shomate removed', 'expect': ('TABLE.registry', 'Shomate'),
     'edits': [(J_, '''        "<class 'pmutt.empirical.shomate.Shomate'>": Shomate,\n''', '')]},
    {'name': 'FreeTrans.to_dict drops molecular_weight', 'expect': ('TABLE', 'FreeTrans'),
     'edits': [('pmutt/statmech/trans.py', "            'molecular_weight': self.molecular_weight\n", "")]},
    {'name': 'CatSite writes density under another key', 'expect': ('TABLE', 'CatSite'),
     'edits': [('pmutt/chemkin/__init__.py', "'density': self.density,", "'rho': self.density,")]},
    {'name': 'EinsteinVib.to_dict swaps the two values', 'expect': ('TABLE.roundtrip', 'EinsteinVib'),
     'edits': [('pmutt/statmech/vib.py', "            'einstein_temperature': self.einstein_temperature,\n            'interaction_energy': self.interaction_energy",
                "            'einstein_temperature': self.interaction_energy,\n            'interaction_energy': self.einstein_temperature")]},
    # ---- instances added after the white-box review (non-default options, documented ndarray attributes)
    {'name': 'SurfaceReaction.to_dict forgets is_adsorption', 'expect': ('TABLE.roundtrip', 'SurfaceReaction'),
     'edits': [('pmutt/omkm/reaction.py', "        obj_dict['is_adsorption'] = self.is_adsorption\n", "")]},
    {'name': 'ExtendedLSR.from_dict loses the notes', 'expect': ('TABLE.roundtrip', 'ExtendedLSR'),
     'edits': [('pmutt/statmech/lsr.py',
                "        json_obj['reactions'] = json_to_pmutt(json_obj['reactions'])\n",
                "        json_obj['reactions'] = json_to_pmutt(json_obj['reactions'])\n"
                "        json_obj.pop('notes', None)\n")]},
    {'name': 'References.to_dict does not write the descriptor', 'expect': ('TABLE.roundtrip', 'References'),
     'edits': [('pmutt/empirical/references.py', "            'descriptor': self.descriptor,\n", "")]},
    {'name': 'Shomate.to_dict does not write the units', 'expect': ('TABLE.roundtrip', 'Shomate'),
     'edits': [('pmutt/empirical/shomate.py', "        obj_dict['units'] = self.units\n", "")]},
    {'name': 'BEP.to_dict does not write the descriptor', 'expect': ('TABLE.roundtrip', 'BEP'),
     'edits': [('pmutt/reaction/bep.py', "            'descriptor': self.descriptor,\n", "")]},
    {'name': 'Reaction.from_dict decodes the transition state entry by entry (None is not iterable)',
     'expect': ('TABLE.decode', 'Reaction'),
     'edits': [('pmutt/reaction/__init__.py',
                "        json_obj['transition_state'] = json_to_pmutt(\n            json_obj['transition_state'])\n",
                "        json_obj['transition_state'] = [\n            json_to_pmutt(ts) for ts in json_obj['transition_state']]\n")]},
]
# ---- white-box review, round 2: one per new instance
R_ = 'pmutt/reaction/__init__.py'
V_ = 'pmutt/statmech/vib.py'
MUTANTS += [
    {'name': 'the encoder swallows objects without to_dict (returns None)', 'expect': ('PATH.encoder', 'pmuttEncoder.default'),
     'edits': [(J_, "            super().default(o)\n", "            return None\n")]},
    {'name': 'omkm BEP.to_dict writes the ids of its cleavage reactions (the decoded reaction registers itself again)',
     'expect': ('TABLE.roundtrip', 'BEP'),
     'edits': [('pmutt/omkm/reaction.py',
                "        obj_dict['direction'] = self.direction\n        return obj_dict\n\n    def _get_bep_template",
                "        obj_dict['direction'] = self.direction\n"
                "        obj_dict['cleavage_reactions'] = [getattr(r, 'id', r) for r in self.cleavage_reactions]\n"
                "        return obj_dict\n\n    def _get_bep_template")]},
    {'name': 'omkm BEP.to_dict writes the ids of its synthesis reactions', 'expect': ('TABLE.roundtrip', 'BEP'),
     'edits': [('pmutt/omkm/reaction.py',
                "        obj_dict['direction'] = self.direction\n        return obj_dict\n\n    def _get_bep_template",
                "        obj_dict['direction'] = self.direction\n"
                "        obj_dict['synthesis_reactions'] = [getattr(r, 'id', r) for r in self.synthesis_reactions]\n"
                "        return obj_dict\n\n    def _get_bep_template")]},
    {'name': 'Reactions.from_dict shares the species of the same name between the reactions',
     'expect': ('TABLE.roundtrip', 'Nasa'),
     'edits': [(R_, "            json_to_pmutt(reaction) for reaction in json_obj['reactions']\n        ]\n        return cls(**json_obj)\n\n\ndef _parse_reaction_state",
                "            json_to_pmutt(reaction) for reaction in json_obj['reactions']\n        ]\n"
                "        species = {}\n"
                "        for reaction in json_obj['reactions']:\n"
                "            reaction.reactants = [species.setdefault(sp.name, sp) for sp in reaction.reactants]\n"
                "            reaction.products = [species.setdefault(sp.name, sp) for sp in reaction.products]\n"
                "        return cls(**json_obj)\n\n\ndef _parse_reaction_state")]},
    {'name': 'PhaseDiagram.from_dict shares the unnamed species (keyed by name, all None)',
     'expect': ('TABLE.roundtrip', 'StatMech'),
     'edits': [('pmutt/reaction/phasediagram.py',
                "            json_to_pmutt(reaction) for reaction in json_obj['reactions']\n        ]\n        return cls(**json_obj)\n",
                "            json_to_pmutt(reaction) for reaction in json_obj['reactions']\n        ]\n"
                "        species = {}\n"
                "        for reaction in json_obj['reactions']:\n"
                "            reaction.products = [species.setdefault(sp.name, sp) if sp.name is None else sp\n"
                "                                 for sp in reaction.products]\n"
                "            reaction.reactants = [species.setdefault(sp.name, sp) if sp.name is None else sp\n"
                "                                  for sp in reaction.reactants]\n"
                "        return cls(**json_obj)\n")]},
    {'name': 'DebyeVib remembers the last temperature in an attribute of its own (generic to_dict writes it)',
     'expect': ('TABLE.decode', 'DebyeVib'),
     'edits': [(V_, "        vib_dimless = self.debye_temperature / T\n        integral = quad(",
                "        vib_dimless = self.debye_temperature / T\n        self._last_T = T\n        integral = quad(")]},
    {'name': 'IdealGasEOS.get_V counts its calls in an attribute (generic to_dict writes it)',
     'expect': ('TABLE.decode', 'IdealGasEOS'),
     'edits': [('pmutt/eos/__init__.py', "        return n * c.R('m3 bar/mol/K') * T / P\n",
                "        self.n_calls = getattr(self, 'n_calls', 0) + 1\n        return n * c.R('m3 bar/mol/K') * T / P\n")]},
    {'name': 'HarmonicVib.to_dict writes the wavenumbers the model computes with (imaginary mode dropped/replaced)',
     'expect': ('TABLE.roundtrip', 'HarmonicVib'),
     'edits': [(V_, "            'vib_wavenumbers': list(self.vib_wavenumbers),\n            'imaginary_substitute'",
                "            'vib_wavenumbers': list(self._valid_vib_wavenumbers),\n            'imaginary_substitute'")]},
    {'name': 'QRRHOVib.to_dict writes the wavenumbers the model computes with', 'expect': ('TABLE.roundtrip', 'QRRHOVib'),
     'edits': [(V_, "            'vib_wavenumbers': list(self.vib_wavenumbers),\n            'Bav'",
                "            'vib_wavenumbers': list(self._valid_vib_wavenumbers),\n            'Bav'")]},
    {'name': 'SurfaceReaction.to_dict writes beta only when it is "specified" (truthiness: 0. is dropped)',
     'expect': ('TABLE.roundtrip', 'SurfaceReaction'),
     'edits': [('pmutt/omkm/reaction.py', "        obj_dict['beta'] = self.beta\n",
                "        if self.beta:\n            obj_dict['beta'] = self.beta\n")]},
    {'name': 'ChemkinReaction.to_dict writes beta only when it is "specified"', 'expect': ('TABLE.roundtrip', 'ChemkinReaction'),
     'edits': [(R_, "        obj_dict['beta'] = self.beta\n",
                "        if self.beta:\n            obj_dict['beta'] = self.beta\n")]},
]
MUTANTS += [
    {'name': 'EmpiricalBase.to_dict forgets the model kept inside the species', 'expect': ('TABLE.roundtrip', 'Nasa'),
     'edits': [('pmutt/empirical/__init__.py', "            obj_dict['model'] = self.model.to_dict()\n",
                "            self.model.to_dict()\n            obj_dict['model'] = None\n")]},
    {'name': 'revert f5552c6: RigidRotor.to_dict applies list() to rot_temperatures=None',
     'expect': ('TABLE.encode', 'RigidRotor'),
     'edits': [('pmutt/statmech/rot.py',
                "            'rot_temperatures': None if self.rot_temperatures is None \\\n"
                "                                else list(self.rot_temperatures)\n",
                "            'rot_temperatures': list(self.rot_temperatures)\n")]},
    {'name': 'RigidRotor.to_dict writes the geometry as nonlinear whatever it is', 'expect': ('TABLE.roundtrip', 'RigidRotor'),
     'edits': [('pmutt/statmech/rot.py', "            'geometry': self.geometry,\n            'rot_temperatures'",
                "            'geometry': 'nonlinear',\n            'rot_temperatures'")]},
]
# ---- white-box review, round 3
N_ = 'pmutt/empirical/nasa.py'
SM_ = 'pmutt/statmech/__init__.py'
# the branch of pmuttEncoder.default that writes numpy integers as ints (fix f96063f), taken out
_NO_NPINT = (J_, "        if isinstance(o, np.integer):\n            return int(o)\n", "")
MUTANTS += [
    {'name': 'revert f96063f in part: the encoder no longer writes numpy integers (HarmonicVib with wavenumbers typed '
             'as whole numbers cannot be encoded)',
     'expect': ('TABLE.encode', 'HarmonicVib'), 'edits': [_NO_NPINT]},
]
MUTANTS += [
    {'name': 'Nasa.to_dict rounds the coefficients to the precision of the thermdat format (E15.8)',
     'expect': ('TABLE.roundtrip', 'Nasa'),
     'edits': [(N_, "        obj_dict['a_low'] = self.a_low.tolist()\n",
                "        obj_dict['a_low'] = [float('{:.8E}'.format(a)) for a in self.a_low]\n")]},
    {'name': 'EinsteinVib.to_dict writes the temperature with six significant digits (%-formatting)',
     'expect': ('TABLE.roundtrip', 'EinsteinVib'),
     'edits': [(V_, "            'einstein_temperature': self.einstein_temperature,\n",
                "            'einstein_temperature': float('%.6g' % self.einstein_temperature),\n")]},
    {'name': 'DebyeVib memoises its quadratures through self.__dict__.setdefault (generic to_dict writes the memo)',
     'expect': ('TABLE.decode', 'DebyeVib'),
     'edits': [(V_, "        integral = quad(func=fn, a=0., b=vib_dimless)[0]\n        return 3. * integral / vib_dimless**3\n",
                "        integrals = self.__dict__.setdefault('_integrals', {})\n"
                "        key = '{}({!r})'.format(fn.__name__, vib_dimless)\n"
                "        if key not in integrals:\n"
                "            integrals[key] = quad(func=fn, a=0., b=vib_dimless)[0]\n"
                "        return 3. * integrals[key] / vib_dimless**3\n")]},
    {'name': 'StatMech.to_dict tests the truth of its references (References.__len__ of a None list raises)',
     'expect': ('TABLE.encode', 'StatMech'),
     'edits': [(SM_, "        try:\n            obj_dict['references'] = self.references.to_dict()\n"
                     "        except AttributeError:\n            obj_dict['references'] = self.references\n",
                "        if self.references:\n            obj_dict['references'] = self.references.to_dict()\n"
                "        else:\n            obj_dict['references'] = None\n")]},
    {'name': 'QRRHOVib keeps its wavenumbers as an array like HarmonicVib, under an encoder that does not know np.integer',
     'expect': ('TABLE.encode', 'QRRHOVib'),
     'edits': [(V_, "        self.vib_wavenumbers = vib_wavenumbers\n",
                "        self.vib_wavenumbers = np.array(vib_wavenumbers)\n"), _NO_NPINT]},
    {'name': 'PiecewiseCovEffect keeps its slopes as an array, under an encoder that does not know np.integer',
     'expect': ('TABLE.encode', 'PiecewiseCovEffect'),
     'edits': [('pmutt/mixture/cov.py', "        self.slopes = slopes\n        self._set_intercepts()\n",
                "        self.slopes = np.array(slopes)\n        self._set_intercepts()\n"), _NO_NPINT]},
    {'name': 'the encoder returns the text of an object without to_dict (repr) instead of refusing it',
     'expect': ('PATH.encoder', 'pmuttEncoder.default'),
     'edits': [(J_, "            super().default(o)\n", "            return '<{}>'.format(o.__class__.__name__)\n")]},
]
# the three changes of round 3 that needed a model in the interpreter (map objects, __slots__, property() objects)
E_ = 'pmutt/eos/__init__.py'
MUTANTS += [
    {'name': 'Nasa9.to_dict hands json a map object', 'expect': ('TABLE.encode', 'Nasa9'),
     'edits': [(N_, "        obj_dict['nasas'] = [nasa.to_dict() for nasa in self.nasas]\n",
                "        obj_dict['nasas'] = map(SingleNasa9.to_dict, self.nasas)\n")]},
    {'name': 'Nasa9.to_dict writes the polynomials ordered by temperature (an object that lists them downwards comes '
             'back reordered)', 'expect': ('TABLE.roundtrip', 'Nasa9'),
     'edits': [(N_, "        obj_dict['nasas'] = [nasa.to_dict() for nasa in self.nasas]\n",
                "        obj_dict['nasas'] = [nasa.to_dict() for nasa in sorted(self.nasas, key=lambda nasa: nasa.T_low)]\n")]},
    {'name': 'Reactions.to_dict hands json a generator', 'expect': ('TABLE.encode', 'Reactions'),
     'edits': [(R_, "            'reactions': [reaction.to_dict() for reaction in self.reactions],\n",
                "            'reactions': (reaction.to_dict() for reaction in self.reactions),\n")]},
    {'name': 'ConstantMode gets __slots__ (the generic to_dict reads an empty __dict__)',
     'expect': ('TABLE.roundtrip', 'ConstantMode'),
     'edits': [(SM_, "    def __init__(self,\n                 q=1.,\n",
                "    __slots__ = ('q', 'Cv', 'Cp', 'U', 'H', 'S', 'F', 'G', 'notes')\n\n"
                "    def __init__(self,\n                 q=1.,\n")]},
    {'name': 'vanDerWaalsEOS.a/.b validated through a property() factory (the generic to_dict writes _a/_b)',
     'expect': ('TABLE.decode', 'vanDerWaalsEOS'),
     'edits': [(E_, "class vanDerWaalsEOS(_pmuttBase):\n",
                "def _positive_property(name):\n"
                "    private_name = '_{}'.format(name)\n\n"
                "    def getter(self):\n        return getattr(self, private_name)\n\n"
                "    def setter(self, val):\n"
                "        if val <= 0.:\n            raise ValueError('{} must be positive'.format(name))\n"
                "        setattr(self, private_name, val)\n\n"
                "    return property(getter, setter)\n\n\n"
                "class vanDerWaalsEOS(_pmuttBase):\n"),
               (E_, "    def __init__(self, a, b):\n        self.a = a\n",
                "    a = _positive_property('a')\n    b = _positive_property('b')\n\n"
                "    def __init__(self, a, b):\n        self.a = a\n")]},
]
EQUIV = [
    # breaking before f96063f, harmless since: the encoder writes an array left in the dictionary as a list and the
    # numpy integers of a list as ints
    {'name': 'PhaseDiagram.to_dict leaves the array of normalisation factors in the dictionary (the encoder writes it)',
     'edits': [('pmutt/reaction/phasediagram.py', "obj_dict['norm_factors'] = list(self.norm_factors)",
                "obj_dict['norm_factors'] = self.norm_factors")]},
    {'name': 'ExtendedLSR.to_dict leaves the array of slopes in the dictionary (the encoder writes it)',
     'edits': [('pmutt/statmech/lsr.py', "'slopes': list(self.slopes),", "'slopes': self.slopes,")]},
    {'name': 'Reaction keeps reactants_stoich as a numpy array (the encoder writes the numpy integers)',
     'edits': [(R_, "        val = _check_iterable_attr(val)\n        self._reactants_stoich = val\n",
                "        val = _check_iterable_attr(val)\n        if val is not None:\n            val = np.array(val)\n"
                "        self._reactants_stoich = val\n")]},
    # white-box review, round 3: refactorings that were reported by mistake
    {'name': 'the encoder raises the TypeError of the base class itself (message built from o.__class__.__name__)',
     'edits': [(J_, "            super().default(o)\n",
                "            raise TypeError('Object of type {} is not JSON serializable'\n"
                "                            ''.format(o.__class__.__name__))\n")]},
    {'name': 'the encoder names the type through type(o) and the module of the class',
     'edits': [(J_, "            super().default(o)\n",
                "            raise TypeError('Object of type {}.{} is not JSON serializable'\n"
                "                            ''.format(type(o).__module__, type(o).__name__))\n")]},
    # a number sent through its plain text (str: the shortest text that reads back to the same float) or through 17
    # significant digits is the same number: only a format that rounds is a change
    {'name': 'Nasa.to_dict sends the coefficients through str()',
     'edits': [(N_, "        obj_dict['a_low'] = self.a_low.tolist()\n",
                "        obj_dict['a_low'] = [float(str(a)) for a in self.a_low]\n")]},
    {'name': 'Nasa.to_dict sends the coefficients through 17 significant digits',
     'edits': [(N_, "        obj_dict['a_high'] = self.a_high.tolist()\n",
                "        obj_dict['a_high'] = [float('{:.16e}'.format(a)) for a in self.a_high]\n")]},
    {'name': 'IdealGasEOS.get_V as a static method (it never touches the object)',
     'edits': [('pmutt/eos/__init__.py', "    def get_V(self, T=c.T0('K'), P=c.P0('bar'), n=1.):\n",
                "    @staticmethod\n    def get_V(T=c.T0('K'), P=c.P0('bar'), n=1.):\n")]},
]
