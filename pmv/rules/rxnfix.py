"""symbolic reaction fixtures shared by C04/C08/C09: species are uninterpreted
objects, stoichiometric coefficients are atoms."""
from ..nf import Rat, C
from ..xlate import Obj, ListV, DictV
from .common import opaque_obj

SPECIES_METHODS = ('get_q', 'get_CvoR', 'get_CpoR', 'get_UoRT', 'get_HoRT', 'get_SoR', 'get_FoRT', 'get_GoRT',
                   'get_EoRT')
SPECIES_PARAMS = ('T', 'P', 'include_ZPE', 'ignore_q_elec')


def species(I, name, phase='G', cat_site=None):
    o = opaque_obj(I, name, {m: SPECIES_PARAMS for m in SPECIES_METHODS})
    o.attrs['name'] = name
    o.attrs['phase'] = phase
    o.attrs['cat_site'] = cat_site
    o.attrs['elements'] = DictV({'A': I.D.sym('el_%s' % name)})
    return o


def reaction(I, repo, qual, nr=2, npd=2, nts=1, extra=None, name='rxn', phases=None):
    ci = repo.cls(qual)
    D = I.D
    phases = phases or {}
    rs = [species(I, 'r%d' % i, phases.get('r%d' % i, 'G')) for i in range(nr)]
    ps = [species(I, 'p%d' % i, phases.get('p%d' % i, 'G')) for i in range(npd)]
    ts = [species(I, 't%d' % i, phases.get('t%d' % i, 'G')) for i in range(nts)]
    attrs = {
        '_reactants': ListV(rs), '_reactants_stoich': ListV([D.sym('nu_r%d' % i) for i in range(nr)]),
        '_products': ListV(ps), '_products_stoich': ListV([D.sym('nu_p%d' % i) for i in range(npd)]),
        '_transition_state': ListV(ts) if nts else None,
        '_transition_state_stoich': ListV([D.sym('nu_t%d' % i) for i in range(nts)]) if nts else None,
        'notes': None,
    }
    attrs.update(extra or {})
    o = Obj(name, ci, attrs=attrs)
    return o, rs, ps, ts


def state_sum(I, species_list, stoich, method, kw, prod=False):
    """reference: sum_i nu_i * x_i  (prod_i x_i**nu_i for partition functions)"""
    tot = C(1) if prod else C(0)
    for sp, nu in zip(species_list, stoich):
        ps = sp.opaque_params[method]
        x = sp.opaque_methods[method](I, sp, [], {k: v for k, v in kw.items() if k in ps})
        if prod:
            tot = tot * I.D.pow_sym(x, nu)
        else:
            tot = tot + x * nu
    return tot
