"""symbolic reaction fixtures shared by C04/C08/C09: species are uninterpreted
objects, stoichiometric coefficients are atoms."""
from ..nf import Rat, C
from ..source import Unsupported
from ..xlate import Obj, ListV, DictV, Raised, Frame
from .common import opaque_obj

SPECIES_METHODS = ('get_q', 'get_CvoR', 'get_CpoR', 'get_UoRT', 'get_HoRT', 'get_SoR', 'get_FoRT', 'get_GoRT',
                   'get_EoRT')
SPECIES_PARAMS = ('include_ZPE', 'ignore_q_elec', 'T', 'P')      # the order is the species' own business


def species(I, name, phase='G', cat_site=None):
    o = opaque_obj(I, name, {m: SPECIES_PARAMS for m in SPECIES_METHODS})
    o.attrs['name'] = name
    o.attrs['phase'] = phase
    o.attrs['cat_site'] = cat_site
    o.attrs['elements'] = DictV({'A': I.D.sym('el_%s' % name)})
    return o


def reaction(I, repo, qual, nr=2, npd=2, nts=1, extra=None, name='rxn', phases=None, ctor=None):
    ci = repo.cls(qual)
    D = I.D
    phases = phases or {}
    rs = [species(I, 'r%d' % i, phases.get('r%d' % i, 'G')) for i in range(nr)]
    ps = [species(I, 'p%d' % i, phases.get('p%d' % i, 'G')) for i in range(npd)]
    ts = [species(I, 't%d' % i, phases.get('t%d' % i, 'G')) for i in range(nts)]
    # through the public constructor: the names under which the class keeps its sides are its own business
    kw = {'reactants': ListV(rs), 'reactants_stoich': ListV([D.sym('nu_r%d' % i) for i in range(nr)]),
          'products': ListV(ps), 'products_stoich': ListV([D.sym('nu_p%d' % i) for i in range(npd)])}
    if nts:
        kw['transition_state'] = ListV(ts)
        kw['transition_state_stoich'] = ListV([D.sym('nu_t%d' % i) for i in range(nts)])
    kw.update(ctor or {})
    o = I.construct(ci, [], kw, name=name)
    if isinstance(o, Raised):
        raise Unsupported('%s(...) raised %s for the model reaction' % (qual, o.exc))
    o.closed = False        # attributes the constructor does not set stay generic symbols
    o.attrs.update(extra or {})
    return o, rs, ps, ts


def make_reaction(I, repo, qual, reactants, rstoich, products, pstoich, ts=None, tstoich=None, name='rxn', **ctor):
    """a reaction object of class ``qual`` built by its own constructor from explicit sides"""
    kw = {'reactants': ListV(list(reactants)), 'reactants_stoich': ListV(list(rstoich)),
          'products': ListV(list(products)), 'products_stoich': ListV(list(pstoich))}
    if ts:
        kw['transition_state'] = ListV(list(ts))
        kw['transition_state_stoich'] = ListV(list(tstoich))
    kw.update(ctor)
    o = I.construct(repo.cls(qual) if isinstance(qual, str) else qual, [], kw, name=name)
    if isinstance(o, Raised):
        raise Unsupported('%s(...) raised %s for the model reaction' % (qual, o.exc))
    return o


def get_public(I, obj, attr):
    """obj.attr as a user reads it (through the class's property when there is one)"""
    return Frame(I, obj.ci.module, {}, None, None).obj_attr(obj, attr)


def set_public(I, obj, attr, value):
    """obj.attr = value as a user statement: whatever the class routes the store through (a property setter, a
    descriptor's __set__, its own __setattr__) runs"""
    from ..xlate import Frame, builtin_call
    if obj.ci is None:
        obj.attrs[attr] = value
        return
    builtin_call(I, Frame(I, obj.ci.module, {}, None, None), 'setattr', [obj, attr, value], {}, None)


def state_sum(I, species_list, stoich, method, kw, prod=False):
    """reference: sum_i nu_i * x_i  (prod_i x_i**nu_i for partition functions)"""
    tot = C(1) if prod else C(0)
    for sp, nu in zip(species_list, stoich):
        ps = sp.opaque_params[method]
        x = sp.opaque_methods[method](I, sp, [], {k: v for k, v in kw.items() if k in ps})
        if prod:
            tot = tot * I.D.pow_sym(x, nu)
        else:
            tot = tot + x * nu
    return tot
