"""C15 - the spreadsheet reader maps rows and special columns as documented."""
from fractions import Fraction as Fr

from ..nf import Rat, C
from ..source import Unsupported, AnchorError, ClassInfo
from ..xlate import Interp, Obj, ListV, DictV, Raised, _RaisedExc
from .common import same, show

XL = 'pmutt.io.excel'
BOOK = '/dir/book.xlsx'
INT_CELLS = set()       # names of the symbolic cells that stand for Python ints (a column typed without decimals)


class _NaN(Rat):
    """an empty cell as pandas hands it over: the float NaN - a float for isinstance, not None, equal to no text and
    to no None, a null for pandas.  What Python decides about NaN by arithmetic or by comparing numbers (NaN != NaN,
    NaN < x ...) is not modelled by the interpreter's numbers: every such use is a refusal (exit 2), never a guess"""
    __slots__ = ()

    def __init__(s):
        Rat.__init__(s, Rat.atom('NaN').n)

    def _refuse(s, *a_, **k_):
        raise Unsupported('arithmetic or numeric comparison with NaN (an empty cell of the pandas mock of rule C15)')
    __add__ = __radd__ = __sub__ = __rsub__ = __mul__ = __rmul__ = __truediv__ = __rtruediv__ = __neg__ = _refuse
    recip = powi = eq = split_linear = _refuse


NAN = _NaN()    # an empty cell


def is_nan(v):
    return v is NAN or (isinstance(v, Rat) and 'NaN' in v.atoms())


SYM_TEXTS = {}          # placeholder -> (width, class) of the text cells the rule leaves open


def SYM(name, width=6):
    """a text cell the rule leaves open (no surrounding blanks)"""
    SYM_TEXTS[name] = (width, 'text')
    return name


SYM('@pad', 5)


def a(name):
    """a numeric cell read as a float"""
    return Rat.atom(name)


def ai(name):
    """a numeric cell of a column typed without decimals: pandas hands it over as an int"""
    INT_CELLS.add(name)
    return Rat.atom(name)


class Members(dict):
    """the members of a pandas mock.  A member the mock does not model is a refusal (Unsupported, exit 2): the real
    object has many more members than the mock, so their absence here says nothing about the program"""

    def __init__(self, what):
        dict.__init__(self)
        self.what = what

    def __contains__(self, k):
        if dict.__contains__(self, k):
            return True
        if isinstance(k, str) and k.startswith('__') and k.endswith('__'):
            return False
        raise Unsupported('%s.%s is not modelled by the pandas mock of rule C15' % (self.what, k))

    def __bool__(self):
        return True


def _plain(what, meth, fn):
    """a member called without arguments (anything else is outside the mock)"""
    def call(I, o, args, kwargs):
        if args or kwargs:
            raise Unsupported('%s.%s(...) with arguments is not modelled by the pandas mock of rule C15' % (what, meth))
        return fn()
    return call


def one_shot(items):
    """an iterator object (Series.items() is a zip object, DataFrame.iterrows() a generator, iter(...)): what has been
    taken from it is gone"""
    r = ListV(items)
    r.is_iterator = True
    return r


def pair(x, y):
    r = ListV([x, y])
    r.is_tuple = True
    return r


def array(items):
    """a one-dimensional numpy array (Series.values, Index.values)"""
    r = ListV(items)
    r.is_array = True
    return r


def _position(idx, n_, what):
    if isinstance(idx, Rat) and not is_nan(idx) and (idx.iszero() or idx.is_const()):
        k = Fr(0) if idx.iszero() else idx.const_value()
        if k.denominator == 1:
            if -n_ <= k < n_:
                return int(k)
            raise _RaisedExc(Raised('IndexError', None))
    raise Unsupported('%s[%r] is not modelled by the pandas mock of rule C15' % (what, idx))


def index(labels):
    """mock of a pandas Index (DataFrame.columns / .index, Series.index / .keys()): the labels in order.  It is not a
    Python list: it has tolist() / to_list() / values, no append / sort / ...; what the mock lacks is a refusal"""
    labels = list(labels)
    ix = Obj('index', closed=True)
    ix.isa.add('Index')
    m = ix.opaque_methods = Members('Index')
    for meth, fn in (('tolist', lambda: ListV(labels)), ('to_list', lambda: ListV(labels)),
                     ('to_numpy', lambda: array(labels)), ('copy', lambda: index(labels)),
                     ('__len__', lambda: C(len(labels))), ('__iter__', lambda: one_shot(labels))):
        m[meth] = _plain('Index', meth, fn)

    def contains(I, o, args, kwargs):
        x = args[0]
        if isinstance(x, str) and x not in I.sym_strings and all(isinstance(l_, str) for l_ in labels):
            return x in labels
        if isinstance(x, Rat) and not is_nan(x) and (x.iszero() or x.is_const()) and \
                all(isinstance(l_, Rat) and (l_.iszero() or l_.is_const()) for l_ in labels):
            return any(x.eq(l_) for l_ in labels)
        raise Unsupported('%r in Index is not modelled by the pandas mock of rule C15' % (x,))
    m['__getitem__'] = lambda I, o, args, kwargs: labels[_position(args[0], len(labels), 'Index')]
    m['__contains__'] = contains
    ix.attrs.update({'values': array(labels), 'size': C(len(labels)), 'empty': not labels,
                     'shape': shape(len(labels))})
    return ix


def shape(*dims):
    r = ListV([C(d_) for d_ in dims])
    r.is_tuple = True
    return r


def series(label, cells):
    """mock of one row (a pandas Series): cells = [(header, cell), ...] in column order"""
    row = Obj('row%s' % label, closed=True)
    row.isa.add('Series')
    m = row.opaque_methods = Members('Series')
    heads = [h for h, _ in cells]
    vals = [v for _, v in cells]

    def flags(null):
        return series(label, [(h, is_nan(v) == null) for h, v in cells])
    for meth, fn in (('items', lambda: one_shot([pair(h, v) for h, v in cells])),
                     ('dropna', lambda: series(label, [(h, v) for h, v in cells if not is_nan(v)])),
                     ('isna', lambda: flags(True)), ('isnull', lambda: flags(True)),
                     ('notna', lambda: flags(False)), ('notnull', lambda: flags(False)),
                     ('keys', lambda: index(heads)), ('tolist', lambda: ListV(vals)), ('to_list', lambda: ListV(vals)),
                     ('to_numpy', lambda: array(vals)),
                     ('to_dict', lambda: DictV(dict(cells))), ('copy', lambda: series(label, cells)),
                     ('count', lambda: C(len([v for v in vals if not is_nan(v)]))),
                     ('__len__', lambda: C(len(cells))), ('__iter__', lambda: one_shot(vals))):
        m[meth] = _plain('Series', meth, fn)
    if all(isinstance(v, bool) for v in vals):
        # a row of flags (isna() / notna()): the reductions a null test over a whole row uses
        m['all'] = _plain('Series', 'all', lambda: all(vals))
        m['any'] = _plain('Series', 'any', lambda: any(vals))
        m['sum'] = _plain('Series', 'sum', lambda: C(len([v for v in vals if v])))
    row.attrs.update({'index': index(heads), 'values': array(vals), 'size': C(len(cells)), 'empty': not cells,
                      'shape': shape(len(cells))})
    row.cells = cells

    # row[label] / row[boolean mask of the same row] / label in row
    def getitem(I, o, args, kwargs):
        idx = args[0]
        if isinstance(idx, str) and idx not in I.sym_strings:
            hit = [v for h, v in cells if h == idx]
            if len(hit) == 1:
                return hit[0]
            if not hit:
                raise _RaisedExc(Raised('KeyError', None, [idx]))
        if isinstance(idx, Obj) and [h for h, _ in getattr(idx, 'cells', [(None, None)])] == heads and \
                all(isinstance(v, bool) for _, v in idx.cells):
            return series(label, [c_ for c_, (_, keep) in zip(cells, idx.cells) if keep])
        raise Unsupported('Series[%r] is not modelled by the pandas mock of rule C15' % (idx,))

    def contains(I, o, args, kwargs):
        if isinstance(args[0], str) and args[0] not in I.sym_strings:
            return args[0] in heads
        raise Unsupported('%r in Series is not modelled by the pandas mock of rule C15' % (args[0],))

    def get(I, o, args, kwargs):
        if len(args) not in (1, 2) or kwargs:
            raise Unsupported('Series.get(...) with these arguments is not modelled by the pandas mock of rule C15')
        if contains(I, o, args[:1], {}):
            return getitem(I, o, args[:1], {})
        return args[1] if len(args) == 2 else None
    m['__getitem__'] = getitem
    m['__contains__'] = contains
    m['get'] = get
    return row


def sheet(rows, headers=None):
    """mock of the DataFrame pandas returns: rows = list of [(header, cell), ...]"""
    df = Obj('df', closed=True)
    df.isa.add('DataFrame')
    m = df.opaque_methods = Members('DataFrame')
    if headers is None:
        headers = [h for h, _ in rows[0]] if rows else []

    def to_dict(I, o, args, kwargs):
        orient = kwargs.get('orient', args[0] if args else 'dict')
        if orient != 'records' or len(args) + len(kwargs) != 1:
            raise Unsupported('DataFrame.to_dict is modelled for orient="records" only (pandas mock of rule C15)')
        return ListV([DictV(dict(cells)) for cells in rows])
    m['iterrows'] = _plain('DataFrame', 'iterrows', lambda: one_shot([pair(C(ri), series(ri, cells))
                                                                      for ri, cells in enumerate(rows)]))
    m['to_dict'] = to_dict
    m['__len__'] = _plain('DataFrame', '__len__', lambda: C(len(rows)))
    m['__iter__'] = _plain('DataFrame', '__iter__', lambda: one_shot(headers))
    m['keys'] = _plain('DataFrame', 'keys', lambda: index(headers))
    m['to_numpy'] = _plain('DataFrame', 'to_numpy', lambda: array([array([v for _, v in cells]) for cells in rows]))
    df.attrs.update({'empty': not rows or not headers, 'columns': index(headers),
                     'index': index([C(i) for i in range(len(rows))]),
                     'shape': shape(len(rows), len(headers)), 'size': C(len(rows) * len(headers)),
                     'values': array([array([v for _, v in cells]) for cells in rows])})
    return df


def _null(I_, fr, args, kwargs, n):
    if len(args) == 1 and not kwargs and isinstance(args[0], Obj) and 'Series' in args[0].isa and \
            'isnull' in args[0].opaque_methods:
        return args[0].opaque_methods['isnull'](I_, args[0], [], {})       # element-wise over a row
    if len(args) != 1 or kwargs or isinstance(args[0], (Obj, ListV, DictV)):
        raise Unsupported('pandas null test of something that is not one cell (pandas mock of rule C15)', n)
    return is_nan(args[0])


def _notnull(I_, fr, args, kwargs, n):
    if len(args) == 1 and not kwargs and isinstance(args[0], Obj) and 'Series' in args[0].isa and \
            'notnull' in args[0].opaque_methods:
        return args[0].opaque_methods['notnull'](I_, args[0], [], {})
    return not _null(I_, fr, args, kwargs, n)


def _ospath(name):
    """the pure text functions of os.path (posix spelling) on concrete paths"""
    import posixpath

    def fn(I_, fr, args, kwargs, n):
        if kwargs or not args or not all(isinstance(x, str) and x not in I_.sym_strings for x in args):
            raise Unsupported('os.path.%s of %r' % (name, args), n)
        r = getattr(posixpath, name)(*args)
        if isinstance(r, tuple):
            t_ = ListV(list(r))
            t_.is_tuple = True
            return t_
        return r
    return fn


def _isnan(kind):
    """numpy.isnan / math.isnan of one cell: true for NaN, false for any other number; a text is a TypeError"""
    def fn(I_, fr, args, kwargs, n):
        if len(args) != 1 or kwargs or isinstance(args[0], (Obj, ListV, DictV)):
            raise Unsupported('%s.isnan of something that is not one cell (pandas mock of rule C15)' % kind, n)
        if isinstance(args[0], Rat):
            return is_nan(args[0])
        if isinstance(args[0], bool):
            return False
        if isinstance(args[0], str) and args[0] not in I_.sym_strings or args[0] is None:
            raise _RaisedExc(Raised('TypeError', n))
        raise Unsupported('%s.isnan(%r)' % (kind, args[0]), n)
    return fn


class DistinctCells:
    """equality oracle of the generic sheets: two cells the rule names differently hold different numbers (the sheets
    in which one value stands in several cells use one name for it).  Order and arithmetic stay open."""

    @staticmethod
    def bare(r):
        if isinstance(r, Rat) and r.is_monomial():
            ats = list(r.atoms())
            if len(ats) == 1 and r.eq(Rat.atom(ats[0])):
                return ats[0]
        return None

    def __call__(self, a, op, b):
        if op not in ('==', '!='):
            return None
        na, nb = self.bare(a), self.bare(b)
        const = lambda r: isinstance(r, Rat) and (r.iszero() or r.is_const())
        if (na is not None and const(b)) or (nb is not None and const(a)):
            return op == '!='           # a generic cell is not one particular number
        if na is None or nb is None:
            return None
        return (na == nb) if op == '==' else (na != nb)


def new_interp(repo, book, seen=None):
    """an interpreter whose pandas.read_excel answers with book(what pandas was given) -> rows"""
    I = Interp(repo)
    I.order = DistinctCells()
    I.int_syms.update(INT_CELLS)
    I.sym_strings.update(SYM_TEXTS)

    def reader(I_, fr, args, kwargs, n):
        kw = dict(kwargs)
        if len(args) > 2:
            raise Unsupported('pandas.read_excel with more than two positional arguments', n)
        for nm, v in zip(('io', 'sheet_name'), args):
            kw[nm] = v
        if seen is not None:
            seen.append(kw)
        return sheet(book(kw))
    I.native['pandas.read_excel'] = reader
    for nm in ('isnull', 'isna'):
        I.native['pandas.' + nm] = _null
    for nm in ('notnull', 'notna'):
        I.native['pandas.' + nm] = _notnull
    I.native['numpy.isnan'] = _isnan('numpy')
    I.native['math.isnan'] = _isnan('math')
    for nm in ('dirname', 'basename', 'split', 'splitext', 'join', 'normpath'):
        I.native['os.path.' + nm] = _ospath(nm)
    return I


def run_reader(repo, rows):
    m = repo.module(XL)
    fn = m.functions.get('read_excel')
    if fn is None:
        raise AnchorError(XL + '.read_excel not found')
    I = new_interp(repo, lambda kw: rows)
    out = I.call_function(m, fn, [], {'io': BOOK})
    return I, out, m, fn


# the defaults pandas documents for read_excel (pandas.read_excel.__doc__ / signature): spelling one of them out asks
# pandas for the same table
PANDAS_DEFAULTS = {'sheet_name': C(0), 'header': C(0), 'names': None, 'index_col': None, 'usecols': None, 'dtype': None,
                   'engine': None, 'converters': None, 'true_values': None, 'false_values': None, 'skiprows': None,
                   'nrows': None, 'na_values': None, 'keep_default_na': True, 'na_filter': True, 'verbose': False,
                   'parse_dates': False, 'date_format': None, 'thousands': None, 'decimal': '.', 'comment': None,
                   'skipfooter': C(0), 'storage_options': None, 'engine_kwargs': None}


def val_same(a, b):
    if is_nan(a) or is_nan(b):
        return False            # an empty cell is never part of a record
    if isinstance(a, Rat) and isinstance(b, Rat):
        return a.eq(b)
    if isinstance(a, ListV) and isinstance(b, (ListV, list)):
        bi = b.items if isinstance(b, ListV) else b
        return len(a) == len(bi) and all(val_same(x, y) for x, y in zip(a.items, bi))
    if isinstance(a, DictV) and isinstance(b, (DictV, dict)):
        bd = b.d if isinstance(b, DictV) else b
        return set(a.d) == set(bd) and all(val_same(a.d[k], bd[k]) for k in bd)
    if isinstance(a, ClassInfo) or isinstance(b, ClassInfo):
        return a is b
    if isinstance(a, (Rat, ListV, DictV)) or isinstance(b, (Rat, ListV, DictV)):
        return False
    return a == b


def expect_record(run, m, fn, I, rec, want, label, setter=None):
    ok = isinstance(rec, DictV)
    why = ''
    if ok:
        if set(rec.d) != set(want):
            ok = False
            why = 'keys %s, expected %s' % (sorted(map(str, rec.d)), sorted(want))
        else:
            for k in want:
                if not val_same(rec.d[k], want[k]):
                    ok = False
                    why = 'record[%r] is %s, expected %s' % (k, show(rec.d[k], 100), show(want[k], 100))
                    break
    node = m.functions.get(setter) if setter else fn
    run.check(ok, 'REF.record', 'excel.' + (setter or 'read_excel'), label,
              '[%s] %s' % (label, why or 'record is %s' % show(rec, 120)), m, node or fn,
              sample='[%s] -> keys %s' % (label, sorted(want)))


def check(run, repo):
    run.explanation = (
        'read_excel and every special-column setter are interpreted abstractly on a mock of the DataFrame pandas '
        'returns: headers are the documented header strings (with surrounding blanks, pandas-style duplicate '
        'suffixes), cells are symbolic values, model names or empty - the float NaN, as pandas delivers an empty '
        'cell: not None, a float for isinstance, null for pandas; what Python decides about NaN by numeric comparison '
        'is refused. Series.items() / DataFrame.iterrows() are one-shot iterators of tuples, columns / index are '
        'Index stand-ins (not lists). For each sheet the list of records is '
        'compared with the documented mapping: one record per row in row order, ordinary columns under their trimmed '
        'header, element.X / formula -> composition dictionary, repeated vib_wavenumber / rot_temperature -> ordered '
        'lists, list.name(.i) and dict.name.key, nasa.a_low.i / a_high.i -> 7-slot arrays, statmech_model presets '
        '(the attributes the documentation lists per preset - the rule carries its own copy of that table -, unless '
        'the row set the key), every documented per-mode model name resolved in the module of its mode with the '
        'EmptyMode fallback; empty cells never appear and nothing leaks from one row into another (rows with disjoint '
        'column subsets, rows that share a name or every cell, two rows using the same preset). Numeric cells are '
        'floats or Python ints (a column typed without decimals) or zero, text cells include placeholders like "-", '
        'lower / mixed case texts and texts left open (symbolic); two cells of a row may hold the same value '
        '(degenerate wavenumbers, the same site twice); every pattern of empty cells of a five-column table (32 rows, '
        'in two column orders) and a 60-row table give one record per row; '
        'numbered columns run up to the two-digit pandas suffixes (30 vib_wavenumber, 12 rot_temperature and list '
        'columns), list / dict names may end in a digit; a model cell wins over the preset on either side of '
        'statmech_model for every mode; one interpreter reads nine worksheets one after the other (same workbook, '
        'other sheet / rows to skip / header row, another workbook): every call hands its arguments to pandas and '
        'returns the records of the table pandas answered with.')
    run.assumptions = ['pandas.read_excel is mocked: the DataFrame offers iterrows(), to_dict("records"), len, empty, '
                       'columns, keys(), shape, index, values / to_numpy(); a row offers items(), dropna(), '
                       'isna()/notna(), keys(), get(), index, values, tolist(), to_numpy(), to_dict(), count(), len, '
                       'row[label], label in row - (header, cell) pairs in column order; columns / index / keys() are '
                       'Index stand-ins with tolist() / to_list() / to_numpy() / values / len / [i] / in; any other '
                       'member of the mocks is a refusal (exit 2); pandas.isnull/isna (notnull/notna) of a cell or of a '
                       'row, numpy.isnan / math.isnan of a cell are true (false) exactly for empty cells',
                       'keywords that the caller did not give may reach pandas.read_excel with the default pandas '
                       'documents for them (pandas 3.0 signature)']
    run.undecided = ['pandas behaviour itself (duplicate-header mangling, NaN detection, dtype guessing)',
                     'atoms / vib_outcar columns (ASE and VASP file readers)']
    m = repo.module(XL)
    # the only entry point is read_excel; the documented setters are reached through it (they need not be plain defs:
    # a setter made by a factory or bound to another function is the same public name)
    if 'read_excel' not in m.functions:
        raise AnchorError('%s.read_excel not found' % XL)
    for f_ in ('read_excel', 'set_element', 'set_formula', 'set_statmech_model', 'set_trans_model', 'set_vib_model',
               'set_rot_model', 'set_elec_model', 'set_nucl_model', 'set_vib_wavenumbers', 'set_rot_temperatures',
               'set_nasa_a_low', 'set_nasa_a_high', 'set_list_value', 'set_dict_value'):
        if f_ in m.functions:
            run.fn('%s.%s' % (XL, f_))
    sm = repo.module('pmutt.statmech')
    SM = sm.classes.get('StatMech')
    EM = sm.classes.get('EmptyMode')

    zeros = lambda: [C(0)] * 7

    def arr7(**kw):
        v = zeros()
        for k, x in kw.items():
            v[int(k[1:])] = x
        return v
    fn = m.functions['read_excel']
    # --- what pandas is asked to read: the rows the caller wants skipped (the comment row by default, none when
    #     the sheet has no comment row), the header row, the workbook and every pandas option are passed on as given.
    #     A keyword the caller did not give may be spelled out with the default pandas documents for it (same request)

    def forwarded(label, given, kw, positional=False):
        want = {'io': BOOK, 'skiprows': ListV([C(1)]), 'header': C(0)}
        want.update(given)
        ok = kw is not None and all(k in kw and val_same(kw[k], want[k]) for k in want) and \
            all(k in PANDAS_DEFAULTS and val_same(kw[k], PANDAS_DEFAULTS[k]) for k in kw if k not in want)
        run.check(ok, 'FWD.pandas', 'excel.read_excel', label,
                  '[%s] pandas.read_excel is %s, expected %s (other keywords only with the default pandas documents): '
                  'the rows to skip (second row reserved for comments unless the caller says otherwise), the header '
                  'row, the worksheet and the pandas options must be passed on as given'
                  % (label, 'not called' if kw is None else 'called with %s' % {k: show(v, 40) for k, v in sorted(kw.items())},
                     {k: show(v, 40) for k, v in sorted(want.items())}), m, fn,
                  sample='[%s] forwarded to pandas: %s' % (label, sorted(want)))
    for label, given in (('default', {}), ('no comment row: skiprows=[]', {'skiprows': ListV([])}),
                         ('no comment row: skiprows=None', {'skiprows': None}),
                         ('skiprows=[1, 2]', {'skiprows': ListV([C(1), C(2)])}),
                         ('header=2', {'header': C(2)}), ('sheet_name', {'sheet_name': 'Sheet7'}),
                         ('sheet by position: sheet_name=2', {'sheet_name': C(2)}),
                         ('pandas options: na_values, usecols, dtype', {'na_values': 'n/a', 'usecols': 'A:F',
                                                                        'dtype': DictV({'name': 'str'})}),
                         ('workbook given positionally', {})):
        seen = []
        I = new_interp(repo, lambda kw: [], seen)
        if label == 'workbook given positionally':
            I.call_function(m, fn, [BOOK], dict(given))
        else:
            I.call_function(m, fn, [], dict({'io': BOOK}, **given))
        forwarded(label, given, seen[0] if len(seen) == 1 else None)
    # --- several calls in ONE interpreter (what every script does: one workbook, several worksheets, the same
    #     sheet read again with other rows skipped): each call asks pandas for what it was given and returns the records
    #     of the table pandas answered with - nothing is remembered between calls
    OTHER = '/dir/other.xlsx'
    schedule = [('sheet refs', {'io': BOOK, 'sheet_name': 'refs'}),
                ('sheet species of the same workbook', {'io': BOOK, 'sheet_name': 'species'}),
                ('sheet refs of another workbook', {'io': OTHER, 'sheet_name': 'refs'}),
                ('sheet refs without comment row (skiprows=[])', {'io': BOOK, 'sheet_name': 'refs', 'skiprows': ListV([])}),
                ('sheet refs, header in the second row', {'io': BOOK, 'sheet_name': 'refs', 'header': C(1)}),
                ('no sheet_name (first sheet)', {'io': BOOK}),
                ('sheet by position 1', {'io': BOOK, 'sheet_name': C(1)}),
                ('sheet refs again', {'io': BOOK, 'sheet_name': 'refs'}),
                ('sheet species again, dtype given', {'io': BOOK, 'sheet_name': 'species', 'dtype': 'object'})]

    def request(kw):
        """what a call asks pandas for, pandas' defaults filled in: identifies the table pandas answers with"""
        full = dict(PANDAS_DEFAULTS)
        full.update(kw)
        return tuple((k, show(full[k], 60)) for k in ('io', 'sheet_name', 'skiprows', 'header'))
    tables = {}
    for label, given in schedule:
        req = request(dict({'skiprows': ListV([C(1)]), 'header': C(0)}, **given))
        if req not in tables:
            t_ = 'T%d' % len(tables)
            tables[req] = (t_, len(tables) % 3 + 1 + len(tables) // 3)

    def table_rows(t_, n_):
        return [[('name', '%s-%d' % (t_, i_)), ('formula', 'H2O'), ('vib_wavenumber', a('%s_w%d' % (t_, i_))),
                 ('vib_wavenumber.1', a('%s_v%d' % (t_, i_))), ('potentialenergy', a('%s_E%d' % (t_, i_)))]
                for i_ in range(n_)]

    def table_records(t_, n_):
        return [{'name': '%s-%d' % (t_, i_), 'elements': {'H': C(2), 'O': C(1)},
                 'vib_wavenumbers': [a('%s_w%d' % (t_, i_)), a('%s_v%d' % (t_, i_))],
                 'potentialenergy': a('%s_E%d' % (t_, i_))} for i_ in range(n_)]

    def workbook(kw):
        got = tables.get(request(kw))
        if got is None:
            return [[('name', 'a table nobody asked for')]]
        return table_rows(*got)
    seen = []
    I = new_interp(repo, workbook, seen)
    for k_, (label, given) in enumerate(schedule):
        before = len(seen)
        out = I.call_function(m, fn, [], dict(given))
        label = 'call %d of %d in one session: %s' % (k_ + 1, len(schedule), label)
        forwarded(label, given, seen[-1] if len(seen) == before + 1 else None)
        t_, n_ = tables[request(dict({'skiprows': ListV([C(1)]), 'header': C(0)}, **given))]
        want_recs = table_records(t_, n_)
        ok = isinstance(out, ListV) and len(out) == n_
        run.check(ok, 'REF.rows', 'excel.read_excel', label,
                  '[%s] the worksheet asked for has %d data rows (%s ...): the call must return their records, got %s'
                  % (label, n_, want_recs[0]['name'], show(out, 160)), m, fn)
        if ok:
            for i_, (rec, want) in enumerate(zip(out.items, want_recs)):
                expect_record(run, m, fn, I, rec, want, '%s, row %d' % (label, i_ + 1))
    # --- sheet 1: ordinary + composition + lists, three rows with different subsets and empty cells ------------
    rows = [
        [(' name ', '  H2O '), ('element.H', ai('nH')), ('element.O ', a('nO')), ('vib_wavenumber', a('w1')),
         ('vib_wavenumber.1', ai('w2')), ('vib_wavenumber.2', NAN), (' rot_temperature', ai('t1')),
         (' potentialenergy  ', a('E1')), ('phase', NAN), ('list.sites', a('s1')), ('list.sites.1', ai('s2')),
         ('dict.misc.alpha', a('d1')), ('  dict.misc.beta ', ai('d2'))],
        [(' name ', 'CO'), ('element.H', NAN), ('element.O ', ai('mO')), ('vib_wavenumber', NAN),
         ('vib_wavenumber.1', NAN), ('vib_wavenumber.2', ai('w3')), (' rot_temperature', NAN),
         (' potentialenergy  ', NAN), ('phase', ' G '), ('list.sites', NAN), ('list.sites.1', NAN),
         ('dict.misc.alpha', NAN), ('  dict.misc.beta ', a('d3'))],
        [(' name ', NAN), ('element.H', NAN), ('element.O ', NAN), ('vib_wavenumber', NAN),
         ('vib_wavenumber.1', NAN), ('vib_wavenumber.2', NAN), (' rot_temperature', NAN),
         (' potentialenergy  ', NAN), ('phase', NAN), ('list.sites', NAN), ('list.sites.1', NAN),
         ('dict.misc.alpha', NAN), ('  dict.misc.beta ', NAN)],
    ]
    I, out, m, fn = run_reader(repo, rows)
    ok = isinstance(out, ListV) and len(out) == 3
    run.check(ok, 'REF.rows', 'excel.read_excel', 'one record per row',
              'three data rows must give three records in row order, got %s' % show(out, 120), m, fn)
    if ok:
        expect_record(run, m, fn, I, out.items[0],
                      {'name': 'H2O', 'elements': {'H': a('nH'), 'O': a('nO')}, 'vib_wavenumbers': [a('w1'), a('w2')],
                       'rot_temperatures': [a('t1')], 'potentialenergy': a('E1'), 'sites': [a('s1'), a('s2')],
                       'misc': {'alpha': a('d1'), 'beta': a('d2')}}, 'row 1: full row')
        expect_record(run, m, fn, I, out.items[1],
                      {'name': 'CO', 'elements': {'O': a('mO')}, 'vib_wavenumbers': [a('w3')], 'phase': 'G',
                       'misc': {'beta': a('d3')}}, 'row 2: other subset (nothing leaks from row 1)')
        expect_record(run, m, fn, I, out.items[2], {}, 'row 3: all cells empty')
    # --- sheet 1b: repeated rot_temperature columns (pandas suffixes .1, .2) interleaved with repeated vib_wavenumber
    #     columns: both lists keep the column order, an empty cell in the middle is left out ------------------------
    rows = [
        [('name', 'H2O'), ('rot_temperature', a('ta')), ('vib_wavenumber', a('wa')), (' rot_temperature.1 ', ai('tb')),
         ('vib_wavenumber.1', ai('wb')), ('rot_temperature.2', a('tc')), ('vib_wavenumber.2', ai('wc'))],
        [('name', 'CO2'), ('rot_temperature', ai('td')), ('vib_wavenumber', NAN), (' rot_temperature.1 ', NAN),
         ('vib_wavenumber.1', ai('wd')), ('rot_temperature.2', a('te')), ('vib_wavenumber.2', a('we'))],
    ]
    I, out, m, fn = run_reader(repo, rows)
    if isinstance(out, ListV) and len(out) == 2:
        expect_record(run, m, fn, I, out.items[0],
                      {'name': 'H2O', 'rot_temperatures': [a('ta'), a('tb'), a('tc')],
                       'vib_wavenumbers': [a('wa'), a('wb'), a('wc')]},
                      'three rot_temperature columns: list in column order', 'set_rot_temperatures')
        expect_record(run, m, fn, I, out.items[1],
                      {'name': 'CO2', 'rot_temperatures': [a('td'), a('te')], 'vib_wavenumbers': [a('wd'), a('we')]},
                      'three rot_temperature columns, middle cell empty', 'set_rot_temperatures')
    else:
        run.fail('REF.rows', 'excel.read_excel', 'sheet 1b', 'unexpected result %s' % show(out, 120), m, fn)
    # --- sheet 1c: cells are arbitrary, so rows may agree in their name (or in every cell): still one record per row
    rows = [
        [('name', 'H2O'), ('phase', 'G'), ('potentialenergy', a('Ea'))],
        [('name', 'H2O'), ('phase', 'L'), ('potentialenergy', ai('Eb'))],
        [('name', 'CO'), ('phase', 'G'), ('potentialenergy', a('Ec'))],
        [('name', 'H2O'), ('phase', 'G'), ('potentialenergy', a('Ea'))],
    ]
    I, out, m, fn = run_reader(repo, rows)
    ok = isinstance(out, ListV) and len(out) == 4
    run.check(ok, 'REF.rows', 'excel.read_excel', 'rows sharing a name',
              'four data rows, three of them named H2O (two identical in every cell), must give four records in row '
              'order, got %s' % show(out, 160), m, fn)
    if ok:
        for rec, (nm, ph, e_), lab in zip(out.items, (('H2O', 'G', 'Ea'), ('H2O', 'L', 'Eb'), ('CO', 'G', 'Ec'),
                                                      ('H2O', 'G', 'Ea')),
                                          ('first', 'second (same name)', 'third', 'fourth (identical to the first)')):
            expect_record(run, m, fn, I, rec, {'name': nm, 'phase': ph, 'potentialenergy': a(e_)},
                          'rows sharing a name: ' + lab)
    # --- sheet 1d: names of list.* / dict.* fields and ordinary headers are arbitrary (they may end in a digit, like
    #     the pandas suffix does); a list with more than ten columns (suffixes .10, .11) ------------------------------
    t2 = ['list.T2'] + ['list.T2.%d' % i_ for i_ in range(1, 12)]
    t2[4] = ' list.T2.4 '
    rows = [
        [('name', 'CO2(S)')] + [(h, (ai if i_ % 3 == 1 else a)('T2_%d' % i_)) for i_, h in enumerate(t2)] +
        [('list.sites', ' fcc '), ('list.sites.1', 'hcp'), ('list.coverages_CO2', a('cov1')), ('dict.bonds2.C1', a('b1')),
         ('dict.bonds2.O2', ai('b2')), ('phase2', 'S')],
        [('name', 'CO(S)')] + [(h, NAN if i_ in (0, 5, 10) else a('U2_%d' % i_)) for i_, h in enumerate(t2)] +
        [('list.sites', 'top'), ('list.sites.1', NAN), ('list.coverages_CO2', NAN), ('dict.bonds2.C1', NAN),
         ('dict.bonds2.O2', a('b3')), ('phase2', NAN)],
    ]
    I, out, m, fn = run_reader(repo, rows)
    if isinstance(out, ListV) and len(out) == 2:
        expect_record(run, m, fn, I, out.items[0],
                      {'name': 'CO2(S)', 'T2': [a('T2_%d' % i_) for i_ in range(12)], 'sites': ['fcc', 'hcp'],
                       'coverages_CO2': [a('cov1')], 'bonds2': {'C1': a('b1'), 'O2': a('b2')}, 'phase2': 'S'},
                      'list / dict / ordinary names ending in a digit, twelve list.T2 columns')
        expect_record(run, m, fn, I, out.items[1],
                      {'name': 'CO(S)', 'T2': [a('U2_%d' % i_) for i_ in range(12) if i_ not in (0, 5, 10)],
                       'sites': ['top'], 'bonds2': {'O2': a('b3')}},
                      'list / dict / ordinary names ending in a digit, empty cells in list.T2')
    else:
        run.fail('REF.rows', 'excel.read_excel', 'sheet 1d', 'unexpected result %s' % show(out, 120), m, fn)
    # --- sheet 1f: text cells are arbitrary: what looks like a placeholder ('-', '?', '0') is a cell like any other,
    #     in ordinary, list.* and dict.* columns and as a name; a numeric cell may be zero; only cells pandas reports
    #     as null are empty (texts pandas itself reads as NaN - 'n/a', 'nan', 'None' - never arrive as text) --------
    rows = [
        [('name', 'CO2(S)'), ('notes', '-'), ('list.labels', '?'), ('list.labels.1', ' - '), ('dict.bonds.C', '-'),
         ('dict.bonds.O', a('bO')), ('phase', '0'), ('potentialenergy', C(0)), ('element.Pt', C(0)),
         ('vib_wavenumber', a('wz')), ('vib_wavenumber.1', C(0)), ('list.cov', C(0)), ('list.cov.1', a('cz')),
         ('dict.shift.x', C(0)), ('nasa.a_low.2', C(0))],
        [('name', '-'), ('notes', '?'), ('list.labels', NAN), ('list.labels.1', '0'), ('dict.bonds.C', '?'),
         ('dict.bonds.O', NAN), ('phase', NAN), ('potentialenergy', NAN), ('element.Pt', NAN),
         ('vib_wavenumber', NAN), ('vib_wavenumber.1', NAN), ('list.cov', NAN), ('list.cov.1', NAN),
         ('dict.shift.x', NAN), ('nasa.a_low.2', NAN)],
    ]
    I, out, m, fn = run_reader(repo, rows)
    if isinstance(out, ListV) and len(out) == 2:
        expect_record(run, m, fn, I, out.items[0],
                      {'name': 'CO2(S)', 'notes': '-', 'labels': ['?', '-'], 'bonds': {'C': '-', 'O': a('bO')},
                       'phase': '0', 'potentialenergy': C(0), 'elements': {'Pt': C(0)},
                       'vib_wavenumbers': [a('wz'), C(0)], 'cov': [C(0), a('cz')], 'shift': {'x': C(0)},
                       'a_low': zeros()},
                      "text cells '-', '?', '0' and numeric cells equal to zero in ordinary, list, dict and special columns")
        expect_record(run, m, fn, I, out.items[1],
                      {'name': '-', 'notes': '?', 'labels': ['0'], 'bonds': {'C': '?'}},
                      "text cells: a species named '-', next to empty cells")
    else:
        run.fail('REF.rows', 'excel.read_excel', 'sheet 1f', 'unexpected result %s' % show(out, 120), m, fn)
    # --- sheet 1g: cells are arbitrary, so two cells of one row may hold the SAME value (degenerate modes have equal
    #     wavenumbers, a symmetric top equal rotational temperatures, a list the same site twice): every filled cell
    #     is in the record, equal or not, first, last or adjacent ---------------------------------------------------------
    rows = [
        [('name', 'CO2'), ('vib_wavenumber', a('g1')), ('vib_wavenumber.1', a('g2')), ('vib_wavenumber.2', a('g3')),
         ('vib_wavenumber.3', a('g3')), ('rot_temperature', ai('gr')), ('rot_temperature.1', ai('gr')),
         ('list.sites', 'fcc'), ('list.sites.1', ' fcc '), ('list.cov', ai('gc')), ('list.cov.1', ai('gc')),
         ('dict.d.x', a('g1')), ('dict.d.y', a('g1')), ('element.H', ai('gn')), ('element.O', ai('gn')),
         ('potentialenergy', a('g1')), ('nasa.a_low.0', a('gz')), ('nasa.a_low.1', a('gz')), ('phase', 'fcc'),
         ('notes', 'fcc')],
        [('name', 'CH4'), ('vib_wavenumber', a('h1')), ('vib_wavenumber.1', C(1534)), ('vib_wavenumber.2', C(1534)),
         ('vib_wavenumber.3', a('h1')), ('rot_temperature', C(Fr(151, 20))), ('rot_temperature.1', C(Fr(151, 20))),
         ('list.sites', 'top'), ('list.sites.1', 'top'), ('list.cov', C(0)), ('list.cov.1', C(0)),
         ('dict.d.x', 'top'), ('dict.d.y', 'top'), ('element.H', C(4)), ('element.O', NAN),
         ('potentialenergy', NAN), ('nasa.a_low.0', NAN), ('nasa.a_low.1', NAN), ('phase', 'top'), ('notes', NAN)],
    ]
    I, out, m, fn = run_reader(repo, rows)
    if isinstance(out, ListV) and len(out) == 2:
        expect_record(run, m, fn, I, out.items[0],
                      {'name': 'CO2', 'vib_wavenumbers': [a('g1'), a('g2'), a('g3'), a('g3')],
                       'rot_temperatures': [a('gr'), a('gr')], 'sites': ['fcc', 'fcc'], 'cov': [a('gc'), a('gc')],
                       'd': {'x': a('g1'), 'y': a('g1')}, 'elements': {'H': a('gn'), 'O': a('gn')},
                       'potentialenergy': a('g1'), 'a_low': arr7(i0=a('gz'), i1=a('gz')), 'phase': 'fcc',
                       'notes': 'fcc'},
                      'equal cells in one row (degenerate wavenumbers, same site twice): every cell is kept')
        expect_record(run, m, fn, I, out.items[1],
                      {'name': 'CH4', 'vib_wavenumbers': [a('h1'), C(1534), C(1534), a('h1')],
                       'rot_temperatures': [C(Fr(151, 20)), C(Fr(151, 20))], 'sites': ['top', 'top'],
                       'cov': [C(0), C(0)], 'd': {'x': 'top', 'y': 'top'}, 'elements': {'H': C(4)}, 'phase': 'top'},
                      'equal cells in one row: equal numbers, first and last cell equal')
    else:
        run.fail('REF.rows', 'excel.read_excel', 'sheet 1g: equal cells in one row', 'unexpected result %s' % show(out, 120), m, fn)
    # --- sheet 1h: any pattern of empty cells: five columns (the first one is the plain header `name`), one row per
    #     pattern of empty cells - 32 rows, from all filled to all empty: one record per row, in row order, with exactly
    #     the filled cells (a row without a name, or with nothing but a name, is a row like any other) ----------------
    cols5 = ('name', 'phase', 'potentialenergy', 'vib_wavenumber', 'list.notes')
    rows, wants = [], []
    for pat in range(32):
        filled = [not (pat >> k_) & 1 for k_ in range(5)]
        cellv = {'name': 'S%d' % pat, 'phase': 'G' if pat % 2 else 'S', 'potentialenergy': a('p%d_E' % pat),
                 'vib_wavenumber': ai('p%d_w' % pat), 'list.notes': 'note %d' % pat}
        rows.append([(h, cellv[h] if f_ else NAN) for h, f_ in zip(cols5, filled)])
        want = {}
        for h, f_ in zip(cols5, filled):
            if f_:
                if h == 'vib_wavenumber':
                    want['vib_wavenumbers'] = [cellv[h]]
                elif h == 'list.notes':
                    want['notes'] = [cellv[h]]
                else:
                    want[h] = cellv[h]
        wants.append(want)
    # the same table with the columns in another order (the first column is not `name`) and the rows reversed
    order2 = (3, 1, 4, 0, 2)
    for label, rows_, wants_ in (('columns name, phase, potentialenergy, vib_wavenumber, list.notes', rows, wants),
                                 ('columns vib_wavenumber, phase, list.notes, name, potentialenergy; rows reversed',
                                  [[r_[k_] for k_ in order2] for r_ in reversed(rows)], list(reversed(wants)))):
        I, out, m, fn = run_reader(repo, rows_)
        ok = isinstance(out, ListV) and len(out) == 32
        run.check(ok, 'REF.rows', 'excel.read_excel', 'every pattern of empty cells: ' + label,
                  '32 data rows (every pattern of empty cells in five columns) must give 32 records in row order, got '
                  '%s' % show(out, 160), m, fn)
        if ok:
            for ri, (rec, want) in enumerate(zip(out.items, wants_)):
                expect_record(run, m, fn, I, rec, want,
                              'every pattern of empty cells (%s): row %d, filled: %s'
                              % (label.split(';')[0], ri + 1, ', '.join(sorted(want)) or 'nothing'))
    # --- sheet 1j: the longest table of the property (60 data rows), every third cell of a column empty, each column
    #     with its own phase: 60 records in row order ---------------------------------------------------------------------
    rows, wants = [], []
    for ri in range(60):
        cellv = (('name', 'N%02d' % ri, ri % 3 == 2), ('potentialenergy', a('L%d_E' % ri), ri % 3 == 0),
                 ('vib_wavenumber', ai('L%d_w' % ri), ri % 3 == 1), ('vib_wavenumber.1', a('L%d_v' % ri), ri % 4 == 1))
        rows.append([(h, NAN if hole else v) for h, v, hole in cellv])
        want = {h: v for h, v, hole in cellv[:2] if not hole}
        vibs = [v for h, v, hole in cellv[2:] if not hole]
        if vibs:
            want['vib_wavenumbers'] = vibs
        wants.append(want)
    I, out, m, fn = run_reader(repo, rows)
    ok = isinstance(out, ListV) and len(out) == 60
    run.check(ok, 'REF.rows', 'excel.read_excel', '60 data rows',
              '60 data rows must give 60 records in row order, got %s' % show(out, 160), m, fn)
    if ok:
        for ri, (rec, want) in enumerate(zip(out.items, wants)):
            expect_record(run, m, fn, I, rec, want, '60 data rows: row %d' % (ri + 1))
    # --- sheet 1i: ordinary columns are arbitrary headers with arbitrary text cells: lower / mixed case, brackets,
    #     inner blanks, digits; a text the rule leaves open (symbolic), bare and with surrounding blanks; headers that
    #     differ in case only.  Everything passes through as it is (trimmed), whatever the column is called ----------
    from ..absstr import SegStr
    rows = [
        [('name', 'ch3oh(s)'), ('phase', 'g'), ('Phase', ' Gas '), ('notes', 'Mixed Case,  two  inner blanks'),
         ('comments', 'fcc(111)'), ('spin', ai('sp')), ('smiles', '[CH3][OH]'), ('symmetrynumber', ai('sn')),
         ('free text', SYM('@free')), ('free text 2', SegStr.lit('  ') + SegStr.field('@pad', 5, 'text') + ' '),
         ('list.Sites', 'Top'), ('list.Sites.1', SYM('@site')), ('dict.Misc.Alpha', 'Bridge'),
         ('dict.Misc.beta', SYM('@dv')), ('element.Pt', ai('nPt1'))],
        [('name', 'CH3OH(S)'), ('phase', 'fcc(111)'), ('Phase', NAN), ('notes', 'lower case'),
         ('comments', NAN), ('spin', NAN), ('smiles', 'co'), ('symmetrynumber', NAN),
         ('free text', NAN), ('free text 2', SYM('@free')), ('list.Sites', NAN), ('list.Sites.1', 'hollow'),
         ('dict.Misc.Alpha', NAN), ('dict.Misc.beta', 'x y'), ('element.Pt', NAN)],
    ]
    I, out, m, fn = run_reader(repo, rows)
    if isinstance(out, ListV) and len(out) == 2:
        expect_record(run, m, fn, I, out.items[0],
                      {'name': 'ch3oh(s)', 'phase': 'g', 'Phase': 'Gas', 'notes': 'Mixed Case,  two  inner blanks',
                       'comments': 'fcc(111)', 'spin': a('sp'), 'smiles': '[CH3][OH]', 'symmetrynumber': a('sn'),
                       'free text': '@free', 'free text 2': '@pad', 'Sites': ['Top', '@site'],
                       'Misc': {'Alpha': 'Bridge', 'beta': '@dv'}, 'elements': {'Pt': a('nPt1')}},
                      'ordinary, list and dict columns with text cells of any shape (lower / mixed case, brackets, '
                      'a text left open)')
        expect_record(run, m, fn, I, out.items[1],
                      {'name': 'CH3OH(S)', 'phase': 'fcc(111)', 'notes': 'lower case', 'smiles': 'co',
                       'free text 2': '@free', 'Sites': ['hollow'], 'Misc': {'beta': 'x y'}},
                      'ordinary, list and dict columns with text cells of any shape, second row')
    else:
        run.fail('REF.rows', 'excel.read_excel', 'sheet 1i: text cells of any shape', 'unexpected result %s' % show(out, 120), m, fn)
    # --- sheet 1e: vib_wavenumber repeated up to 30 times (pandas suffixes .1 ... .29), rot_temperature 12 times,
    #     interleaved, some headers padded, integer and float cells, holes at the ends and across the one/two-digit
    #     suffix boundary; the thorough tier runs every number of columns from 1 to 30 --------------------------------

    def numbered(base, i_):
        h = base if i_ == 0 else '%s.%d' % (base, i_)
        return ' %s  ' % h if i_ % 7 == 3 else h

    def long_sheet(nv, nr):
        cols = []
        for i_ in range(max(nv, nr)):
            if i_ < nv:
                cols.append(('v', i_, numbered('vib_wavenumber', i_)))
            if i_ < nr:
                cols.append(('r', i_, numbered('rot_temperature', i_)))
        holes = ({}, {'v': {0, 9, 10, nv - 1}, 'r': {1, 10}}, {'v': set(range(0, 10)), 'r': set(range(0, 11))})
        rows_, wants = [], []
        for ri, hole in enumerate(holes):
            cells = [('name', 'S%d' % ri)]
            want = {'name': 'S%d' % ri}
            for kind, i_, h in cols:
                if i_ in hole.get(kind, ()):
                    cells.append((h, NAN))
                    continue
                x = (ai if (i_ + ri) % 2 else a)('%s%d_%d_%dx%d' % (kind, ri, i_, nv, nr))
                cells.append((h, x))
                want.setdefault('vib_wavenumbers' if kind == 'v' else 'rot_temperatures', []).append(x)
            cells.append(('potentialenergy', a('EL%d' % ri)))
            want['potentialenergy'] = a('EL%d' % ri)
            rows_.append(cells)
            wants.append(want)
        return rows_, wants
    for nv, nr in [(30, 12), (12, 1)] + ([(n_, (n_ * 7) % 13) for n_ in range(1, 30)] if run.tier == 'thorough' else []):
        rows, wants = long_sheet(nv, nr)
        I, out, m, fn = run_reader(repo, rows)
        lab = '%d vib_wavenumber and %d rot_temperature columns' % (nv, nr)
        if isinstance(out, ListV) and len(out) == len(wants):
            for rec, want, what in zip(out.items, wants, ('every cell filled', 'holes at both ends and at .9/.10',
                                                          'only the two-digit suffixes filled')):
                expect_record(run, m, fn, I, rec, want, '%s: %s' % (lab, what))
        else:
            run.fail('REF.rows', 'excel.read_excel', lab, 'unexpected result %s' % show(out, 120), m, fn)
    # --- sheet 2: formula, NASA coefficients ---------------------------------------------------------------------
    rows = [
        [('name', 'CH3OH'), ('formula', 'CH3OH'), ('nasa.a_low.0', a('l0')), ('nasa.a_low.6', ai('l6')),
         ('nasa.a_high.3', ai('h3')), ('T_low', a('Tl'))],
        [('name', 'Al2O3'), ('formula', 'Al2O3'), ('nasa.a_low.0', NAN), ('nasa.a_low.6', NAN),
         ('nasa.a_high.3', NAN), ('T_low', ai('Tl2'))],
    ]
    I, out, m, fn = run_reader(repo, rows)
    if isinstance(out, ListV) and len(out) == 2:
        expect_record(run, m, fn, I, out.items[0],
                      {'name': 'CH3OH', 'elements': {'C': C(1), 'H': C(4), 'O': C(1)},
                       'a_low': arr7(i0=a('l0'), i6=a('l6')), 'a_high': arr7(i3=a('h3')), 'T_low': a('Tl')},
                      'formula + NASA coefficient columns')
        expect_record(run, m, fn, I, out.items[1],
                      {'name': 'Al2O3', 'elements': {'Al': C(2), 'O': C(3)}, 'T_low': a('Tl2')},
                      'formula only (no NASA arrays leak from the previous row)')
    else:
        run.fail('REF.rows', 'excel.read_excel', 'sheet 2', 'unexpected result %s' % show(out, 120), m, fn)
    # --- sheet 2b: rows that share one formula and add their own element.X cells: each row owns its composition ----
    rows = [
        [('name', 'H2O(S)'), ('formula', 'H2O'), ('element.Pt', ai('nPt'))],
        [('name', 'H2O'), ('formula', 'H2O'), ('element.Pt', NAN)],
        [('name', 'H2O(T)'), ('formula', 'H2O'), ('element.Pt', a('mPt'))],
    ]
    I, out, m, fn = run_reader(repo, rows)
    if isinstance(out, ListV) and len(out) == 3:
        for rec, nm, extra, lab in zip(out.items, ('H2O(S)', 'H2O', 'H2O(T)'), ({'Pt': a('nPt')}, {}, {'Pt': a('mPt')}),
                                      ('first row', 'second row, element cell empty', 'third row')):
            expect_record(run, m, fn, I, rec, {'name': nm, 'elements': dict({'H': C(2), 'O': C(1)}, **extra)},
                          'same formula in several rows + element.X: ' + lab)
    else:
        run.fail('REF.rows', 'excel.read_excel', 'sheet 2b', 'unexpected result %s' % show(out, 120), m, fn)
    # --- sheet 3: model presets and per-mode models ----------------------------------------------------------------
    I0 = Interp(repo)
    from ..xlate import Frame
    import ast as _ast

    def table(expr):
        return Frame(I0, sm, {}, None, None).ev(_ast.parse(expr, mode='eval').body)
    presets = table('presets')
    # the names are those of the evaluated table (a display, a dict(...) call, a table filled by assignments)
    names_ = table('list(presets.keys())')
    preset_names = [k for k in names_.items if isinstance(k, str)] if isinstance(names_, ListV) else []
    presets_node = getattr(presets, 'node', None)
    run.floor('presets', len(preset_names), 5)
    # the rule's own copy of the documented table (docs/source/api/statmech/statmech.rst, "Presets": the attributes
    # each preset sets); the 'required' / 'optional' reminders are not part of that table and are taken from the
    # table of a FRESH interpreter (never from the one that has just read rows)
    S_ = 'pmutt.statmech'
    doc_presets = {
        'idealgas': {'trans_model': (S_ + '.trans', 'FreeTrans'), 'n_degrees': C(3),
                     'vib_model': (S_ + '.vib', 'HarmonicVib'), 'elec_model': (S_ + '.elec', 'GroundStateElec'),
                     'rot_model': (S_ + '.rot', 'RigidRotor')},
        'harmonic': {'vib_model': (S_ + '.vib', 'HarmonicVib'), 'elec_model': (S_ + '.elec', 'GroundStateElec')},
        'electronic': {'elec_model': (S_ + '.elec', 'GroundStateElec')},
        'placeholder': {'trans_model': (S_, 'EmptyMode'), 'vib_model': (S_, 'EmptyMode'),
                        'rot_model': (S_, 'EmptyMode'), 'elec_model': (S_, 'EmptyMode'),
                        'nucl_model': (S_, 'EmptyMode')},
        'constant': {'elec_model': (S_, 'ConstantMode')},
    }

    def documented(pname):
        out_ = {}
        for k, v in doc_presets[pname].items():
            if isinstance(v, tuple):
                cls_ = repo.module(v[0]).classes.get(v[1])
                if cls_ is None:
                    raise AnchorError('%s.%s not found' % v)
                v = cls_
            out_[k] = v
        return out_

    def is_set_attribute(k):
        return k.endswith('_model') or k == 'n_degrees'
    for pname in doc_presets:
        run.check(pname in preset_names, 'TABLE.preset-class', 'statmech.presets', pname,
                  'the documented preset %r is missing from the presets table' % pname, sm, presets_node)
    contribs = {}
    for pname in preset_names:
        fresh = table('presets[%r]' % pname)
        doc = documented(pname) if pname in doc_presets else None
        # what the preset contributes to a record: documented attributes + the reminders of the fresh table
        contrib = {}
        for k, v in fresh.d.items():
            if doc is None or not (is_set_attribute(k) or k == 'model'):
                contrib[k] = v
        if doc is not None:
            contrib.update(doc)
        contrib['model'] = SM
        contribs[pname] = contrib
        # two rows with the same preset: the first fills a column left of statmech_model (symmetrynumber) and one
        # right of it that the preset may also set (n_degrees); the second leaves both empty
        rows = [[('symmetrynumber', a('sy')), ('statmech_model', ' %s ' % pname.upper() if pname == 'idealgas' else pname),
                 ('n_degrees', a('nd')), ('potentialenergy', a('E1'))],
                [('symmetrynumber', NAN), ('statmech_model', pname), ('n_degrees', NAN),
                 ('potentialenergy', a('E2'))]]
        I, out, m, fn = run_reader(repo, rows)
        want1 = dict(contrib, symmetrynumber=a('sy'), n_degrees=a('nd'), potentialenergy=a('E1'))
        want2 = dict(contrib, potentialenergy=a('E2'))
        if isinstance(out, ListV) and len(out) == 2:
            expect_record(run, m, fn, I, out.items[0], want1, 'statmech_model=%s' % pname, 'set_statmech_model')
            expect_record(run, m, fn, I, out.items[1], want2,
                          'statmech_model=%s, second row with the same preset (nothing of the first row in it)' % pname,
                          'set_statmech_model')
        else:
            run.fail('REF.record', 'excel.set_statmech_model', 'statmech_model=%s' % pname,
                     'unexpected result %s' % show(out, 120), m, m.functions.get('set_statmech_model') or fn)
        # the table itself: a documented preset sets exactly the documented attributes to the documented classes;
        # a preset the documentation does not list must at least name classes of the module of their mode
        if doc is not None:
            got = {k: v for k, v in fresh.d.items() if is_set_attribute(k)}
            okm = set(got) == set(doc) and all(val_same(got[k], doc[k]) for k in doc)
            run.check(okm, 'TABLE.preset-class', 'statmech.presets', '%s: documented attributes' % pname,
                      'preset %s sets %s, the documentation says %s' % (
                          pname, {k: show(v, 40) for k, v in sorted(got.items())},
                          {k: show(v, 40) for k, v in sorted(doc.items())}), sm, presets_node)
        else:
            for k, v in fresh.d.items():
                if k.endswith('_model'):
                    mode = k.split('_')[0]
                    modname = 'pmutt.statmech.' + mode
                    okm = isinstance(v, ClassInfo) and (v.module.name in (modname, 'pmutt.statmech', 'pmutt.statmech.lsr'))
                    run.check(okm, 'TABLE.preset-class', 'statmech.presets', '%s.%s' % (pname, k),
                              'preset %s names %s for %s, which is not a class of that mode\'s module'
                              % (pname, show(v), k), sm, presets_node)
    r = run_reader(repo, [[('statmech_model', 'no such preset')]])
    run.check(isinstance(r[1], Raised) and r[1].exc == 'ValueError', 'PATH.unknown-preset', 'excel.set_statmech_model',
              'unknown preset', 'an unknown preset must raise ValueError (got %s)' % show(r[1]), m,
              m.functions.get('set_statmech_model') or fn)
    # every model class the API documentation lists per mode (docs/source/api/statmech/<mode>/), not a sample
    modes = (('trans', 'FreeTrans', 'pmutt.statmech.trans'), ('vib', 'HarmonicVib', 'pmutt.statmech.vib'),
             ('vib', 'QRRHOVib', 'pmutt.statmech.vib'), ('vib', 'EinsteinVib', 'pmutt.statmech.vib'),
             ('vib', 'DebyeVib', 'pmutt.statmech.vib'), ('rot', 'RigidRotor', 'pmutt.statmech.rot'),
             ('elec', 'GroundStateElec', 'pmutt.statmech.elec'), ('elec', 'LSR', 'pmutt.statmech.lsr'),
             ('elec', 'ExtendedLSR', 'pmutt.statmech.lsr'), ('nucl', 'EmptyNucl', 'pmutt.statmech.nucl'))
    for mode, cname, modname in modes:
        want_cls = repo.module(modname).classes.get(cname)
        if want_cls is None:
            raise AnchorError('%s.%s not found' % (modname, cname))
        for cell, wc in ((cname, want_cls), ('EmptyMode', EM), ('emptymode', EM)):
            I, out, m, fn = run_reader(repo, [[('%s_model' % mode, cell)]])
            setter = 'set_%s_model' % mode
            label = '%s_model=%s' % (mode, cell)
            if isinstance(out, ListV) and len(out) == 1:
                expect_record(run, m, fn, I, out.items[0], {'%s_model' % mode: wc, 'model': SM}, label, setter)
            else:
                run.fail('REF.record', 'excel.' + setter, label if cell == cname else label,
                         'a documented %s model name is not resolved in the module of its mode: %s'
                         % (mode, show(out, 100)), m, m.functions.get(setter) or fn)
        I, out, m, fn = run_reader(repo, [[('%s_model' % mode, 'NoSuchModel')]])
        run.check(isinstance(out, Raised) and out.exc == 'ValueError', 'PATH.unknown-model', 'excel.set_%s_model' % mode,
                  'unknown name', 'an unknown %s model name must raise ValueError (got %s)' % (mode, show(out, 60)), m,
                  m.functions.get('set_%s_model' % mode) or fn)
    # the row's own model cell wins over the preset, whatever the column order: for every mode a documented name that
    # differs from what the preset sets, and the EmptyMode fallback, right and left of statmech_model
    def cls_of(modname, cname):
        c_ = repo.module(modname).classes.get(cname)
        if c_ is None:
            raise AnchorError('%s.%s not found' % (modname, cname))
        return c_
    wins = (('trans', 'idealgas', ' EmptyMode', EM), ('vib', 'idealgas', ' QRRHOVib ', cls_of(S_ + '.vib', 'QRRHOVib')),
            ('vib', 'idealgas', 'EmptyMode', EM), ('vib', 'harmonic', 'DebyeVib', cls_of(S_ + '.vib', 'DebyeVib')),
            ('rot', 'idealgas', 'emptymode', EM), ('elec', 'idealgas', 'LSR', cls_of(S_ + '.lsr', 'LSR')),
            ('elec', 'electronic', 'EmptyMode', EM), ('elec', 'constant', 'GroundStateElec', cls_of(S_ + '.elec', 'GroundStateElec')),
            ('nucl', 'placeholder', 'EmptyNucl', cls_of(S_ + '.nucl', 'EmptyNucl')),
            ('trans', 'placeholder', 'FreeTrans', cls_of(S_ + '.trans', 'FreeTrans')),
            ('rot', 'placeholder', 'RigidRotor ', cls_of(S_ + '.rot', 'RigidRotor')))
    for mode, pname, cell, wc in wins:
        if pname not in contribs or pname not in doc_presets:
            continue                        # reported above (TABLE.preset-class: documented preset missing)
        key = '%s_model' % mode
        for left in (False, True):
            cells = [('name', 'X'), ('statmech_model', pname), (key, cell), ('potentialenergy', a('Ew'))]
            if left:
                cells[1], cells[2] = cells[2], cells[1]
            I, out, m, fn = run_reader(repo, [cells])
            # right of the preset the setter of the mode must store the cell; left of it the preset must not overwrite
            setter = 'set_statmech_model' if left else 'set_%s_model' % mode
            label = '%s=%s %s of statmech_model=%s' % (key, cell.strip(), 'left' if left else 'right', pname)
            if isinstance(out, ListV) and len(out) == 1:
                want = dict(contribs[pname], name='X', potentialenergy=a('Ew'))
                want[key] = wc
                expect_record(run, m, fn, I, out.items[0], want, label, setter)
            else:
                run.fail('REF.record', 'excel.' + setter, label, 'unexpected result %s' % show(out, 120), m,
                         m.functions.get(setter) or fn)
    # every mode of one row given explicitly, statmech_model in the middle; a second row with the bare preset
    if 'idealgas' in contribs and 'idealgas' in doc_presets:
        rows = [[('vib_model', 'EinsteinVib'), ('trans_model', 'EmptyMode'), ('statmech_model', 'idealgas'),
                 ('rot_model', 'EmptyMode'), ('elec_model', 'ExtendedLSR'), ('nucl_model', 'EmptyNucl')],
                [('vib_model', NAN), ('trans_model', NAN), ('statmech_model', 'idealgas'), ('rot_model', NAN),
                 ('elec_model', NAN), ('nucl_model', NAN)]]
        I, out, m, fn = run_reader(repo, rows)
        if isinstance(out, ListV) and len(out) == 2:
            expect_record(run, m, fn, I, out.items[0],
                          dict(contribs['idealgas'], vib_model=cls_of(S_ + '.vib', 'EinsteinVib'), trans_model=EM,
                               rot_model=EM, elec_model=cls_of(S_ + '.lsr', 'ExtendedLSR'),
                               nucl_model=cls_of(S_ + '.nucl', 'EmptyNucl')),
                          'all five model cells around statmech_model=idealgas', 'set_statmech_model')
            expect_record(run, m, fn, I, out.items[1], dict(contribs['idealgas']),
                          'bare preset in the row after a row with five model cells', 'set_statmech_model')
        else:
            run.fail('REF.record', 'excel.set_statmech_model', 'all five model cells around statmech_model=idealgas',
                     'unexpected result %s' % show(out, 120), m, m.functions.get('set_statmech_model') or fn)

X_ = 'pmutt/io/excel.py'
MUTANTS = [
    {'name': 'wb3 A4: NASA arrays started as np.array([0] * 7) (an integer buffer)', 'expect': ('TYPE.int-buffer', 'set_nasa_a_low'),
     'edits': [(X_, "        output_structure['a_low'] = np.zeros(7, )", "        output_structure['a_low'] = np.array([0] * 7)")]},
    {'name': 'row cells stored in the presets table', 'expect': ('REF.record', 'set_statmech_model'),
     'edits': [(X_, "        for key, val in presets[model].items():\n            if key not in output_structure:\n                output_structure[key] = val",
                    "        preset = presets[model]\n        preset.update(output_structure)\n        output_structure.update(preset)")]},
    {'name': 'record created outside the row loop', 'expect': ('REF', 'read_excel'),
     'edits': [(X_, "    for row, row_data in input_data.iterrows():\n        thermo_data = {}\n", "    thermo_data = {}\n    for row, row_data in input_data.iterrows():\n")]},
    {'name': 'empty cells stored', 'expect': ('REF.record', 'read_excel'),
     'edits': [(X_, "            if pd.isnull(cell_data):\n                # Skip empty cells\n                continue\n            elif 'Unnamed' in col:", "            if 'Unnamed' in col:")]},
    {'name': 'vib wavenumbers prepended', 'expect': ('REF.record', ''),
     'edits': [(X_, "        output_structure['vib_wavenumbers'].append(value)", "        output_structure['vib_wavenumbers'].insert(0, value)")]},
    {'name': 'a_high written into a_low', 'expect': ('REF.record', ''),
     'edits': [(X_, "        output_structure['a_high'][i] = value\n    except KeyError:", "        output_structure['a_low'][i] = value\n    except KeyError:")]},
    {'name': 'preset overwrites row values', 'expect': ('REF.record', 'set_statmech_model'),
     'edits': [(X_, "            if key not in output_structure:\n                output_structure[key] = val", "            output_structure[key] = val")]},
    {'name': 'header not trimmed', 'expect': ('REF.record', 'read_excel'),
     'edits': [(X_, "            if isinstance(col, str):\n                col = col.strip()", "            if isinstance(col, str):\n                col = col")]},
    {'name': 'rot temperatures prepended', 'expect': ('REF.record', 'set_rot_temperatures'),
     'edits': [(X_, "        output_structure['rot_temperatures'].append(value)", "        output_structure['rot_temperatures'] = [value] + output_structure['rot_temperatures']")]},
    {'name': 'vib models looked up in a table that forgets DebyeVib', 'expect': ('REF.record', 'set_vib_model'),
     'edits': [(X_, "        output_structure['vib_model'] = getattr(vib, model)\n    except AttributeError:", "        output_structure['vib_model'] = {'HarmonicVib': vib.HarmonicVib, 'QRRHOVib': vib.QRRHOVib, 'EinsteinVib': vib.EinsteinVib}[model]\n    except KeyError:")]},
    {'name': 'elec models no longer looked up in the lsr module', 'expect': ('REF.record', 'set_elec_model'),
     'edits': [(X_, "            output_structure['elec_model'] = getattr(lsr, model)", "            output_structure['elec_model'] = {'LSR': lsr.LSR}[model]\n        except KeyError:\n            raise ValueError(model)")]},
    {'name': 'rows with a name seen before are dropped', 'expect': ('REF.rows', 'read_excel'),
     'edits': [(X_, "    thermos_out = []\n", "    thermos_out = []\n    names_found = set()\n"),
               (X_, "        thermos_out.append(thermo_data)\n", "        name = thermo_data.get('name')\n        if name is not None:\n            if name in names_found:\n                continue\n            names_found.add(name)\n        thermos_out.append(thermo_data)\n")]},
    {'name': 'harmonic preset names QRRHOVib', 'expect': ('TABLE.preset-class', 'presets'),
     'edits': [('pmutt/statmech/__init__.py', "    'harmonic': {\n        'model': StatMech,\n        'vib_model': vib.HarmonicVib,", "    'harmonic': {\n        'model': StatMech,\n        'vib_model': vib.QRRHOVib,")]},
    {'name': 'harmonic preset also sets a rotational model', 'expect': ('REF.record', 'set_statmech_model'),
     'edits': [('pmutt/statmech/__init__.py', "    'harmonic': {\n        'model': StatMech,\n        'vib_model': vib.HarmonicVib,", "    'harmonic': {\n        'model': StatMech,\n        'rot_model': rot.RigidRotor,\n        'vib_model': vib.HarmonicVib,")]},
    {'name': 'vib_wavenumber headers matched with a pattern that allows one digit after the dot',
     'expect': ('REF.record', 'read_excel'),
     'edits': [(X_, "import os\n", "import os\nimport re\n"),
               (X_, "def read_excel(io,", "_VIB_WAVENUMBER_COL = re.compile(r'vib_wavenumber(\\.\\d)?$')\n\n\ndef read_excel(io,"),
               (X_, "            elif 'vib_wavenumber' in col:", "            elif _VIB_WAVENUMBER_COL.match(col):")]},
    {'name': 'rot_temperature headers accepted up to suffix .9 only', 'expect': ('REF.record', 'read_excel'),
     'edits': [(X_, "            elif 'rot_temperature' in col:", "            elif col in ('rot_temperature',) + tuple('rot_temperature.%d' % i for i in range(1, 10)):")]},
    {'name': 'vib_model cell does not overwrite what the preset has set', 'expect': ('REF.record', 'set_vib_model'),
     'edits': [(X_, "        output_structure['vib_model'] = getattr(vib, model)\n    except AttributeError:", "        output_structure.setdefault('vib_model', getattr(vib, model))\n    except AttributeError:")]},
    {'name': 'nucl_model cell does not overwrite what the preset has set', 'expect': ('REF.record', 'set_nucl_model'),
     'edits': [(X_, "        output_structure['nucl_model'] = getattr(nucl, model)\n    except AttributeError:", "        output_structure.setdefault('nucl_model', getattr(nucl, model))\n    except AttributeError:")]},
    {'name': 'integer-typed wavenumbers dropped', 'expect': ('REF.record', 'read_excel'),
     'edits': [(X_, "    try:\n        output_structure['vib_wavenumbers'].append(value)", "    if not isinstance(value, float):\n        return\n    try:\n        output_structure['vib_wavenumbers'].append(value)")]},
    {'name': 'integer-typed rotational temperatures dropped', 'expect': ('REF.record', ''),
     'edits': [(X_, "    try:\n        output_structure['rot_temperatures'].append(value)", "    if not isinstance(value, float):\n        return\n    try:\n        output_structure['rot_temperatures'].append(value)")]},
    {'name': 'integer-typed element counts dropped', 'expect': ('REF.record', ''),
     'edits': [(X_, "    element = header.split(delimiter)[-1]\n", "    element = header.split(delimiter)[-1]\n    if not isinstance(value, float):\n        return\n")]},
    {'name': 'parsed tables cached under a key without the sheet name', 'expect': ('REF.rows', 'read_excel'),
     'edits': [(X_, "def read_excel(io,", "_parsed_tables = {}\n\n\ndef read_excel(io,"),
               (X_, "    input_data = pd.read_excel(io=io,\n                               skiprows=skiprows,\n                               header=header,\n                               **kwargs)\n",
                    "    cache_key = (io, header, tuple(skiprows) if skiprows else ())\n    try:\n        input_data = _parsed_tables[cache_key]\n    except KeyError:\n        input_data = pd.read_excel(io=io, skiprows=skiprows, header=header, **kwargs)\n        _parsed_tables[cache_key] = input_data\n")]},
    {'name': 'parsed tables cached per workbook and sheet (rows to skip and header row forgotten)',
     'expect': ('FWD.pandas', 'read_excel'),
     'edits': [(X_, "def read_excel(io,", "_parsed_tables = {}\n\n\ndef read_excel(io,"),
               (X_, "    input_data = pd.read_excel(io=io,\n                               skiprows=skiprows,\n                               header=header,\n                               **kwargs)\n",
                    "    cache_key = '{}|{}'.format(io, kwargs.get('sheet_name', 0))\n    try:\n        input_data = _parsed_tables[cache_key]\n    except KeyError:\n        input_data = pd.read_excel(io=io, skiprows=skiprows, header=header, **kwargs)\n        _parsed_tables[cache_key] = input_data\n")]},
    {'name': 'list number removed whenever the header ends in a digit', 'expect': ('REF.record', 'read_excel'),
     'edits': [(X_, "                if '.' in header:\n                    i = header.rfind('.')", "                if header[-1].isdigit():\n                    i = header.rfind('.')")]},
    {'name': 'placeholder texts treated as empty cells', 'expect': ('REF.record', 'read_excel'),
     'edits': [(X_, "            if pd.isnull(cell_data):\n", "            if pd.isnull(cell_data) or cell_data in ('', '-', 'n/a'):\n")]},
    {'name': 'sheet_name swallowed by an explicit parameter', 'expect': ('FWD.pandas', 'read_excel'),
     'edits': [(X_, "               include_imaginary=False,\n               **kwargs):", "               include_imaginary=False,\n               sheet_name=0,\n               **kwargs):")]},
    # white-box review round 3
    {'name': 'empty cells recognised with `is None` (pandas hands an empty cell over as NaN)',
     'expect': ('REF.record', 'read_excel'),
     'edits': [(X_, "            if pd.isnull(cell_data):\n", "            if cell_data is None:\n")]},
    {'name': 'the filled cells of a row are a filter object that is looked at twice', 'expect': ('REF.record', 'read_excel'),
     'edits': [(X_, "        for col, cell_data in row_data.items():\n",
                    "        cells = filter(lambda cell: not pd.isnull(cell[1]), row_data.items())\n        if not any(cells):\n            warnings.warn('Row {} of {} does not contain any data.'.format(row, io))\n        for col, cell_data in cells:\n")]},
    {'name': 'row_data.items() kept and consumed twice', 'expect': ('REF.record', 'read_excel'),
     'edits': [(X_, "        for col, cell_data in row_data.items():\n",
                    "        cells = row_data.items()\n        if all(pd.isnull(cell_data) for _, cell_data in cells):\n            warnings.warn('Row {} of {} does not contain any data.'.format(row, io))\n        for col, cell_data in cells:\n")]},
    {'name': 'wavenumbers de-duplicated with dict.fromkeys (degenerate modes dropped)', 'expect': ('REF.record', 'read_excel'),
     'edits': [(X_, "        thermos_out.append(thermo_data)\n", "        if 'vib_wavenumbers' in thermo_data:\n            thermo_data['vib_wavenumbers'] = list(dict.fromkeys(thermo_data['vib_wavenumbers']))\n        thermos_out.append(thermo_data)\n")]},
    {'name': 'list fields de-duplicated on append (same site twice dropped)', 'expect': ('REF.record', 'read_excel'),
     'edits': [(X_, "        thermos_out.append(thermo_data)\n", "        if 'sites' in thermo_data:\n            thermo_data['sites'] = list(dict.fromkeys(thermo_data['sites']))\n        thermos_out.append(thermo_data)\n")]},
    {'name': 'rows whose name cell is empty give no record', 'expect': ('REF.rows', 'read_excel'),
     'edits': [(X_, "        thermo_data = {}\n        vib_set_by_outcar = False\n", "        if 'name' in row_data and pd.isnull(row_data['name']):\n            continue\n        thermo_data = {}\n        vib_set_by_outcar = False\n")]},
    {'name': 'rows that hold nothing but a name give no record', 'expect': ('REF.rows', 'read_excel'),
     'edits': [(X_, "        thermos_out.append(thermo_data)\n", "        if list(thermo_data) == ['name']:\n            continue\n        thermos_out.append(thermo_data)\n")]},
    {'name': 'ordinary column phase upper-cased', 'expect': ('REF.record', 'read_excel'),
     'edits': [(X_, "            else:\n                thermo_data[col] = cell_data\n", "            else:\n                if col == 'phase' and isinstance(cell_data, str):\n                    cell_data = cell_data.upper()\n                thermo_data[col] = cell_data\n")]},
    {'name': 'ordinary column notes lower-cased', 'expect': ('REF.record', 'read_excel'),
     'edits': [(X_, "            else:\n                thermo_data[col] = cell_data\n", "            else:\n                if col == 'notes':\n                    cell_data = cell_data.lower()\n                thermo_data[col] = cell_data\n")]},
    {'name': 'headers lower-cased', 'expect': ('REF.record', 'read_excel'),
     'edits': [(X_, "                col = col.strip()\n", "                col = col.strip().lower()\n")]},
]
# behaviour-preserving rewrites (white-box review round 2, part B, reduced to their essential edits)
EQUIV = [
    {'name': 'sheet_name as explicit keyword-only parameter with the default of pandas, handed on',
     'edits': [(X_, "               include_imaginary=False,\n               **kwargs):", "               include_imaginary=False,\n               *,\n               sheet_name=0,\n               **kwargs):"),
               (X_, "                               header=header,\n                               **kwargs)", "                               header=header,\n                               sheet_name=sheet_name,\n                               **kwargs)")]},
    {'name': 'empty cells removed with Series.dropna() instead of the per-cell null test',
     'edits': [(X_, "        for col, cell_data in row_data.items():", "        for col, cell_data in row_data.dropna().items():"),
               (X_, "            if pd.isnull(cell_data):\n                # Skip empty cells\n                continue\n            elif 'Unnamed' in col:", "            if 'Unnamed' in col:")]},
    {'name': 'pd.isna, the documented alias of pd.isnull', 'edits': [(X_, "            if pd.isnull(cell_data):", "            if pd.isna(cell_data):")]},
    {'name': 'an empty table returns early', 'edits': [(X_, "    thermos_out = []\n", "    thermos_out = []\n    if input_data.empty or len(input_data) == 0:\n        return thermos_out\n")]},
    {'name': 'rows taken from DataFrame.to_dict("records")',
     'edits': [(X_, "    for row, row_data in input_data.iterrows():\n", "    for row_data in input_data.to_dict('records'):\n")]},
    {'name': 'electronic preset written as a dict(...) call',
     'edits': [('pmutt/statmech/__init__.py', "    'electronic': {\n        'model': StatMech,\n        'elec_model': elec.GroundStateElec,\n        'required': ('potentialenergy', 'spin'),\n    },", "    'electronic': dict(model=StatMech, elec_model=elec.GroundStateElec, required=('potentialenergy', 'spin')),")]},
    # white-box review round 3, part B
    {'name': 'headers trimmed once, taken from DataFrame.columns.tolist(), cells from Series.tolist()',
     'edits': [(X_, "    thermos_out = []\n", "    thermos_out = []\n    headers = [col.strip() if isinstance(col, str) else col for col in input_data.columns.tolist()]\n"),
               (X_, "        for col, cell_data in row_data.items():\n", "        for col, cell_data in zip(headers, row_data.tolist()):\n"),
               (X_, "            if isinstance(col, str):\n                col = col.strip()\n", "")]},
    {'name': 'nucl model setter made by a factory (a closure bound to the public name)',
     'edits': [(X_, "def set_nucl_model(model, output_structure):", "def _model_setter(key, module, err_template):\n    def setter(model, output_structure):\n        try:\n            output_structure[key] = getattr(module, model)\n        except AttributeError:\n            if model.lower() == 'emptymode':\n                output_structure[key] = EmptyMode\n            else:\n                raise ValueError(err_template.format(model))\n        output_structure['model'] = StatMech\n    return setter\n\n\nset_nucl_model = _model_setter('nucl_model', nucl, 'Unsupported nuclear model, {}. See pmutt.statmech.nucl for supported models.')\n\n\ndef _set_nucl_model_old(model, output_structure):")]},
    {'name': 'directory of the workbook from os.path.split',
     'edits': [(X_, "    excel_path = os.path.dirname(io)\n", "    excel_path, _ = os.path.split(io)\n")]},
    {'name': 'cells of a row collected in a list before the loop',
     'edits': [(X_, "        for col, cell_data in row_data.items():\n", "        cells = list(row_data.items())\n        if not cells:\n            continue\n        for col, cell_data in cells:\n")]},
]
