"""C15 - the spreadsheet reader maps rows and special columns as documented."""
from fractions import Fraction as Fr

from ..nf import Rat, C
from ..source import Unsupported, AnchorError, ClassInfo
from ..xlate import Interp, Obj, ListV, DictV, Raised
from .common import same, show

XL = 'pmutt.io.excel'
NAN = None      # an empty cell


def sheet(I, rows):
    """mock of the DataFrame pandas returns: rows = list of [(header, cell), ...]"""
    df = Obj('df', closed=True)

    def iterrows(I_, o, a, k):
        out = []
        for ri, cells in enumerate(rows):
            row = Obj('row%d' % ri, closed=True)
            row.opaque_methods['items'] = (lambda I2, o2, a2, k2, cells=cells:
                                           ListV([ListV([h, v]) for h, v in cells]))
            out.append(ListV([C(ri), row]))
        return ListV(out)
    df.opaque_methods['iterrows'] = iterrows
    return df


def run_reader(repo, rows):
    m = repo.module(XL)
    fn = m.functions.get('read_excel')
    if fn is None:
        raise AnchorError(XL + '.read_excel not found')
    I = Interp(repo)
    I.native['pandas.read_excel'] = lambda I_, fr, a, k, n: sheet(I_, rows)
    I.native['pandas.isnull'] = lambda I_, fr, a, k, n: a[0] is None
    I.native['os.path.dirname'] = lambda I_, fr, a, k, n: '/dir'
    out = I.call_function(m, fn, [], {'io': '/dir/book.xlsx'})
    return I, out, m, fn


def val_same(a, b):
    if isinstance(a, Rat) and isinstance(b, Rat):
        return a.eq(b)
    if isinstance(a, ListV) and isinstance(b, (ListV, list)):
        bi = b.items if isinstance(b, ListV) else b
        return len(a) == len(bi) and all(val_same(x, y) for x, y in zip(a.items, bi))
    if isinstance(a, DictV) and isinstance(b, (DictV, dict)):
        bd = b.d if isinstance(b, DictV) else b
        return set(a.d) == set(bd) and all(val_same(a.d[k], bd[k]) for k in bd)
    if isinstance(a, ClassInfo) or isinstance(b, ClassInfo):
        return a is b
    if isinstance(a, (Rat, ListV, DictV)) or isinstance(b, (Rat, ListV, DictV)):
        return False
    return a == b


def expect_record(run, m, fn, I, rec, want, label, setter=None):
    ok = isinstance(rec, DictV)
    why = ''
    if ok:
        if set(rec.d) != set(want):
            ok = False
            why = 'keys %s, expected %s' % (sorted(map(str, rec.d)), sorted(want))
        else:
            for k in want:
                if not val_same(rec.d[k], want[k]):
                    ok = False
                    why = 'record[%r] is %s, expected %s' % (k, show(rec.d[k], 100), show(want[k], 100))
                    break
    node = m.functions.get(setter) if setter else fn
    run.check(ok, 'REF.record', 'excel.' + (setter or 'read_excel'), label,
              '[%s] %s' % (label, why or 'record is %s' % show(rec, 120)), m, node or fn,
              sample='[%s] -> keys %s' % (label, sorted(want)))


def check(run, repo):
    run.explanation = (
        'read_excel and every special-column setter are interpreted abstractly on a mock of the DataFrame pandas '
        'returns: headers are the documented header strings (with surrounding blanks, pandas-style duplicate '
        'suffixes), cells are symbolic values, model names or empty (NaN). For each sheet the list of records is '
        'compared with the documented mapping: one record per row in row order, ordinary columns under their trimmed '
        'header, element.X / formula -> composition dictionary, repeated vib_wavenumber / rot_temperature -> ordered '
        'lists, list.name(.i) and dict.name.key, nasa.a_low.i / a_high.i -> 7-slot arrays, statmech_model presets '
        '(the attributes the documentation lists per preset - the rule carries its own copy of that table -, unless '
        'the row set the key), every documented per-mode model name resolved in the module of its mode with the '
        'EmptyMode fallback; empty cells never appear and nothing leaks from one row into another (rows with disjoint '
        'column subsets, rows that share a name or every cell, two rows using the same preset).')
    run.assumptions = ['pandas.read_excel is mocked: iterrows()/items() yield (header, cell) pairs in column order; '
                       'pandas.isnull is true exactly for empty cells']
    run.undecided = ['pandas behaviour itself (duplicate-header mangling, NaN detection, dtype guessing)',
                     'atoms / vib_outcar columns (ASE and VASP file readers)']
    m = repo.module(XL)
    for f_ in ('read_excel', 'set_element', 'set_formula', 'set_statmech_model', 'set_trans_model', 'set_vib_model',
               'set_rot_model', 'set_elec_model', 'set_nucl_model', 'set_vib_wavenumbers', 'set_rot_temperatures',
               'set_nasa_a_low', 'set_nasa_a_high', 'set_list_value', 'set_dict_value'):
        if f_ not in m.functions:
            raise AnchorError('%s.%s not found' % (XL, f_))
        run.fn('%s.%s' % (XL, f_))
    sm = repo.module('pmutt.statmech')
    SM = sm.classes.get('StatMech')
    EM = sm.classes.get('EmptyMode')

    def a(name):
        return Rat.atom(name)
    zeros = lambda: [C(0)] * 7

    def arr7(**kw):
        v = zeros()
        for k, x in kw.items():
            v[int(k[1:])] = x
        return v
    # --- what pandas is asked to read: the rows the caller wants skipped (the comment row by default, none when
    #     the sheet has no comment row), the header row, the workbook and every pandas option are passed on as given
    for label, given in (('default', {}), ('no comment row: skiprows=[]', {'skiprows': ListV([])}),
                         ('no comment row: skiprows=None', {'skiprows': None}),
                         ('skiprows=[1, 2]', {'skiprows': ListV([C(1), C(2)])}),
                         ('header=2', {'header': C(2)}), ('sheet_name', {'sheet_name': 'Sheet7'})):
        I = Interp(repo)
        seen = {}

        def reader(I_, fr, a_, k_, n_, seen=seen):
            seen['args'], seen['kwargs'] = list(a_), dict(k_)
            return sheet(I_, [])
        I.native['pandas.read_excel'] = reader
        I.native['pandas.isnull'] = lambda I_, fr, a_, k_, n_: a_[0] is None
        I.native['os.path.dirname'] = lambda I_, fr, a_, k_, n_: '/dir'
        fn = m.functions['read_excel']
        I.call_function(m, fn, [], dict({'io': '/dir/book.xlsx'}, **given))
        kw = dict(seen.get('kwargs', {}))
        if seen.get('args'):
            kw.setdefault('io', seen['args'][0])
        want = {'io': '/dir/book.xlsx', 'skiprows': ListV([C(1)]), 'header': C(0)}
        want.update(given)
        ok = set(kw) == set(want) and all(val_same(kw[k], want[k]) if isinstance(want[k], (Rat, ListV)) else
                                          kw[k] == want[k] for k in want)
        run.check(ok, 'FWD.pandas', 'excel.read_excel', label,
                  '[%s] pandas.read_excel is called with %s, expected %s: the rows to skip (second row reserved for '
                  'comments unless the caller says otherwise), the header row and the pandas options must be passed '
                  'on as given' % (label, {k: show(v, 40) for k, v in sorted(kw.items())},
                                   {k: show(v, 40) for k, v in sorted(want.items())}), m, fn,
                  sample='[%s] forwarded to pandas: %s' % (label, sorted(want)))
    # --- sheet 1: ordinary + composition + lists, three rows with different subsets and empty cells ------------
    rows = [
        [(' name ', '  H2O '), ('element.H', a('nH')), ('element.O ', a('nO')), ('vib_wavenumber', a('w1')),
         ('vib_wavenumber.1', a('w2')), ('vib_wavenumber.2', NAN), (' rot_temperature', a('t1')),
         (' potentialenergy  ', a('E1')), ('phase', NAN), ('list.sites', a('s1')), ('list.sites.1', a('s2')),
         ('dict.misc.alpha', a('d1')), ('  dict.misc.beta ', a('d2'))],
        [(' name ', 'CO'), ('element.H', NAN), ('element.O ', a('mO')), ('vib_wavenumber', NAN),
         ('vib_wavenumber.1', NAN), ('vib_wavenumber.2', a('w3')), (' rot_temperature', NAN),
         (' potentialenergy  ', NAN), ('phase', ' G '), ('list.sites', NAN), ('list.sites.1', NAN),
         ('dict.misc.alpha', NAN), ('  dict.misc.beta ', a('d3'))],
        [(' name ', NAN), ('element.H', NAN), ('element.O ', NAN), ('vib_wavenumber', NAN),
         ('vib_wavenumber.1', NAN), ('vib_wavenumber.2', NAN), (' rot_temperature', NAN),
         (' potentialenergy  ', NAN), ('phase', NAN), ('list.sites', NAN), ('list.sites.1', NAN),
         ('dict.misc.alpha', NAN), ('  dict.misc.beta ', NAN)],
    ]
    I, out, m, fn = run_reader(repo, rows)
    ok = isinstance(out, ListV) and len(out) == 3
    run.check(ok, 'REF.rows', 'excel.read_excel', 'one record per row',
              'three data rows must give three records in row order, got %s' % show(out, 120), m, fn)
    if ok:
        expect_record(run, m, fn, I, out.items[0],
                      {'name': 'H2O', 'elements': {'H': a('nH'), 'O': a('nO')}, 'vib_wavenumbers': [a('w1'), a('w2')],
                       'rot_temperatures': [a('t1')], 'potentialenergy': a('E1'), 'sites': [a('s1'), a('s2')],
                       'misc': {'alpha': a('d1'), 'beta': a('d2')}}, 'row 1: full row')
        expect_record(run, m, fn, I, out.items[1],
                      {'name': 'CO', 'elements': {'O': a('mO')}, 'vib_wavenumbers': [a('w3')], 'phase': 'G',
                       'misc': {'beta': a('d3')}}, 'row 2: other subset (nothing leaks from row 1)')
        expect_record(run, m, fn, I, out.items[2], {}, 'row 3: all cells empty')
    # --- sheet 1b: repeated rot_temperature columns (pandas suffixes .1, .2) interleaved with repeated vib_wavenumber
    #     columns: both lists keep the column order, an empty cell in the middle is left out ------------------------
    rows = [
        [('name', 'H2O'), ('rot_temperature', a('ta')), ('vib_wavenumber', a('wa')), (' rot_temperature.1 ', a('tb')),
         ('vib_wavenumber.1', a('wb')), ('rot_temperature.2', a('tc')), ('vib_wavenumber.2', a('wc'))],
        [('name', 'CO2'), ('rot_temperature', a('td')), ('vib_wavenumber', NAN), (' rot_temperature.1 ', NAN),
         ('vib_wavenumber.1', a('wd')), ('rot_temperature.2', a('te')), ('vib_wavenumber.2', a('we'))],
    ]
    I, out, m, fn = run_reader(repo, rows)
    if isinstance(out, ListV) and len(out) == 2:
        expect_record(run, m, fn, I, out.items[0],
                      {'name': 'H2O', 'rot_temperatures': [a('ta'), a('tb'), a('tc')],
                       'vib_wavenumbers': [a('wa'), a('wb'), a('wc')]},
                      'three rot_temperature columns: list in column order', 'set_rot_temperatures')
        expect_record(run, m, fn, I, out.items[1],
                      {'name': 'CO2', 'rot_temperatures': [a('td'), a('te')], 'vib_wavenumbers': [a('wd'), a('we')]},
                      'three rot_temperature columns, middle cell empty', 'set_rot_temperatures')
    else:
        run.fail('REF.rows', 'excel.read_excel', 'sheet 1b', 'unexpected result %s' % show(out, 120), m, fn)
    # --- sheet 1c: cells are arbitrary, so rows may agree in their name (or in every cell): still one record per row
    rows = [
        [('name', 'H2O'), ('phase', 'G'), ('potentialenergy', a('Ea'))],
        [('name', 'H2O'), ('phase', 'L'), ('potentialenergy', a('Eb'))],
        [('name', 'CO'), ('phase', 'G'), ('potentialenergy', a('Ec'))],
        [('name', 'H2O'), ('phase', 'G'), ('potentialenergy', a('Ea'))],
    ]
    I, out, m, fn = run_reader(repo, rows)
    ok = isinstance(out, ListV) and len(out) == 4
    run.check(ok, 'REF.rows', 'excel.read_excel', 'rows sharing a name',
              'four data rows, three of them named H2O (two identical in every cell), must give four records in row '
              'order, got %s' % show(out, 160), m, fn)
    if ok:
        for rec, (nm, ph, e_), lab in zip(out.items, (('H2O', 'G', 'Ea'), ('H2O', 'L', 'Eb'), ('CO', 'G', 'Ec'),
                                                      ('H2O', 'G', 'Ea')),
                                          ('first', 'second (same name)', 'third', 'fourth (identical to the first)')):
            expect_record(run, m, fn, I, rec, {'name': nm, 'phase': ph, 'potentialenergy': a(e_)},
                          'rows sharing a name: ' + lab)
    # --- sheet 2: formula, NASA coefficients ---------------------------------------------------------------------
    rows = [
        [('name', 'CH3OH'), ('formula', 'CH3OH'), ('nasa.a_low.0', a('l0')), ('nasa.a_low.6', a('l6')),
         ('nasa.a_high.3', a('h3')), ('T_low', a('Tl'))],
        [('name', 'Al2O3'), ('formula', 'Al2O3'), ('nasa.a_low.0', NAN), ('nasa.a_low.6', NAN),
         ('nasa.a_high.3', NAN), ('T_low', a('Tl2'))],
    ]
    I, out, m, fn = run_reader(repo, rows)
    if isinstance(out, ListV) and len(out) == 2:
        expect_record(run, m, fn, I, out.items[0],
                      {'name': 'CH3OH', 'elements': {'C': C(1), 'H': C(4), 'O': C(1)},
                       'a_low': arr7(i0=a('l0'), i6=a('l6')), 'a_high': arr7(i3=a('h3')), 'T_low': a('Tl')},
                      'formula + NASA coefficient columns')
        expect_record(run, m, fn, I, out.items[1],
                      {'name': 'Al2O3', 'elements': {'Al': C(2), 'O': C(3)}, 'T_low': a('Tl2')},
                      'formula only (no NASA arrays leak from the previous row)')
    else:
        run.fail('REF.rows', 'excel.read_excel', 'sheet 2', 'unexpected result %s' % show(out, 120), m, fn)
    # --- sheet 2b: rows that share one formula and add their own element.X cells: each row owns its composition ----
    rows = [
        [('name', 'H2O(S)'), ('formula', 'H2O'), ('element.Pt', a('nPt'))],
        [('name', 'H2O'), ('formula', 'H2O'), ('element.Pt', NAN)],
        [('name', 'H2O(T)'), ('formula', 'H2O'), ('element.Pt', a('mPt'))],
    ]
    I, out, m, fn = run_reader(repo, rows)
    if isinstance(out, ListV) and len(out) == 3:
        for rec, nm, extra, lab in zip(out.items, ('H2O(S)', 'H2O', 'H2O(T)'), ({'Pt': a('nPt')}, {}, {'Pt': a('mPt')}),
                                      ('first row', 'second row, element cell empty', 'third row')):
            expect_record(run, m, fn, I, rec, {'name': nm, 'elements': dict({'H': C(2), 'O': C(1)}, **extra)},
                          'same formula in several rows + element.X: ' + lab)
    else:
        run.fail('REF.rows', 'excel.read_excel', 'sheet 2b', 'unexpected result %s' % show(out, 120), m, fn)
    # --- sheet 3: model presets and per-mode models ----------------------------------------------------------------
    I0 = Interp(repo)
    from ..xlate import Frame
    presets = Frame(I0, sm, {}, None, None).ev(__import__('ast').parse('presets', mode='eval').body)
    preset_names = []
    if hasattr(presets, 'node'):
        preset_names = [k.value for k in presets.node.keys]
    run.floor('presets', len(preset_names), 5)
    # the rule's own copy of the documented table (docs/source/api/statmech/statmech.rst, "Presets": the attributes
    # each preset sets); the 'required' / 'optional' reminders are not part of that table and are taken from the
    # table of a FRESH interpreter (never from the one that has just read rows)
    S_ = 'pmutt.statmech'
    doc_presets = {
        'idealgas': {'trans_model': (S_ + '.trans', 'FreeTrans'), 'n_degrees': C(3),
                     'vib_model': (S_ + '.vib', 'HarmonicVib'), 'elec_model': (S_ + '.elec', 'GroundStateElec'),
                     'rot_model': (S_ + '.rot', 'RigidRotor')},
        'harmonic': {'vib_model': (S_ + '.vib', 'HarmonicVib'), 'elec_model': (S_ + '.elec', 'GroundStateElec')},
        'electronic': {'elec_model': (S_ + '.elec', 'GroundStateElec')},
        'placeholder': {'trans_model': (S_, 'EmptyMode'), 'vib_model': (S_, 'EmptyMode'),
                        'rot_model': (S_, 'EmptyMode'), 'elec_model': (S_, 'EmptyMode'),
                        'nucl_model': (S_, 'EmptyMode')},
        'constant': {'elec_model': (S_, 'ConstantMode')},
    }

    def documented(pname):
        out_ = {}
        for k, v in doc_presets[pname].items():
            if isinstance(v, tuple):
                cls_ = repo.module(v[0]).classes.get(v[1])
                if cls_ is None:
                    raise AnchorError('%s.%s not found' % v)
                v = cls_
            out_[k] = v
        return out_

    def is_set_attribute(k):
        return k.endswith('_model') or k == 'n_degrees'
    for pname in doc_presets:
        run.check(pname in preset_names, 'TABLE.preset-class', 'statmech.presets', pname,
                  'the documented preset %r is missing from the presets table' % pname, sm, presets.node)
    for pname in preset_names:
        fresh = Frame(I0, sm, {}, None, None).ev(__import__('ast').parse('presets[%r]' % pname, mode='eval').body)
        doc = documented(pname) if pname in doc_presets else None
        # what the preset contributes to a record: documented attributes + the reminders of the fresh table
        contrib = {}
        for k, v in fresh.d.items():
            if doc is None or not (is_set_attribute(k) or k == 'model'):
                contrib[k] = v
        if doc is not None:
            contrib.update(doc)
        contrib['model'] = SM
        # two rows with the same preset: the first fills a column left of statmech_model (symmetrynumber) and one
        # right of it that the preset may also set (n_degrees); the second leaves both empty
        rows = [[('symmetrynumber', a('sy')), ('statmech_model', ' %s ' % pname.upper() if pname == 'idealgas' else pname),
                 ('n_degrees', a('nd')), ('potentialenergy', a('E1'))],
                [('symmetrynumber', NAN), ('statmech_model', pname), ('n_degrees', NAN),
                 ('potentialenergy', a('E2'))]]
        I, out, m, fn = run_reader(repo, rows)
        want1 = dict(contrib, symmetrynumber=a('sy'), n_degrees=a('nd'), potentialenergy=a('E1'))
        want2 = dict(contrib, potentialenergy=a('E2'))
        if isinstance(out, ListV) and len(out) == 2:
            expect_record(run, m, fn, I, out.items[0], want1, 'statmech_model=%s' % pname, 'set_statmech_model')
            expect_record(run, m, fn, I, out.items[1], want2,
                          'statmech_model=%s, second row with the same preset (nothing of the first row in it)' % pname,
                          'set_statmech_model')
        else:
            run.fail('REF.record', 'excel.set_statmech_model', 'statmech_model=%s' % pname,
                     'unexpected result %s' % show(out, 120), m, m.functions['set_statmech_model'])
        # the table itself: a documented preset sets exactly the documented attributes to the documented classes;
        # a preset the documentation does not list must at least name classes of the module of their mode
        if doc is not None:
            got = {k: v for k, v in fresh.d.items() if is_set_attribute(k)}
            okm = set(got) == set(doc) and all(val_same(got[k], doc[k]) for k in doc)
            run.check(okm, 'TABLE.preset-class', 'statmech.presets', '%s: documented attributes' % pname,
                      'preset %s sets %s, the documentation says %s' % (
                          pname, {k: show(v, 40) for k, v in sorted(got.items())},
                          {k: show(v, 40) for k, v in sorted(doc.items())}), sm, presets.node)
        else:
            for k, v in fresh.d.items():
                if k.endswith('_model'):
                    mode = k.split('_')[0]
                    modname = 'pmutt.statmech.' + mode
                    okm = isinstance(v, ClassInfo) and (v.module.name in (modname, 'pmutt.statmech', 'pmutt.statmech.lsr'))
                    run.check(okm, 'TABLE.preset-class', 'statmech.presets', '%s.%s' % (pname, k),
                              'preset %s names %s for %s, which is not a class of that mode\'s module'
                              % (pname, show(v), k), sm, presets.node)
    r = run_reader(repo, [[('statmech_model', 'no such preset')]])
    run.check(isinstance(r[1], Raised) and r[1].exc == 'ValueError', 'PATH.unknown-preset', 'excel.set_statmech_model',
              'unknown preset', 'an unknown preset must raise ValueError (got %s)' % show(r[1]), m,
              m.functions['set_statmech_model'])
    # every model class the API documentation lists per mode (docs/source/api/statmech/<mode>/), not a sample
    modes = (('trans', 'FreeTrans', 'pmutt.statmech.trans'), ('vib', 'HarmonicVib', 'pmutt.statmech.vib'),
             ('vib', 'QRRHOVib', 'pmutt.statmech.vib'), ('vib', 'EinsteinVib', 'pmutt.statmech.vib'),
             ('vib', 'DebyeVib', 'pmutt.statmech.vib'), ('rot', 'RigidRotor', 'pmutt.statmech.rot'),
             ('elec', 'GroundStateElec', 'pmutt.statmech.elec'), ('elec', 'LSR', 'pmutt.statmech.lsr'),
             ('elec', 'ExtendedLSR', 'pmutt.statmech.lsr'), ('nucl', 'EmptyNucl', 'pmutt.statmech.nucl'))
    for mode, cname, modname in modes:
        want_cls = repo.module(modname).classes.get(cname)
        if want_cls is None:
            raise AnchorError('%s.%s not found' % (modname, cname))
        for cell, wc in ((cname, want_cls), ('EmptyMode', EM), ('emptymode', EM)):
            I, out, m, fn = run_reader(repo, [[('%s_model' % mode, cell)]])
            setter = 'set_%s_model' % mode
            label = '%s_model=%s' % (mode, cell)
            if isinstance(out, ListV) and len(out) == 1:
                expect_record(run, m, fn, I, out.items[0], {'%s_model' % mode: wc, 'model': SM}, label, setter)
            else:
                run.fail('REF.record', 'excel.' + setter, label if cell == cname else label,
                         'a documented %s model name is not resolved in the module of its mode: %s'
                         % (mode, show(out, 100)), m, m.functions[setter])
        I, out, m, fn = run_reader(repo, [[('%s_model' % mode, 'NoSuchModel')]])
        run.check(isinstance(out, Raised) and out.exc == 'ValueError', 'PATH.unknown-model', 'excel.set_%s_model' % mode,
                  'unknown name', 'an unknown %s model name must raise ValueError (got %s)' % (mode, show(out, 60)), m,
                  m.functions['set_%s_model' % mode])
    # the row's own value wins over the preset, whatever the column order
    for order in (0, 1):
        cells = [('statmech_model', 'idealgas'), ('vib_model', 'QRRHOVib')]
        if order:
            cells.reverse()
        I, out, m, fn = run_reader(repo, [cells])
        want_cls = repo.module('pmutt.statmech.vib').classes['QRRHOVib']
        got = out.items[0].d.get('vib_model') if isinstance(out, ListV) and len(out) == 1 else None
        run.check(got is want_cls or order == 0, 'REF.record', 'excel.set_statmech_model',
                  'explicit model before preset',
                  'a vib_model cell placed before statmech_model is overwritten by the preset (got %s)' % show(got), m,
                  m.functions['set_statmech_model'])


X_ = 'pmutt/io/excel.py'
MUTANTS = [
    {'name': 'row cells stored in the presets table', 'expect': ('REF.record', 'set_statmech_model'),
     'edits': [(X_, "        for key, val in presets[model].items():\n            if key not in output_structure:\n                output_structure[key] = val",
                    "        preset = presets[model]\n        preset.update(output_structure)\n        output_structure.update(preset)")]},
    {'name': 'record created outside the row loop', 'expect': ('REF', 'read_excel'),
     'edits': [(X_, "    for row, row_data in input_data.iterrows():\n        thermo_data = {}\n", "    thermo_data = {}\n    for row, row_data in input_data.iterrows():\n")]},
    {'name': 'empty cells stored', 'expect': ('REF.record', 'read_excel'),
     'edits': [(X_, "            if pd.isnull(cell_data):\n                # Skip empty cells\n                continue\n            elif 'Unnamed' in col:", "            if 'Unnamed' in col:")]},
    {'name': 'vib wavenumbers prepended', 'expect': ('REF.record', ''),
     'edits': [(X_, "        output_structure['vib_wavenumbers'].append(value)", "        output_structure['vib_wavenumbers'].insert(0, value)")]},
    {'name': 'a_high written into a_low', 'expect': ('REF.record', ''),
     'edits': [(X_, "        output_structure['a_high'][i] = value\n    except KeyError:", "        output_structure['a_low'][i] = value\n    except KeyError:")]},
    {'name': 'preset overwrites row values', 'expect': ('REF.record', 'set_statmech_model'),
     'edits': [(X_, "            if key not in output_structure:\n                output_structure[key] = val", "            output_structure[key] = val")]},
    {'name': 'header not trimmed', 'expect': ('REF.record', 'read_excel'),
     'edits': [(X_, "            if isinstance(col, str):\n                col = col.strip()", "            if isinstance(col, str):\n                col = col")]},
    {'name': 'rot temperatures prepended', 'expect': ('REF.record', 'set_rot_temperatures'),
     'edits': [(X_, "        output_structure['rot_temperatures'].append(value)", "        output_structure['rot_temperatures'] = [value] + output_structure['rot_temperatures']")]},
    {'name': 'vib models looked up in a table that forgets DebyeVib', 'expect': ('REF.record', 'set_vib_model'),
     'edits': [(X_, "        output_structure['vib_model'] = getattr(vib, model)\n    except AttributeError:", "        output_structure['vib_model'] = {'HarmonicVib': vib.HarmonicVib, 'QRRHOVib': vib.QRRHOVib, 'EinsteinVib': vib.EinsteinVib}[model]\n    except KeyError:")]},
    {'name': 'elec models no longer looked up in the lsr module', 'expect': ('REF.record', 'set_elec_model'),
     'edits': [(X_, "            output_structure['elec_model'] = getattr(lsr, model)", "            output_structure['elec_model'] = {'LSR': lsr.LSR}[model]\n        except KeyError:\n            raise ValueError(model)")]},
    {'name': 'rows with a name seen before are dropped', 'expect': ('REF.rows', 'read_excel'),
     'edits': [(X_, "    thermos_out = []\n", "    thermos_out = []\n    names_found = set()\n"),
               (X_, "        thermos_out.append(thermo_data)\n", "        name = thermo_data.get('name')\n        if name is not None:\n            if name in names_found:\n                continue\n            names_found.add(name)\n        thermos_out.append(thermo_data)\n")]},
    {'name': 'harmonic preset names QRRHOVib', 'expect': ('TABLE.preset-class', 'presets'),
     'edits': [('pmutt/statmech/__init__.py', "    'harmonic': {\n        'model': StatMech,\n        'vib_model': vib.HarmonicVib,", "    'harmonic': {\n        'model': StatMech,\n        'vib_model': vib.QRRHOVib,")]},
    {'name': 'harmonic preset also sets a rotational model', 'expect': ('REF.record', 'set_statmech_model'),
     'edits': [('pmutt/statmech/__init__.py', "    'harmonic': {\n        'model': StatMech,\n        'vib_model': vib.HarmonicVib,", "    'harmonic': {\n        'model': StatMech,\n        'rot_model': rot.RigidRotor,\n        'vib_model': vib.HarmonicVib,")]},
]
EQUIV = []
