"""C03 - fitted polynomials: anchoring, continuity, bounds (the parts visible in
the shape of the code; fit quality is not decided)."""
import ast
import itertools
from fractions import Fraction as Fr

from ..nf import Rat, C
from ..source import Unsupported, AnchorError, norm, walk_no_nested
from ..xlate import Interp, Obj, ListV, Elem, SumV, Raised, RankOrder, DictV
from .common import same, show, coeff_vector, sub
from .rxnfix import get_public

NASA = 'pmutt.empirical.nasa'
SHO = 'pmutt.empirical.shomate'


# ----------------------------------------------------------------------
# A. vector-shape evaluator for the Cp-fit functions (structural)

class Shape:
    """abstract coefficient vector: list of tags; '0' = literal zero slot,
    'p<k>' = fitted coefficient of x**k, 'f<i>' = i-th curve_fit parameter"""

    def __init__(self, module, fn, repo):
        self.m = module
        self.fn = fn
        self.repo = repo
        self.parents = {}
        for n in ast.walk(fn):
            for ch in ast.iter_child_nodes(n):
                self.parents[ch] = n

    def block_chain(self, node):
        """list of (container stmt) ancestors up to the function"""
        out = []
        p = self.parents.get(node)
        while p is not None and p is not self.fn:
            out.append(p)
            p = self.parents.get(p)
        return out

    def stmt_of(self, node):
        n = node
        while n is not None and not isinstance(n, ast.stmt):
            n = self.parents.get(n)
        return n

    def defs(self, name, use):
        """definitions of a local name that may reach the use (see module doc)"""
        use_st = self.stmt_of(use)
        use_anc = [use_st] + self.block_chain(use_st)
        cands = []
        for n in walk_no_nested(self.fn):
            if isinstance(n, ast.Assign) and n.lineno < use_st.lineno + (0 if n is not use_st else 0):
                for t in n.targets:
                    if isinstance(t, ast.Name) and t.id == name:
                        cands.append((n, None))
                    elif isinstance(t, (ast.Tuple, ast.List)):
                        for i, e in enumerate(t.elts):
                            if isinstance(e, ast.Name) and e.id == name:
                                cands.append((n, i))
        if not cands:
            return []
        # an assignment whose enclosing block is an ancestor block of the use is unconditional w.r.t. the
        # use: the latest such one kills everything before it
        def uncond(st):
            par = self.parents.get(st)
            return par is self.fn or par in use_anc
        unc = [c for c in cands if uncond(c[0])]
        if unc:
            last = max(unc, key=lambda c: c[0].lineno)
            cands = [c for c in cands if c[0].lineno >= last[0].lineno]
        return cands

    def collector_items(self, name):
        out = []
        for n in walk_no_nested(self.fn):
            if isinstance(n, ast.Call) and isinstance(n.func, ast.Attribute) and n.func.attr == 'append' \
                    and isinstance(n.func.value, ast.Name) and n.func.value.id == name and n.args:
                out.append(n.args[0])
        return out

    def dotted(self, f):
        return ast.unparse(f)

    def of(self, e, depth=0):
        if depth > 12:
            raise Unsupported('shape recursion', e, self.m.relpath)
        if isinstance(e, ast.Call):
            f = self.dotted(e.func)
            if f in ('np.zeros', 'numpy.zeros'):
                a = e.args[0] if e.args else None
                if isinstance(a, ast.Constant) and isinstance(a.value, int):
                    return ['0'] * a.value
            if f == 'np.polyfit':
                deg = None
                for k in e.keywords:
                    if k.arg == 'deg':
                        deg = k.value
                if deg is None and len(e.args) >= 3:
                    deg = e.args[2]
                if isinstance(deg, ast.Constant) and isinstance(deg.value, int):
                    return ['p%d' % k for k in range(deg.value, -1, -1)]
            if f in ('np.concatenate',):
                seq = e.args[0]
                if isinstance(seq, (ast.Tuple, ast.List)):
                    out = []
                    for x in seq.elts:
                        out += self.of(x, depth + 1)
                    return out
            if f == 'np.append':
                return self.of(e.args[0], depth + 1) + self.of(e.args[1], depth + 1)
            if f in ('np.array',) and e.args:
                return self.of(e.args[0], depth + 1)
            if isinstance(e.func, ast.Name) and e.func.id in self.m.functions:
                # a helper of the same module: the shape of what it returns (all return paths must agree)
                callee = self.m.functions[e.func.id]
                sub_ = Shape(self.m, callee, self.repo)
                shapes = [sub_.of(r_.value, depth + 1) for r_ in returns_of(callee)
                          if not isinstance(r_.value, ast.Tuple)]
                if shapes and all(s_ == shapes[0] for s_ in shapes):
                    return shapes[0]
            raise Unsupported('shape of call %s' % f, e, self.m.relpath)
        if isinstance(e, (ast.List, ast.Tuple)):
            out = []
            for x in e.elts:
                if isinstance(x, ast.Constant) and isinstance(x.value, (int, float)) and x.value == 0:
                    out.append('0')
                else:
                    raise Unsupported('shape of list element', x, self.m.relpath)
            return out
        if isinstance(e, ast.Subscript):
            if isinstance(e.slice, ast.Slice):
                s = e.slice
                if s.lower is None and s.upper is None and isinstance(s.step, ast.UnaryOp) \
                        and isinstance(s.step.op, ast.USub) and isinstance(s.step.operand, ast.Constant) \
                        and s.step.operand.value == 1:
                    return list(reversed(self.of(e.value, depth + 1)))
                raise Unsupported('shape of slice', e, self.m.relpath)
            if isinstance(e.value, ast.Name):
                items = self.collector_items(e.value.id)
                if items:
                    shapes = [self.of(x, depth + 1) for x in items]
                    if all(s == shapes[0] for s in shapes):
                        return shapes[0]
                    raise Unsupported('collector %s holds vectors of different shapes' % e.value.id, e,
                                      self.m.relpath)
            raise Unsupported('shape of subscript', e, self.m.relpath)
        if isinstance(e, ast.Name):
            ds = self.defs(e.id, e)
            shapes = []
            for st, idx in ds:
                if idx is None:
                    shapes.append(self.of(st.value, depth + 1))
                else:
                    shapes.append(self.tuple_elem(st.value, idx, depth + 1))
            if shapes and all(s == shapes[0] for s in shapes):
                return shapes[0]
            raise Unsupported('no unique shape for %s' % e.id, e, self.m.relpath)
        raise Unsupported('shape of %s' % type(e).__name__, e, self.m.relpath)

    def tuple_elem(self, value, idx, depth):
        if isinstance(value, (ast.Tuple, ast.List)):
            return self.of(value.elts[idx], depth)
        if isinstance(value, ast.Call) and isinstance(value.func, ast.Name):
            callee = self.m.functions.get(value.func.id)
            if callee is not None:
                sub_ = Shape(self.m, callee, self.repo)
                shapes = []
                for n in walk_no_nested(callee):
                    if isinstance(n, ast.Return) and isinstance(n.value, ast.Tuple):
                        shapes.append(sub_.of(n.value.elts[idx], depth))
                if shapes and all(s == shapes[0] for s in shapes):
                    return shapes[0]
            if value.func.id == 'curve_fit' and idx == 0:
                lam = value.args[0] if value.args else None
                if isinstance(lam, ast.Lambda):
                    return ['f%d' % i for i in range(len(lam.args.args) - 1)]
                if isinstance(lam, ast.Name):
                    for st, _ in self.defs(lam.id, value):
                        if isinstance(st.value, ast.Lambda):
                            return ['f%d' % i for i in range(len(st.value.args.args) - 1)]
                    # a nested def or a module-level function fitted directly
                    for d_ in list(ast.walk(self.fn)) + list(self.m.functions.values()):
                        if isinstance(d_, ast.FunctionDef) and d_.name == lam.id and d_ is not self.fn:
                            return ['f%d' % i for i in range(len(d_.args.args) - 1)]
        raise Unsupported('shape of tuple element', value, self.m.relpath)


def returns_of(fn):
    return [n for n in walk_no_nested(fn) if isinstance(n, ast.Return) and n.value is not None]


def slot_tables(run, repo):
    """Cp power per slot and the integration-constant slots, re-derived from the evaluators (C02's table)"""
    out = {}
    for fam, mod, prefix, n in (('nasa', NASA, 'get_nasa_', 7), ('nasa9', NASA, 'get_nasa9_', 9),
                                ('shomate', SHO, 'get_shomate_', 8)):
        I = Interp(repo)
        D = I.D
        T = D.sym('T')
        a = coeff_vector(I, 'a', n)
        kw = {'a': a, 'T': T}
        if fam == 'shomate':
            kw = {'a': a, 'T': Elem(T), 'units': D.sym('units')}
        m = repo.module(mod)
        vals = {}
        for q in ('CpoR', 'HoRT', 'SoR'):
            fn = m.functions.get(prefix + q)
            if fn is None:
                raise AnchorError('%s.%s%s not found' % (mod, prefix, q))
            r = I.call_function(m, fn, [], dict(kw))
            if isinstance(r, Elem):
                r = r.r
            vals[q] = r
        powers, hconst, sconst, dead = {}, [], [], []
        for i, ai in enumerate(a.items):
            nm = list(ai.atoms())[0]
            ci, hi, si = D.d(vals['CpoR'], nm), D.d(vals['HoRT'], nm), D.d(vals['SoR'], nm)
            if ci.iszero():
                if hi.iszero() and si.iszero():
                    dead.append(i)
                elif si.iszero():
                    hconst.append(i)
                elif hi.iszero():
                    sconst.append(i)
                continue
            # ci = k * T**p : p = T*ci'/ci
            p = D.d(ci, 'T') * T / ci
            if not p.is_const():
                raise Unsupported('Cp basis of slot %d of %s is not a power of T' % (i, fam))
            powers[i] = p.const_value()
        out[fam] = {'powers': powers, 'hconst': hconst, 'sconst': sconst, 'dead': dead, 'n': n}
    return out


LSQ = ('numpy.polyfit', 'scipy.optimize.curve_fit')


def lib_target(m, f):
    """dotted library name of a call target (np.polyfit -> numpy.polyfit, curve_fit -> scipy.optimize.curve_fit)"""
    chain = []
    while isinstance(f, ast.Attribute):
        chain.append(f.attr)
        f = f.value
    if not isinstance(f, ast.Name):
        return None
    al = m.aliases.get(f.id)
    if not al:
        return None
    base = al[1] if al[0] == 'module' else al[1] + '.' + al[2]
    return '.'.join([base] + list(reversed(chain)))


def repo_callees(repo, m, fn):
    """module-level functions of the repository called (by name) inside fn: [(module, FunctionDef)]"""
    out = []
    for c_ in ast.walk(fn):
        if isinstance(c_, ast.Call) and isinstance(c_.func, (ast.Name, ast.Attribute)):
            r = repo.resolve_expr(m, c_.func)
            if isinstance(r, tuple) and r[0] == 'function' and (r[1], r[2]) not in out:
                out.append((r[1], r[2]))
    return out


def lsq_calls(repo, m, fn, _seen=None):
    """every least-squares library call reachable from fn through functions of the repository:
    [(module, enclosing FunctionDef, Call, library name)]"""
    seen = _seen if _seen is not None else set()
    if id(fn) in seen:
        return []
    seen.add(id(fn))
    out = []
    for c_ in ast.walk(fn):
        if isinstance(c_, ast.Call):
            t = lib_target(m, c_.func)
            if t in LSQ:
                out.append((m, fn, c_, t))
    for m2, f2 in repo_callees(repo, m, fn):
        out.extend(lsq_calls(repo, m2, f2, seen))
    return out


def cp_fit_of(repo, qual):
    """the heat-capacity fit of a polynomial family, found by its role: the one function called by the public
    <Class>.from_data from which a least-squares library call is reached (its name and signature are the
    class's own business)"""
    ci = repo.cls(qual)
    owner, fd = repo.find_method(ci, 'from_data')
    cands = [(m2, f2) for m2, f2 in repo_callees(repo, owner.module, fd) if lsq_calls(repo, m2, f2)]
    if len(cands) != 1:
        raise AnchorError('%s.from_data: expected one callee that reaches np.polyfit/curve_fit, found %s'
                          % (qual, [f2.name for _, f2 in cands]))
    return cands[0]


def fit_qual(mf):
    return '%s.%s' % (mf[0].name, mf[1].name)


def fit_shapes(run, repo, tables):
    specs = (('nasa', NASA + '.Nasa', 0), ('nasa9', NASA + '.Nasa9', 2), ('shomate', SHO + '.Shomate', None))
    n_inst = 0
    for fam, cqual, shift in specs:
        m, fn = cp_fit_of(repo, cqual)
        mod, fname = m.name, fn.name
        run.fn('%s.%s' % (mod, fname))
        tab = tables[fam]
        sh = Shape(m, fn, repo)
        rets = returns_of(fn)
        if not rets:
            raise AnchorError('%s.%s has no return' % (mod, fname))
        for r in rets:
            vecs = []
            v = r.value
            if fam == 'nasa':
                if not (isinstance(v, ast.Tuple) and len(v.elts) == 3):
                    raise Unsupported('return of _fit_CpoR is not (a_low, a_high, T_mid)', r, m.relpath)
                vecs = [('a_low', v.elts[0]), ('a_high', v.elts[1])]
            elif fam == 'nasa9':
                # list of per-segment vectors: a collector or [vec] * k
                if isinstance(v, ast.BinOp) and isinstance(v.op, ast.Mult) and isinstance(v.left, ast.List) \
                        and len(v.left.elts) == 1:
                    vecs = [('a[i]', v.left.elts[0])]
                elif isinstance(v, ast.ListComp):
                    vecs = [('a[i]', v.elt)]
                elif isinstance(v, ast.Name):
                    items = sh.collector_items(v.id)
                    if not items:
                        raise Unsupported('returned list %s is not built by append' % v.id, r, m.relpath)
                    vecs = [('a[i]', x) for x in items]
                else:
                    raise Unsupported('return form of _fit_CpoR9', r, m.relpath)
            else:
                vecs = [('a', v)]
            for label, e in vecs:
                shape = sh.of(e)
                key = '%s@return:%s' % (label, norm(r)[:60])
                con = '%s.%s' % (mod.split('.')[-1], fname)
                n_inst += 1
                if not run.check(len(shape) == tab['n'], 'SLOT.length', con, key,
                                 'returns a coefficient vector of length %d but the %s evaluators use %d '
                                 'coefficients (from_data then indexes/evaluates out of range)'
                                 % (len(shape), fam, tab['n']), m, r,
                                 sample={'family': fam, 'return': norm(r)[:80], 'shape': shape}):
                    continue
                zero_slots = [i for i, t in enumerate(shape) if t == '0']
                need_zero = sorted(tab['hconst'] + tab['sconst'])
                run.check(all(i in zero_slots for i in need_zero), 'SLOT.zero', con, key,
                          'integration-constant slots %s must be returned as zeros for the anchoring arithmetic of '
                          'from_data to hit the reference; zero slots are %s' % (need_zero, zero_slots), m, r)
                if all(t == '0' for t in shape):
                    continue
                for i, t in enumerate(shape):
                    if t.startswith('p') and shift is not None:
                        k = int(t[1:])
                        want = tab['powers'].get(i)
                        run.check(want is not None and Fr(k - shift) == want, 'SLOT.power', con,
                                  key + ' slot%d' % i,
                                  'slot %d receives the fitted coefficient of x^%d of Cp*T^%d, i.e. T^%d, but the '
                                  'evaluator multiplies slot %d by T^%s' % (i, k, shift, k - shift, i, want), m, r)
                    if t.startswith('f'):
                        run.check(i in tab['powers'], 'SLOT.power', con, key + ' slot%d' % i,
                                  'fitted parameter lands in slot %d which has no Cp basis' % i, m, r)
        # the polynomial fitted must be Cp * T**shift
        if shift is not None:
            for m_c, _f_c, c_, _t in [x for x in lsq_calls(repo, m, fn) if x[3] == 'numpy.polyfit']:
                y = None
                for k in c_.keywords:
                    if k.arg == 'y':
                        y = k.value
                if y is None and len(c_.args) >= 2:
                    y = c_.args[1]
                got_shift = 0
                if isinstance(y, ast.BinOp) and isinstance(y.op, ast.Mult):
                    for side in (y.left, y.right):
                        if isinstance(side, ast.BinOp) and isinstance(side.op, ast.Pow) \
                                and isinstance(side.right, ast.Constant):
                            got_shift = side.right.value
                run.check(got_shift == shift, 'SLOT.power', '%s.%s' % (mod.split('.')[-1], fname),
                          'polyfit-y:%s' % norm(y)[:40],
                          'the fitted quantity is Cp*T^%s, expected Cp*T^%d for this coefficient layout'
                          % (got_shift, shift), m_c, c_)
    return n_inst


# ----------------------------------------------------------------------
# B-D. pipeline interpretation of from_data with the Cp fit as an uninterpreted function

def fit_stub(I, names, n, zeros):
    v = ListV([I.D.sym('%s%d' % (names, i)) if i not in zeros else C(0) for i in range(n)])
    v.is_array = True
    return v


def nasa7_pipeline(run, repo, tables):
    ci = repo.cls(NASA + '.Nasa')
    owner, fn = repo.find_method(ci, 'from_data')
    run.fn(owner.qual + '.from_data')
    m = repo.module(NASA)
    tab = tables['nasa']
    zeros = set(tab['hconst'] + tab['sconst'])
    n = 0
    for label, rank in (('T_ref<T_mid', 2), ('T_ref=T_mid', 3), ('T_ref>T_mid', 4)):
        I = Interp(repo, order=RankOrder({'Tm': 3, 'T_ref': rank}))
        D = I.D
        lo, hi = fit_stub(I, 'l', 7, zeros), fit_stub(I, 'h', 7, zeros)
        Tm = D.sym('Tm')
        I.opaque_funcs[fit_qual(cp_fit_of(repo, NASA + '.Nasa'))] = lambda I_, fr, a, k, nd: ListV([lo, hi, Tm])
        Tref, Href, Sref = D.sym('T_ref'), D.sym('HoRT_ref'), D.sym('SoR_ref')
        Tdata = Elem(D.sym('Tdata'))
        o = I.call_function(owner.module, fn, [], {'name': 'sp', 'T': Tdata, 'CpoR': Elem(D.sym('Cpdata')),
                                                   'T_ref': Tref, 'HoRT_ref': Href, 'SoR_ref': Sref},
                            self_obj=ci, owner=owner, name=owner.qual + '.from_data')
        if not isinstance(o, Obj):
            raise Unsupported('Nasa.from_data did not build an object: %s' % show(o))
        al, ah = o.attrs.get('a_low'), o.attrs.get('a_high')
        H = lambda a, T: I.call_function(m, m.functions['get_nasa_HoRT'], [], {'a': a, 'T': T})
        S = lambda a, T: I.call_function(m, m.functions['get_nasa_SoR'], [], {'a': a, 'T': T})
        seg = al if rank <= 3 else ah
        segname = 'low' if rank <= 3 else 'high'
        # at T_ref == T_mid either segment may carry the anchor (they join there)
        okH = same(H(seg, Tref), Href) or (rank == 3 and same(H(ah, Tref), Href))
        okS = same(S(seg, Tref), Sref) or (rank == 3 and same(S(ah, Tref), Sref))
        run.check(okH, 'ANCHOR.H', 'nasa.Nasa.from_data', label,
                  'H/RT of the fitted species at T_ref (%s segment) is %s, not HoRT_ref' % (segname, show(H(seg, Tref))),
                  owner.module, fn, sample='Nasa.from_data: H(T_ref)=HoRT_ref, %s' % label)
        run.check(okS, 'ANCHOR.S', 'nasa.Nasa.from_data', label,
                  'S/R of the fitted species at T_ref (%s segment) is %s, not SoR_ref' % (segname, show(S(seg, Tref))),
                  owner.module, fn)
        tm = o.attrs.get('T_mid')
        run.check(same(H(al, tm), H(ah, tm)), 'CONT.H', 'nasa.Nasa.from_data', label,
                  'H is discontinuous at T_mid: low %s vs high %s' % (show(H(al, tm)), show(H(ah, tm))),
                  owner.module, fn)
        run.check(same(S(al, tm), S(ah, tm)), 'CONT.S', 'nasa.Nasa.from_data', label,
                  'S is discontinuous at T_mid', owner.module, fn)
        # the Cp fit is left untouched and only the integration-constant slots are written
        ok = all(same(al.items[i], lo.items[i]) and same(ah.items[i], hi.items[i])
                 for i in range(7) if i not in zeros)
        run.check(ok, 'DATAFLOW.cp-slots', 'nasa.Nasa.from_data', label,
                  'a heat-capacity coefficient was modified while anchoring H and S', owner.module, fn)
        run.check(same(tm, Tm), 'DATAFLOW.T_mid', 'nasa.Nasa.from_data', label,
                  'the species is built with T_mid=%s, not the break temperature chosen by the Cp fit' % show(tm),
                  owner.module, fn)
        run.check(same(o.attrs.get('T_low'), D.sym('MIN{(Tdata)}')) and
                  same(o.attrs.get('T_high'), D.sym('MAX{(Tdata)}')), 'DATAFLOW.bounds', 'nasa.Nasa.from_data', label,
                  'temperature bounds are (%s, %s), not the span (min, max) of the data'
                  % (show(o.attrs.get('T_low')), show(o.attrs.get('T_high'))), owner.module, fn)
        n += 7
    return n


def nasa9_pipeline(run, repo, tables, max_seg):
    ci = repo.cls(NASA + '.Nasa9')
    owner, fn = repo.find_method(ci, 'from_data')
    run.fn(owner.qual + '.from_data')
    m = repo.module(NASA)
    tab = tables['nasa9']
    zeros = set(tab['hconst'] + tab['sconst'])
    n = 0
    for nseg in range(1, max_seg + 1):
        for j in range(nseg):
            I = Interp(repo)
            D = I.D
            stubs = [fit_stub(I, 's%d_' % k, 9, zeros) for k in range(nseg)]
            I.opaque_funcs[fit_qual(cp_fit_of(repo, NASA + '.Nasa9'))] = lambda I_, fr, a, k, nd, st=stubs: ListV(list(st))
            tmid = ListV([D.sym('Tm%d' % k) for k in range(nseg - 1)])
            tmid.is_array = True
            Tref, Href, Sref = D.sym('T_ref'), D.sym('HoRT_ref'), D.sym('SoR_ref')
            o = I.call_function(owner.module, fn, [], {'name': 'sp', 'T': Elem(D.sym('Tdata')),
                                                       'CpoR': Elem(D.sym('Cpdata')), 'T_ref': Tref,
                                                       'HoRT_ref': Href, 'SoR_ref': Sref, 'T_mid': tmid},
                                self_obj=ci, owner=owner, name=owner.qual + '.from_data')
            if not isinstance(o, Obj):
                raise Unsupported('Nasa9.from_data did not build an object: %s' % show(o))
            segs = get_public(I, o, 'nasas')
            if not isinstance(segs, ListV) or len(segs) != nseg:
                run.fail('DATAFLOW.segments', 'nasa.Nasa9.from_data', 'segments:%d' % nseg,
                         'expected %d segment objects, got %s' % (nseg, show(segs)), owner.module, fn)
                continue
            H = lambda a, T: I.call_function(m, m.functions['get_nasa9_HoRT'], [], {'a': a, 'T': T})
            S = lambda a, T: I.call_function(m, m.functions['get_nasa9_SoR'], [], {'a': a, 'T': T})
            A = [s.attrs['a'] for s in segs.items]
            if j == 0:
                # segment bounds are consecutive pairs of [min(T), *T_mid, max(T)]
                bounds = [D.sym('MIN{(Tdata)}')] + list(tmid.items) + [D.sym('MAX{(Tdata)}')]
                ok = all(same(s.attrs.get('T_low'), bounds[k]) and same(s.attrs.get('T_high'), bounds[k + 1])
                         for k, s in enumerate(segs.items))
                run.check(ok, 'DATAFLOW.bounds', 'nasa.Nasa9.from_data', 'segments:%d' % nseg,
                          'segment k must span [T_k, T_k+1] of [min(T), *T_mid, max(T)]', owner.module, fn)
                for k in range(nseg - 1):
                    tk = tmid.items[k]
                    run.check(same(H(A[k], tk), H(A[k + 1], tk)), 'CONT.H', 'nasa.Nasa9.from_data',
                              'segments:%d break:%d' % (nseg, k), 'H is discontinuous at break temperature %d' % k,
                              owner.module, fn, sample='Nasa9.from_data(%d segments): H continuous at T_mid[%d]'
                              % (nseg, k))
                    run.check(same(S(A[k], tk), S(A[k + 1], tk)), 'CONT.S', 'nasa.Nasa9.from_data',
                              'segments:%d break:%d' % (nseg, k), 'S is discontinuous at break temperature %d' % k,
                              owner.module, fn)
                    n += 2
                ok = all(same(A[k].items[i], stubs[k].items[i]) for k in range(nseg) for i in range(9)
                         if i not in zeros)
                run.check(ok, 'DATAFLOW.cp-slots', 'nasa.Nasa9.from_data', 'segments:%d' % nseg,
                          'a heat-capacity coefficient was modified while anchoring H and S', owner.module, fn)
                n += 2
            # anchor: the segment containing T_ref must reproduce the reference values
            key = 'T_ref in segment %d' % j if j else 'T_ref in segment 0'
            run.check(same(H(A[j], Tref), Href), 'ANCHOR.H', 'nasa.Nasa9.from_data', key,
                      'with T_ref inside segment %d (of %d) H/RT(T_ref) = %s, not HoRT_ref: the anchor is applied to '
                      'the first segment whatever segment T_ref lies in' % (j, nseg, show(H(A[j], Tref), 120)),
                      owner.module, fn)
            run.check(same(S(A[j], Tref), Sref), 'ANCHOR.S', 'nasa.Nasa9.from_data', key,
                      'with T_ref inside segment %d (of %d) S/R(T_ref) is not SoR_ref' % (j, nseg),
                      owner.module, fn)
            n += 2
    return n


def shomate_pipeline(run, repo, tables):
    ci = repo.cls(SHO + '.Shomate')
    owner, fn = repo.find_method(ci, 'from_data')
    run.fn(owner.qual + '.from_data')
    m = repo.module(SHO)
    tab = tables['shomate']
    zeros = set(tab['hconst'] + tab['sconst'] + tab['dead'])
    I = Interp(repo)
    D = I.D
    stub = fit_stub(I, 'c', 8, zeros)
    I.opaque_funcs[fit_qual(cp_fit_of(repo, SHO + '.Shomate'))] = lambda I_, fr, a, k, nd: stub
    Tref, Href, Sref, units = D.sym('T_ref'), D.sym('HoRT_ref'), D.sym('SoR_ref'), D.sym('units')
    o = I.call_function(owner.module, fn, [], {'name': 'sp', 'T': Elem(D.sym('Tdata')),
                                               'CpoR': Elem(D.sym('Cpdata')), 'T_ref': Tref, 'HoRT_ref': Href,
                                               'SoR_ref': Sref, 'units': units},
                        self_obj=ci, owner=owner, name=owner.qual + '.from_data')
    if not isinstance(o, Obj):
        raise Unsupported('Shomate.from_data did not build an object: %s' % show(o))
    a = o.attrs.get('a')
    arr = ListV([Tref])
    arr.is_array = True
    H = I.call_function(m, m.functions['get_shomate_HoRT'], [], {'a': a, 'T': arr, 'units': units})
    S = I.call_function(m, m.functions['get_shomate_SoR'], [], {'a': a, 'T': arr, 'units': units})
    run.check(isinstance(H, ListV) and same(H.items[0], Href), 'ANCHOR.H', 'shomate.Shomate.from_data', 'any units',
              'H/RT(T_ref) = %s, not HoRT_ref' % show(H), owner.module, fn,
              sample='Shomate.from_data: H(T_ref)=HoRT_ref for symbolic units')
    run.check(isinstance(S, ListV) and same(S.items[0], Sref), 'ANCHOR.S', 'shomate.Shomate.from_data', 'any units',
              'S/R(T_ref) = %s, not SoR_ref' % show(S), owner.module, fn)
    ok = all(same(a.items[i], stub.items[i]) for i in range(8) if i not in zeros)
    run.check(ok, 'DATAFLOW.cp-slots', 'shomate.Shomate.from_data', 'any units',
              'a heat-capacity coefficient was modified while anchoring H and S', owner.module, fn)
    run.check(same(o.attrs.get('T_low'), D.sym('MIN{(Tdata)}')) and same(o.attrs.get('T_high'), D.sym('MAX{(Tdata)}')),
              'DATAFLOW.bounds', 'shomate.Shomate.from_data', 'any units',
              'temperature bounds are not the span of the data', owner.module, fn)
    run.check(same(get_public(I, o, 'units'), units), 'DATAFLOW.units', 'shomate.Shomate.from_data', 'any units',
              'the species is not built with the fitting units', owner.module, fn)
    return 5


# ----------------------------------------------------------------------
# E. from_model: reference values sampled from the same model at the temperature passed as T_ref

def from_model(run, repo):
    n = 0
    for (qual, mod, extra), behaviour in itertools.product(
            ((NASA + '.Nasa', NASA, {}), (NASA + '.Nasa9', NASA, {}), (SHO + '.Shomate', SHO, {})),
            ('vector', 'scalar', 'raises')):
        # how the source model answers a call with the whole temperature grid: element by element, with one number
        # (HarmonicVib when the number of modes equals the number of temperatures), or with ValueError
        ci = repo.cls(qual)
        owner, fn = repo.find_method(ci, 'from_model')
        run.fn(owner.qual + '.from_model')
        I = Interp(repo)
        D = I.D
        calls = {}

        def mk(mname):
            def h(I_, obj, args, kwargs):
                T = kwargs.get('T', args[0] if args else None)
                if isinstance(T, Elem) and mname == 'get_CpoR' and behaviour == 'scalar':
                    return I_.D.sym('model.get_CpoR<one number for the whole grid>')
                if isinstance(T, Elem) and mname == 'get_CpoR' and behaviour == 'raises':
                    from ..xlate import _RaisedExc
                    raise _RaisedExc(Raised('ValueError'))
                if isinstance(T, Elem):
                    nm = 'model.%s[%r]' % (mname, T.r)
                    calls[nm] = T
                    return Elem(I_.D.sym(nm))
                nm = 'model.%s(%r)' % (mname, T)
                calls[nm] = T
                return I_.D.sym(nm)
            return h
        model = Obj('model')
        for q in ('get_CpoR', 'get_HoRT', 'get_SoR'):
            model.opaque_methods[q] = mk(q)
        model.attrs.update({'name': 'm', 'elements': DictV({'A': D.sym('nA')})})
        model.missing = {'T_low', 'T_high'}     # a model without its own validity range
        cap = {}

        def capture(I_, fr, args, kwargs, nd):
            cap.update(kwargs)
            return 'built'
        I.opaque_funcs[owner.qual + '.from_data'] = capture

        def mini(I_, fr, args, kwargs, nd):
            x0 = kwargs.get('x0')
            res = Obj('res')
            k = len(x0) if isinstance(x0, ListV) else 1
            v = ListV([I_.D.sym('Topt%d' % i) for i in range(k)])
            v.is_array = True
            res.attrs['x'] = v
            return res
        I.native['scipy.optimize.minimize'] = mini
        Tl, Th = D.sym('T_low'), D.sym('T_high')
        kw = {'model': model, 'name': 'sp', 'T_low': Tl, 'T_high': Th}
        if qual.endswith('Nasa9'):
            tm = ListV([D.sym('Tm0')])
            tm.is_array = True
            kw['T_mid'] = tm
        r = I.call_function(owner.module, fn, [], kw, self_obj=ci, owner=owner, name=owner.qual + '.from_model')
        con = '%s.%s.from_model' % (mod.split('.')[-1], ci.name)
        if behaviour != 'vector':
            Tg, Cp = cap.get('T'), cap.get('CpoR')
            okg = r == 'built' and isinstance(Tg, Elem) and isinstance(Cp, Elem) and isinstance(Cp.r, Rat) and \
                isinstance(Tg.r, Rat) and same(Cp.r, Rat.atom('model.get_CpoR(%r)' % (Tg.r,)))
            run.check(okg, 'DATAFLOW.cp-grid', con, 'grid, model not vectorised (%s)' % behaviour,
                      'when the model answers the whole grid with %s the heat capacities handed to from_data must be '
                      'the model sampled one temperature at a time; got %s'
                      % ('a single number' if behaviour == 'scalar' else 'ValueError',
                         show(Cp, 120) if r == 'built' else show(r)), owner.module, fn)
            n += 1
            continue
        if r != 'built' or not cap:
            run.fail('DATAFLOW.from_model', con, 'delegates', 'from_model does not hand its samples to from_data (%s)'
                     % show(r), owner.module, fn)
            continue
        Tref = cap.get('T_ref')
        href, sref = cap.get('HoRT_ref'), cap.get('SoR_ref')

        def sampled_at(v, meth):
            if isinstance(v, Rat):
                for a_ in v.atoms():
                    if a_.startswith('model.%s(' % meth) and v.eq(Rat.atom(a_)):
                        return calls[a_]
            return None
        th, ts = sampled_at(href, 'get_HoRT'), sampled_at(sref, 'get_SoR')
        run.check(th is not None and isinstance(Tref, Rat) and same(th, Tref), 'DATAFLOW.ref-H', con, 'T_ref',
                  'HoRT_ref is sampled at %s but T_ref=%s is passed on' % (show(th), show(Tref)), owner.module, fn,
                  sample='%s: HoRT_ref = model.get_HoRT(T=T_ref), T_ref=%s' % (con, show(Tref)))
        run.check(ts is not None and isinstance(Tref, Rat) and same(ts, Tref), 'DATAFLOW.ref-S', con, 'T_ref',
                  'SoR_ref is sampled at %s but T_ref=%s is passed on' % (show(ts), show(Tref)), owner.module, fn)
        # T_ref inside the window [T_low, T_high] by construction (affine combination of the bounds)
        inside = False
        if isinstance(Tref, Rat):
            wl, wh = I.D.d(Tref, 'T_low'), I.D.d(Tref, 'T_high')
            if wl.is_const() and wh.is_const():
                a_, b_ = wl.const_value(), wh.const_value()
                inside = a_ >= 0 and b_ >= 0 and a_ + b_ == 1 and same(Tref, Tl * C(a_) + Th * C(b_))
        run.check(inside, 'DATAFLOW.ref-window', con, 'T_ref',
                  'T_ref=%s is not a convex combination of T_low and T_high' % show(Tref), owner.module, fn)
        # Cp data sampled from the same model on the grid that is passed on
        Tg, Cp = cap.get('T'), cap.get('CpoR')
        okg = isinstance(Tg, Elem) and isinstance(Cp, Elem) and isinstance(Cp.r, Rat) and \
            any(a_.startswith('model.get_CpoR[') and same(calls[a_], Tg) for a_ in Cp.r.atoms())
        run.check(okg, 'DATAFLOW.cp-grid', con, 'grid',
                  'the heat-capacity samples are not model.get_CpoR evaluated on the temperature grid handed to '
                  'from_data', owner.module, fn)
        run.check(cap.get('model') is model, 'DATAFLOW.model', con, 'model',
                  'the fitted species does not keep the source model', owner.module, fn)
        n += 5
    return n


def masks(run, repo):
    # the function that splits the data: where the two-range NASA-7 fit calls np.polyfit
    fm, ff = cp_fit_of(repo, NASA + '.Nasa')
    sites = {(id(f2)): (m2, f2) for m2, f2, _c, t in lsq_calls(repo, fm, ff) if t == 'numpy.polyfit'}
    if len(sites) != 1:
        raise AnchorError('NASA-7 fit: np.polyfit is called in %d functions, expected 1' % len(sites))
    (m, fn), = sites.values()
    run.fn('%s.%s' % (m.name, fn.name))
    cmps = {}
    for st in ast.walk(fn):
        if isinstance(st, ast.Assign) and isinstance(st.value, ast.Compare) and len(st.value.ops) == 1 \
                and isinstance(st.targets[0], ast.Name):
            cmps[st.targets[0].id] = st.value
    used = []
    for c_ in ast.walk(fn):
        if isinstance(c_, ast.Call) and ast.unparse(c_.func) == 'np.extract':
            for k in c_.keywords:
                if k.arg == 'condition' and isinstance(k.value, ast.Name):
                    used.append(k.value.id)
    conds = [cmps[u] for u in dict.fromkeys(used) if u in cmps]
    ok = False
    if len(conds) == 2:
        a, b = conds
        same_ops = norm(a.left) == norm(b.left) and norm(a.comparators[0]) == norm(b.comparators[0])
        pair = {type(a.ops[0]), type(b.ops[0])}
        ok = same_ops and pair in ({ast.LtE, ast.Gt}, {ast.Lt, ast.GtE})
    run.check(ok, 'DATAFLOW.masks', 'nasa NASA-7 two-range fit', 'low/high masks',
              'the low and high fit masks are not complementary comparisons of T with T_mid (a data point would be '
              'used twice or dropped)', m, fn)
    return 1


def check(run, repo):
    run.explanation = (
        'Clauses of C03 that are visible in the shape of the code. (A) a structural vector-shape evaluation of every '
        'return path of the Cp-fit functions: vector length equals the evaluator basis length, the integration-'
        'constant slots (re-derived from the evaluators) are returned as zeros, fitted coefficients land in the slot '
        'whose basis has the fitted power. (B) from_data of Nasa, Nasa9 (1-3 segments, T_ref in every segment) and '
        'Shomate (symbolic units) is interpreted with the Cp fit as an uninterpreted function; on the resulting '
        'object H(T_ref)=HoRT_ref, S(T_ref)=SoR_ref and continuity of H and S at every break temperature are decided '
        'as identities for all Cp coefficients, T_ref, T_mid; bounds are min/max of the data. (C) from_model hands '
        'from_data reference values sampled from the same model at the temperature it passes as T_ref, inside the '
        'window, and Cp sampled on the grid it passes. (D) the low/high fit masks are complementary.')
    run.assumptions = ['C02 slot table (re-derived here) - evaluators are affine in the integration-constant slots',
                       'np.polyfit returns coefficients highest power first; curve_fit returns one value per parameter']
    run.undecided = ['fit quality (tracks the source / reproduces a same-family polynomial): least-squares and '
                     'Nelder-Mead behaviour on data',
                     'break temperatures strictly inside the range for user-supplied T_mid (no validation exists)']
    tables = slot_tables(run, repo)
    run.sample({'slot_tables': {k: {'powers': {i: str(p) for i, p in v['powers'].items()},
                                    'hconst': v['hconst'], 'sconst': v['sconst'], 'dead': v['dead']}
                                for k, v in tables.items()}})
    n = fit_shapes(run, repo, tables)
    run.floor('fit return paths', n, 6)
    n = nasa7_pipeline(run, repo, tables)
    run.floor('NASA-7 pipeline instances', n, 21)
    n = nasa9_pipeline(run, repo, tables, 4 if run.tier == 'thorough' else 3)
    run.floor('NASA-9 pipeline instances', n, 20)
    shomate_pipeline(run, repo, tables)
    n = from_model(run, repo)
    run.floor('from_model instances', n, 15)
    masks(run, repo)


N = 'pmutt/empirical/nasa.py'
S_ = 'pmutt/empirical/shomate.py'
MUTANTS = [
    {'name': 'from_data writes H constant into slot 6', 'expect': ('', 'Nasa.from_data'),
     'edits': [(N, 'a_low[5], a_high[5] = _fit_HoRT(T_ref=T_ref,', 'a_low[6], a_high[5] = _fit_HoRT(T_ref=T_ref,')]},
    {'name': '_fit_HoRT T_ref<=T_mid flipped', 'expect': ('ANCHOR.H', 'Nasa.from_data'),
     'edits': [(N, '    if T_ref <= T_mid:', '    if T_ref > T_mid:', 0, 2)]},
    {'name': '_fit_HoRT high branch evaluates low polynomial at T_ref', 'expect': ('ANCHOR.H', 'Nasa.from_data'),
     'edits': [(N, 'a6_high_out = (HoRT_ref - get_nasa_HoRT(a=a_high, T=T_ref)) * T_ref',
                'a6_high_out = (HoRT_ref - get_nasa_HoRT(a=a_low, T=T_ref)) * T_ref')]},
    {'name': '_fit_SoR9 uses a[i] for the lower segment', 'expect': ('CONT.S', 'Nasa9.from_data'),
     'edits': [(N, 'SoR_low = get_nasa9_SoR(a=a[i - 1], T=T_mid[i - 1]) + a9_low',
                'SoR_low = get_nasa9_SoR(a=a[i], T=T_mid[i - 1]) + a9_low')]},
    {'name': 'Nasa.from_model samples S at T_low but passes T_mean', 'expect': ('DATAFLOW.ref-S', 'Nasa.from_model'),
     'edits': [(N, '        SoR_ref = model.get_SoR(T=T_mean)', '        SoR_ref = model.get_SoR(T=T_low)')]},
    {'name': 'Shomate.from_model samples H at T_high', 'expect': ('DATAFLOW.ref-H', 'Shomate.from_model'),
     'edits': [(S_, '        HoRT_ref = model.get_HoRT(T=T_mean)', '        HoRT_ref = model.get_HoRT(T=T_high)')]},
    {'name': 'Shomate _fit_HoRT forgets /k prefix', 'expect': ('ANCHOR.H', 'Shomate.from_data'),
     'edits': [(S_, "        * c.R(units)*T_ref/c.prefixes['k']\n    a[7]", "        * c.R(units)*T_ref\n    a[7]")]},
    {'name': 'NASA-7 fit keeps polyfit order (no reversal)', 'expect': ('SLOT.power', '_fit_CpoR'),
     'edits': [(N, 'a_low_out = np.concatenate((a_low_rev[::-1], empty_arr))', 'a_low_out = np.concatenate((a_low_rev, empty_arr))')]},
    {'name': 'masks overlap at T_mid', 'expect': ('DATAFLOW.masks', 'NASA-7 two-range fit'),
     'edits': [(N, '    high_condition = (T > T_mid)', '    high_condition = (T >= T_mid)')]},
    {'name': 'Nasa T_high from T_mid', 'expect': ('DATAFLOW.bounds', 'Nasa.from_data'),
     'edits': [(N, '        T_high = max(T)\n\n        # Find midpoint temperature, and a[0] through a[4] parameters\n        a_low, a_high, T_mid_out', '        T_high = min(T)\n\n        # Find midpoint temperature, and a[0] through a[4] parameters\n        a_low, a_high, T_mid_out')]},
]
EQUIV = [
    {'name': '_fit_SoR rewritten with explicit difference',
     'edits': [(N, '        a7_low_out = SoR_ref - get_nasa_SoR(a=a_low, T=T_ref)', '        a7_low_out = -(get_nasa_SoR(a=a_low, T=T_ref) - SoR_ref)')]},
    {'name': 'masks written with flipped operands kept complementary',
     'edits': [(N, '    low_condition = (T <= T_mid)\n    high_condition = (T > T_mid)', '    low_condition = (T < T_mid)\n    high_condition = (T >= T_mid)')]},
]
