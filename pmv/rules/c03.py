"""C03 - fitted polynomials: anchoring, continuity, bounds (the parts visible in
the shape of the code; fit quality is not decided)."""
import ast
import itertools
from fractions import Fraction as Fr

from ..nf import Rat, C
from ..source import Unsupported, AnchorError, norm, walk_no_nested
from ..xlate import Interp, Obj, ListV, Elem, SumV, Raised, RankOrder, DictV, Frame, _RaisedExc
from .. import fitmodel
from .common import same, show, coeff_vector, sub
from .rxnfix import get_public

NASA = 'pmutt.empirical.nasa'
SHO = 'pmutt.empirical.shomate'


def pub(obj, name, default=None):
    """obj.name as a user reads it: whatever the class puts behind the name (a stored attribute, an @property, a
    ``name = property(fget, fset)`` in the class body); ``default`` when reading it raises"""
    if not isinstance(obj, Obj):
        return default
    I = getattr(obj, 'interp', None)
    if I is None or obj.ci is None:
        return obj.attrs.get(name, default)
    try:
        return get_public(I, obj, name)
    except _RaisedExc:
        return default


def public_function(repo, mod, name):
    """(module, def) of the documented function ``mod.name`` - wherever the def lives: a function imported into the
    module is as much ``mod.name`` for a user as one defined there"""
    m = repo.module(mod)
    r = repo.lookup(m, name)
    if isinstance(r, tuple) and r[0] == 'function':
        return r[1], r[2]
    raise AnchorError('%s.%s not found' % (mod, name))


def slot_tables(run, repo):
    """Cp power per slot and the integration-constant slots, re-derived from the evaluators (C02's table)"""
    out = {}
    for fam, mod, prefix, n in (('nasa', NASA, 'get_nasa_', 7), ('nasa9', NASA, 'get_nasa9_', 9),
                                ('shomate', SHO, 'get_shomate_', 8)):
        I = Interp(repo)
        D = I.D
        T = D.sym('T')
        a = coeff_vector(I, 'a', n)
        kw = {'a': a, 'T': T}
        if fam == 'shomate':
            kw = {'a': a, 'T': Elem(T), 'units': D.sym('units')}
        vals = {}
        for q in ('CpoR', 'HoRT', 'SoR'):
            m, fn = public_function(repo, mod, prefix + q)
            r = I.call_function(m, fn, [], dict(kw))
            if isinstance(r, Elem):
                r = r.r
            if not isinstance(r, Rat):
                raise Unsupported('%s.%s%s on symbolic coefficients gives %s, not an expression'
                                  % (mod, prefix, q, show(r, 80)))
            vals[q] = r
        powers, hconst, sconst, dead = {}, [], [], []
        for i, ai in enumerate(a.items):
            nm = list(ai.atoms())[0]
            ci, hi, si = D.d(vals['CpoR'], nm), D.d(vals['HoRT'], nm), D.d(vals['SoR'], nm)
            if ci.iszero():
                if hi.iszero() and si.iszero():
                    dead.append(i)
                elif si.iszero():
                    hconst.append(i)
                elif hi.iszero():
                    sconst.append(i)
                continue
            # ci = k * T**p : p = T*ci'/ci
            p = D.d(ci, 'T') * T / ci
            if not p.is_const():
                raise Unsupported('Cp basis of slot %d of %s is not a power of T' % (i, fam))
            powers[i] = p.const_value()
        out[fam] = {'powers': powers, 'hconst': hconst, 'sconst': sconst, 'dead': dead, 'n': n}
    return out


# ----------------------------------------------------------------------
# A. the fitting pipeline, interpreted from the public from_data down to the least-squares library call and back
#    (np.polyfit / curve_fit return fresh symbols, see pmv/fitmodel.py): no private helper is named or stubbed

EVAL = {'nasa': (NASA, 'get_nasa_'), 'nasa9': (NASA, 'get_nasa9_'), 'shomate': (SHO, 'get_shomate_')}


def _fallback_rank(atom):
    if atom.startswith('AT{'):
        return 5        # an entry of the temperature data: somewhere inside the window
    if atom.startswith('MEAN{'):
        return 1        # a mean squared error: positive
    return None


def fitted(repo, qual, kind, extra=None, ranks=None, fallback=None):
    """interpret <Class>.from_data on symbolic data of the given kind -> (interpreter, result)"""
    rk = {'len<vec>': 1000, 'cp': 1, 'kc': 1}
    rk.update(ranks or {})
    I = Interp(repo, order=RankOrder(rk, const_ranks=True, fallback=fallback or _fallback_rank))
    fitmodel.install(I)
    fit_options(I)
    D = I.D
    ci = repo.cls(qual)
    owner, fn = repo.find_method(ci, 'from_data')
    cpname = 'kc' if kind == 'const' else 'cp'
    kw = {'name': 'sp', 'T': fitmodel.data_vector(I, 'Tdata'), 'CpoR': fitmodel.data_vector(I, cpname, kind),
          'T_ref': D.sym('T_ref'), 'HoRT_ref': D.sym('HoRT_ref'), 'SoR_ref': D.sym('SoR_ref')}
    kw.update(extra(I) if extra else {})
    o = I.call_function(owner.module, fn, [], kw, self_obj=ci, owner=owner, name=owner.qual + '.from_data')
    I.c03_again = (ci, owner, fn, dict(kw))
    return I, o, owner, fn



# what the least-squares library calls are told besides the data: the statement of the rule about a fit is "the
# parameters minimise the plain sum of squared residuals over the (T, Cp) pairs handed over", so everything that changes
# WHAT is minimised (weights, bounds, a robust loss) must be read; options that only steer the search are named one by one
_CURVE_FIT_POS = ('p0', 'sigma', 'absolute_sigma', 'check_finite', 'bounds', 'method', 'jac')
_CURVE_FIT_NEUTRAL = {'p0', 'absolute_sigma', 'check_finite', 'method', 'jac', 'maxfev', 'max_nfev'}


def fit_options(I):
    """the models of np.polyfit / curve_fit (pmv/fitmodel.py) keep x, y and the model function; here the remaining
    arguments of the call are kept with the recorded fit (``FitCall.options``) for `least_squares_problem`"""
    base_cf, base_pf = I.native['scipy.optimize.curve_fit'], I.native['numpy.polyfit']

    def curve_fit(I_, fr, args, kwargs, n):
        out = base_cf(I_, fr, args, kwargs, n)
        opts = dict(zip(_CURVE_FIT_POS, args[3:]))
        if len(args) > 3 + len(_CURVE_FIT_POS):
            raise Unsupported('curve_fit with %d positional arguments' % len(args), n)
        opts.update({k: v for k, v in kwargs.items() if k not in ('f', 'xdata', 'ydata')})
        I_.fit_calls[-1].options = opts
        return out

    def polyfit(I_, fr, args, kwargs, n):
        if len(args) > 3:
            raise Unsupported('np.polyfit with positional rcond/full/w/cov', n)
        out = base_pf(I_, fr, args, kwargs, n)
        I_.fit_calls[-1].options = {}
        return out
    I.native['scipy.optimize.curve_fit'] = curve_fit
    I.native['numpy.polyfit'] = polyfit
    return I


def _infinite(v, sign):
    """v is +-infinity (np.inf is the interpreter's symbol INF), a scalar or a vector of them"""
    if isinstance(v, (ListV, Elem)):
        items = v.items if isinstance(v, ListV) else [v.r]
        return bool(items) and all(_infinite(x, sign) for x in items)
    return isinstance(v, Rat) and v.eq(Rat.atom('INF') * C(sign))


def varying_data(I):
    """the atoms that stand for data varying from point to point (the entries of constant data are all the same)"""
    return lambda a_: I.data_kind.get(a_) in ('generic', 'nan')


def least_squares_problem(I, fc, is_data):
    """None when the recorded fit minimises the unweighted sum of squared residuals over its (x, y) pairs; otherwise a
    text saying what else it minimises.  Options whose effect on the minimiser is not known here are refused."""
    opts = getattr(fc, 'options', None)
    if opts is None:
        raise Unsupported('least-squares call recorded without its options', fc.node)
    for k, v in sorted(opts.items(), key=lambda kv: kv[0]):
        if k in _CURVE_FIT_NEUTRAL:
            continue
        if k == 'full_output':
            if v is False:
                continue
            raise Unsupported('curve_fit(full_output=%s)' % show(v, 40), fc.node)
        if k == 'nan_policy':
            if v is None or I.plain(v) == 'raise':
                continue
            raise Unsupported('curve_fit(nan_policy=%s)' % show(v, 40), fc.node)
        if k == 'sigma':
            if v is None:
                continue
            items = v.items if isinstance(v, ListV) else [v.r] if isinstance(v, Elem) else [v]
            if not items or not all(isinstance(x, Rat) for x in items):
                raise Unsupported('curve_fit(sigma=%s)' % show(v, 60), fc.node)
            if any(is_data(a_) for x in items for a_ in x.atoms()):
                return 'the residuals are weighted with 1/sigma, sigma=%s: the points do not count equally' % show(v, 80)
            if all(x.eq(items[0]) for x in items) and not items[0].iszero():
                continue            # the same uncertainty for every point: the unweighted problem
            raise Unsupported('curve_fit(sigma=%s): whether the weights are uniform is not decided' % show(v, 60),
                              fc.node)
        if k == 'loss':
            if isinstance(I.plain(v), str) and I.plain(v) == 'linear':
                continue
            return 'loss=%s: not the sum of squared residuals is minimised' % show(v, 40)
        if k == 'bounds':
            lo_hi = v.items if isinstance(v, ListV) and len(v) == 2 else None
            if lo_hi is not None and _infinite(lo_hi[0], -1) and _infinite(lo_hi[1], 1):
                continue
            raise Unsupported('curve_fit(bounds=%s): a constrained fit (whether a bound is active depends on the data '
                              'and on the fitting unit)' % show(v, 60), fc.node)
        raise Unsupported('curve_fit(%s=...): effect on the fitted parameters is not modelled' % k, fc.node)
    return None


SECOND = ' [second species fitted in the same process]'


def fitted_again(I):
    """a second species fitted in the SAME interpreter (one process fits many species one after the other): the same
    data, its own reference (T_ref2, HoRT_ref2, SoR_ref2) - whatever survives from one fit to the next (a buffer
    allocated once, a memoised result) shows up in one of the two species"""
    ci, owner, fn, kw = I.c03_again
    kw = dict(kw)
    kw.update({'name': 'sp2', 'T_ref': I.D.sym('T_ref2'), 'HoRT_ref': I.D.sym('HoRT_ref2'),
               'SoR_ref': I.D.sym('SoR_ref2')})
    return I.call_function(owner.module, fn, [], kw, self_obj=ci, owner=owner, name=owner.qual + '.from_data')


def evaluator(I, repo, fam, q, a, T, units=None):
    mod, prefix = EVAL[fam]
    m, f = public_function(repo, mod, prefix + q)
    if fam == 'shomate':
        arr = ListV([T])
        arr.is_array = True
        r = I.call_function(m, f, [], {'a': a, 'T': arr, 'units': units})
        return r.items[0] if isinstance(r, ListV) and len(r) == 1 else r
    return I.call_function(m, f, [], {'a': a, 'T': T})


def power_identity(I, repo, fam, vec, fc, x, T, g, units, owner):
    """(holds, Cp/R(T) of the species, fitted model at x(T)): the family's public Cp evaluator applied to the
    coefficient vector at the temperature ``T`` times the weight ``g`` of the fitted quantity equals the model that
    the recorded fit ``fc`` adjusted to the data, evaluated at the abscissa ``x`` (an expression in T)"""
    D = I.D
    if fc.kind == 'polyfit':
        model = C(0)
        for j, pj in zip(range(fc.deg, -1, -1), fc.params):
            model = model + pj * D.pow_sym(x, C(j)) if j else model + pj
    else:
        # curve_fit hands the model function the abscissa data as it received them (a float array)
        fr = Frame(I, owner.module, {}, None, None)
        model = fr.apply(fc.func, [Elem(x)] + list(fc.params), {}, fc.node)
        if isinstance(model, ListV) and len(model) == 1:
            model = model.items[0]
        if isinstance(model, Elem):
            model = model.r
    got = evaluator(I, repo, fam, 'CpoR', vec, T, units)
    ok = isinstance(got, Rat) and isinstance(model, Rat) and same(got * g, model)
    return ok, got, model


def vectors_of(I, fam, o):
    """[(label, coefficient vector)] of a fitted species, through its public attributes"""
    if fam == 'nasa':
        return [('a_low', pub(o, 'a_low')), ('a_high', pub(o, 'a_high'))]
    if fam == 'nasa9':
        segs = get_public(I, o, 'nasas')
        if not isinstance(segs, ListV):
            return []
        return [('nasas[%d].a' % k, pub(s_, 'a')) for k, s_ in enumerate(segs.items)]
    return [('a', pub(o, 'a'))]


def fit_of(I, vec, cp_slots):
    """the least-squares call whose parameters fill the heat-capacity slots of a coefficient vector"""
    ks = set()
    for i in cp_slots:
        if i < len(vec.items) and isinstance(vec.items[i], Rat):
            for a_ in vec.items[i].atoms():
                if a_.startswith('FIT#'):
                    ks.add(int(a_[4:].split('.')[0]))
    return sorted(ks)


_MIRROR = {'<': '>', '<=': '>=', '>': '<', '>=': '<='}


def mask_bounds(mask, is_data=None):
    """(lower (op, value) | None, upper (op, value) | None) of a mask on the temperature data.  A term is read as
    "data op bound" whichever side the data are written on (numpy evaluates ``T_mid >= T`` as the reflected
    ``T <= T_mid``): the data side is the operand that holds a data atom (``is_data``: the data atoms of the
    interpreter; the rule's own temperature vector is called Tdata)"""
    if is_data is None:
        is_data = lambda a_: a_.split('|')[0] == 'Tdata'

    def has_data(v):
        return isinstance(v, Rat) and any(is_data(a_) for a_ in v.atoms())
    lo = hi = None
    for op, a_, b_ in (mask.terms if mask is not None else []):
        if has_data(b_) and not has_data(a_):
            op, a_, b_ = _MIRROR.get(op, op), b_, a_
        if op in ('>', '>='):
            lo = (op, b_)
        elif op in ('<', '<='):
            hi = (op, b_)
    return lo, hi


FAMILIES = (('nasa', NASA + '.Nasa', lambda I: {'T_mid': I.D.sym('Tm')}, {'Tm': 3, 'T_ref': 2}),
            ('nasa9', NASA + '.Nasa9', None, {'MIN{(Tdata)}': 10, 'T_ref': 15, 'Tm0': 20, 'Tm1': 30, 'MAX{(Tdata)}': 100}),
            ('shomate', SHO + '.Shomate', lambda I: {'units': I.D.sym('units')}, {}))


def nasa9_extra(nseg):
    def f(I):
        v = ListV([I.D.sym('Tm%d' % k) for k in range(nseg - 1)])
        v.is_array = True
        return {'T_mid': v}
    return f


def fit_rules(run, repo, tables):
    """what comes back from the least-squares call lands where the evaluators expect it"""
    n_inst = 0
    for fam, qual, extra, ranks in FAMILIES:
        tab = tables[fam]
        cname = qual.split('.')[-1]
        con = '%s.%s.from_data' % (qual.split('.')[-2], cname)
        if fam == 'nasa9':
            extra = nasa9_extra(3)
        for kind in ('generic', 'const', 'zero', 'nan'):
            I, o, owner, fn = fitted(repo, qual, kind, extra, ranks)
            D = I.D
            units = D.sym('units') if fam == 'shomate' else None
            key0 = '%s data' % {'generic': 'generic', 'const': 'constant non-zero Cp', 'zero': 'all-zero Cp',
                                'nan': 'Cp with NaN'}[kind]
            if not isinstance(o, Obj):
                run.fail('SLOT.length', con, key0, 'from_data does not build a species for %s: %s' % (key0, show(o, 160)),
                         owner.module, o.node if isinstance(o, Raised) and hasattr(o.node, 'lineno') else fn)
                n_inst += 1
                continue
            vecs = vectors_of(I, fam, o)
            for label, vec in vecs:
                n_inst += 1
                key = '%s %s' % (key0, label)
                if not run.check(isinstance(vec, ListV) and len(vec) == tab['n'], 'SLOT.length', con, key,
                                 '%s has %s coefficients but the %s evaluators use %d (evaluation then indexes out of '
                                 'range or mis-assigns slots)' % (label, len(vec) if isinstance(vec, ListV) else show(vec),
                                                                  fam, tab['n']), owner.module, fn,
                                 sample={'family': fam, 'data': kind, 'vector': label}):
                    continue
                cp_slots = sorted(tab['powers'])
                if kind in ('zero', 'nan'):
                    # documented degenerate path: no heat capacity, the reference still anchors H and S (pipelines)
                    run.check(all(isinstance(vec.items[i], Rat) and vec.items[i].iszero() for i in cp_slots),
                              'SLOT.zero', con, key, 'with %s the heat-capacity coefficients must be zero: %s'
                              % (key0, show(vec, 160)), owner.module, fn)
                    continue
                ks = fit_of(I, vec, cp_slots)
                if not run.check(len(ks) == 1, 'REF.fit', con, key,
                                 'the heat-capacity coefficients of %s %s: %s' % (
                                     label, 'do not come from a least-squares fit of the data although the data are '
                                     'not degenerate' if not ks else 'mix the results of fits %s' % ks, show(vec, 200)),
                                 owner.module, fn):
                    continue
                fc = I.fit_calls[ks[0] - 1]
                x = fc.x.r if isinstance(fc.x, Elem) else None
                y = fc.y.r if isinstance(fc.y, Elem) else None
                cps = [a_ for a_ in (y.atoms() if isinstance(y, Rat) else []) if a_.split('|')[0] in ('cp', 'kc')]
                ts = [a_ for a_ in (x.atoms() if isinstance(x, Rat) else []) if a_.split('|')[0] == 'Tdata']
                # x: the temperature data or a function of them alone (T/1000, T - T0: the composition "model function
                # at x(T)" is compared below, not the spelling of the abscissa); y: a multiple of the Cp data
                okd = isinstance(x, Rat) and len(ts) == 1 and len(cps) == 1 and \
                    not any(I.data_kind.get(a_) is not None and a_ != ts[0] for a_ in x.atoms())
                if not run.check(okd, 'DATAFLOW.fit-data', con, key,
                                 'the least-squares call is not handed (a function of) the temperature data as x and a '
                                 'quantity proportional to the Cp data as y (x=%s, y=%s)'
                                 % (show(fc.x, 80), show(fc.y, 80)), owner.module, fc.node):
                    continue
                xm = ts[0].split('|', 1)[1] if '|' in ts[0] else ''
                ym = cps[0].split('|', 1)[1] if '|' in cps[0] else ''
                other_t = [a_ for a_ in y.atoms() if a_.split('|')[0] == 'Tdata' and a_ != ts[0]]
                run.check(xm == ym and not other_t, 'DATAFLOW.masks', con, key + ' x/y',
                          'temperatures and heat capacities of one fit are selected by different masks (%s vs %s): the '
                          'pairs are misaligned' % (xm or 'none', ym or 'none'), owner.module, fc.node)
                g = D.d(y, cps[0])
                if not (D.d(g, cps[0]).iszero() and y.eq(g * Rat.atom(cps[0]))):
                    run.fail('SLOT.power', con, key, 'the fitted quantity %s is not proportional to the Cp data'
                             % show(y, 120), owner.module, fc.node)
                    continue
                wrong = least_squares_problem(I, fc, varying_data(I))
                run.check(wrong is None, 'DATAFLOW.fit-weights', con, key,
                          'the fit of %s is not the least-squares fit of the data: %s' % (label, wrong),
                          owner.module, fc.node,
                          sample={'family': fam, 'vector': label, 'options': sorted(getattr(fc, 'options', {}))})
                ok, got, model = power_identity(I, repo, fam, vec, fc, x, Rat.atom(ts[0]), g, units, owner)
                run.check(ok, 'SLOT.power', con, key,
                          'the species evaluates Cp/R(T) = %s, but what was fitted to the data is %s%s: a fitted '
                          'coefficient sits in a slot whose basis is another power of T (or is scaled)'
                          % (show(got, 160), show(model, 160), '' if g.eq(C(1)) else ' divided by %s' % show(g, 40)),
                          owner.module, fc.node,
                          sample={'family': fam, 'vector': label, 'fitted': show(model, 200), 'weight': show(g, 40)})
            # the masks of consecutive fits partition the data (no point used twice, none dropped between segments)
            if kind == 'generic' and fam in ('nasa', 'nasa9'):
                bounds = []
                for label, vec in vecs:
                    ks = fit_of(I, vec, sorted(tab['powers'])) if isinstance(vec, ListV) else []
                    if len(ks) == 1:
                        bounds.append((label, mask_bounds(getattr(I.fit_calls[ks[0] - 1].x, 'mask', None)),
                                       I.fit_calls[ks[0] - 1].node))
                for (l1, (lo1, hi1), n1), (l2, (lo2, hi2), n2) in zip(bounds, bounds[1:]):
                    n_inst += 1
                    ok = hi1 is not None and lo2 is not None and same(hi1[1], lo2[1]) and \
                        {hi1[0], lo2[0]} in ({'<=', '>'}, {'<', '>='})
                    run.check(ok, 'DATAFLOW.masks', con, '%s | %s' % (l1, l2),
                              'the data of %s end at %s and those of %s start at %s: a data point on the break is used '
                              'twice or dropped (or the ranges do not meet)'
                              % (l1, '%s %s' % (hi1[0], show(hi1[1])) if hi1 else 'no upper bound', l2,
                                 '%s %s' % (lo2[0], show(lo2[1])) if lo2 else 'no lower bound'), owner.module, n2)
                if bounds and fam == 'nasa9':
                    lo0 = bounds[0][1][0]
                    if lo0 is not None and lo0[0] == '>' and same(lo0[1], D.sym('MIN{(Tdata)}')):
                        run.note('the lowest-temperature data point (T == min(T)) takes part in no NASA-9 fit: the first '
                                 'interval selects T > T_low (fit quality is not decided here)', owner.module,
                                 bounds[0][2])
    return n_inst


def bounded_data(I):
    """the instances below hand from_data data vectors of a known, small number of entries (arrays written out entry
    by entry); numpy's element-wise tests on data broadcast over such an array: the fit model's answer per entry"""
    fitmodel.install(I)
    scalar = {k: I.native['numpy.' + k] for k in ('isclose', 'isnan')}

    def arr(items):
        out = ListV(items)
        out.is_array = True
        return out

    def is_vec(v):
        return isinstance(v, ListV) and all(isinstance(x, Rat) for x in v.items)

    def isclose(I_, fr, args, kwargs, n):
        a, b = args[0], args[1]
        if is_vec(a) or is_vec(b):
            m = len(a) if is_vec(a) else len(b)
            if is_vec(a) and is_vec(b) and len(a) != len(b):
                raise _RaisedExc(Raised('ValueError', n))
            return arr([scalar['isclose'](I_, fr, [a.items[k] if is_vec(a) else a, b.items[k] if is_vec(b) else b]
                                          + list(args[2:]), kwargs, n) for k in range(m)])
        return scalar['isclose'](I_, fr, args, kwargs, n)

    def isnan(I_, fr, args, kwargs, n):
        if is_vec(args[0]):
            return arr([scalar['isnan'](I_, fr, [x], kwargs, n) for x in args[0].items])
        return scalar['isnan'](I_, fr, args, kwargs, n)

    base_allclose = I.native['numpy.allclose']

    def allclose(I_, fr, args, kwargs, n):
        if is_vec(args[0]) or is_vec(args[1]):
            return all(isclose(I_, fr, args, kwargs, n).items)
        return base_allclose(I_, fr, args, kwargs, n)
    I.native['numpy.isclose'] = isclose
    I.native['numpy.isnan'] = isnan
    I.native['numpy.allclose'] = allclose
    return I


def partly_zero_data(run, repo, tables):
    """heat capacities that vanish at the cold end of the grid only (an adsorbate whose vibrations are frozen out at
    T_low: Cp/R(100 K) of a 2000 cm^-1 mode is 1e-9) are data like any other: the Cp coefficients come from the
    least-squares fit, not from the shortcut for species without heat capacity.  Bounded instance: a concrete grid of
    15 temperatures, first Cp entry zero, the other 14 generic (Shomate, NASA-7 with the break at 800 K, NASA-9 with a
    break between 800 and 900 K)."""
    n = 0
    for fam, qual, extra in (('shomate', SHO + '.Shomate', lambda I: {'units': I.D.sym('units')}),
                             ('nasa', NASA + '.Nasa', lambda I: {'T_mid': C(800)}),
                             ('nasa9', NASA + '.Nasa9', lambda I: {'T_mid': as_array(ListV([I.D.sym('Tb0')]))})):
        ci = repo.cls(qual)
        owner, fn = repo.find_method(ci, 'from_data')
        con = '%s.%s.from_data' % (qual.split('.')[-2], qual.split('.')[-1])
        npts = 15
        I = Interp(repo, order=RankOrder({'T_ref': 400, 'Tb0': 850}, const_ranks=True, fallback=_fallback_rank))
        bounded_data(I)
        bounded_extract(I)
        D = I.D
        cp = [C(0)]
        for k in range(1, npts):
            I.data_kind['cp%d' % k] = 'generic'
            cp.append(D.sym('cp%d' % k))
        cp = ListV(cp)
        cp.is_array = True
        kw = {'name': 'sp', 'T': grid(100, 1500, npts), 'CpoR': cp, 'T_ref': D.sym('T_ref'),
              'HoRT_ref': D.sym('HoRT_ref'), 'SoR_ref': D.sym('SoR_ref')}
        kw.update(extra(I))
        o = I.call_function(owner.module, fn, [], kw, self_obj=ci, owner=owner, name=owner.qual + '.from_data')
        key = 'Cp zero at the first of %d temperatures only' % npts
        n += 1
        if not isinstance(o, Obj):
            run.fail('REF.fit', con, key, 'from_data does not build a species: %s' % show(o, 120), owner.module, fn)
            continue
        cp_slots = sorted(tables[fam]['powers'])
        for label, vec in vectors_of(I, fam, o):
            ks = fit_of(I, vec, cp_slots) if isinstance(vec, ListV) else []
            run.check(len(ks) == 1, 'REF.fit', con, '%s %s' % (key, label),
                      'the heat-capacity coefficients of %s %s: %s' % (
                          label, 'do not come from a least-squares fit of the data although only one of the %d heat '
                          'capacities is zero' % npts if not ks else 'mix the results of fits %s' % ks, show(vec, 200)),
                      owner.module, fn,
                      sample='%s(CpoR=[0, cp1, ..., cp14]) -> Cp coefficients from the fit' % con)
    return n


def candidate_search(run, repo, tables):
    """T_mid given as a list of candidates: the species is built from the candidate with the smallest fit error -
    break temperature, low and high coefficients all from the SAME candidate (the errors are uninterpreted positive
    numbers whose order is an instance parameter)"""
    qual = NASA + '.Nasa'
    cp_slots = sorted(tables['nasa']['powers'])
    n = 0
    for better in ('Tma', 'Tmb'):
        def fb(a_, better=better):
            if a_.startswith('MEAN{'):
                return 1 if better in a_ else 2
            return _fallback_rank(a_)
        I, o, owner, fn = fitted(repo, qual, 'generic',
                                 lambda I_: {'T_mid': ListV([I_.D.sym('Tma'), I_.D.sym('Tmb')])},
                                 {'Tma': 3, 'Tmb': 4, 'T_ref': 2}, fallback=fb)
        D = I.D
        key = 'two candidate breaks, %s fits better' % ('first' if better == 'Tma' else 'second')
        n += 1
        if not isinstance(o, Obj):
            run.fail('DATAFLOW.T_mid', 'nasa.Nasa.from_data', key, 'from_data does not build a species: %s' % show(o, 120),
                     owner.module, fn)
            continue
        tm = pub(o, 'T_mid')
        okv = True
        why = ''
        for label, vec, side in (('a_low', pub(o, 'a_low'), 'hi'), ('a_high', pub(o, 'a_high'), 'lo')):
            ks = fit_of(I, vec, cp_slots) if isinstance(vec, ListV) else []
            if len(ks) != 1:
                okv, why = False, '%s does not come from one fit' % label
                continue
            lo_, hi_ = mask_bounds(getattr(I.fit_calls[ks[0] - 1].x, 'mask', None))
            bnd = hi_ if side == 'hi' else lo_
            if bnd is None or not same(bnd[1], D.sym(better)):
                okv, why = False, '%s was fitted to the data split at %s' % (label, show(bnd[1]) if bnd else '?')
        run.check(same(tm, D.sym(better)) and okv, 'DATAFLOW.T_mid', 'nasa.Nasa.from_data', key,
                  'the species is built with T_mid=%s; %s - break temperature and both coefficient sets must come from '
                  'the candidate with the smallest error (%s)' % (show(tm), why or 'coefficients from that candidate',
                                                                   better), owner.module, fn,
                  sample='Nasa.from_data(T_mid=[Tma, Tmb]) with %s better -> T_mid=%s' % (better, better))
    return n


def _num(r):
    """value of a constant normal form, else None"""
    if isinstance(r, Rat) and r.iszero():
        return Fr(0)
    if isinstance(r, Rat) and r.is_const():
        return r.const_value()
    return None


def bounded_extract(I):
    """np.extract / a[mask] on arrays written out entry by entry (see bounded_data): the entries whose mask entry is
    True, in order - numpy's definition; vectors of unknown length go to the fit model as before"""
    base = I.native['numpy.extract']

    def extract(I_, fr, args, kwargs, n):
        pos = list(args)
        cond = kwargs['condition'] if 'condition' in kwargs else pos.pop(0)
        arr = kwargs['arr'] if 'arr' in kwargs else pos.pop(0)
        if isinstance(cond, ListV) and isinstance(arr, ListV) and all(isinstance(c_, bool) for c_ in cond.items):
            if len(cond) != len(arr):
                raise Unsupported('np.extract with a condition of another length than the array', n)
            out = ListV([x for x, keep in zip(arr.items, cond.items) if keep])
            out.is_array = True
            return out
        return base(I_, fr, args, kwargs, n)
    I.native['numpy.extract'] = extract
    return I


def affine_of(tv, xv):
    """(a, b) with x_k = a*T_k + b for all k (the abscissa a fit was given, against the temperatures of the same data
    points), None when the numbers are related otherwise"""
    if len(tv) != len(xv) or not tv or None in xv:
        return None
    if len(tv) == 1 or tv[0] == tv[-1]:
        return (Fr(1), Fr(0)) if list(xv) == list(tv) else None
    a_ = (xv[-1] - xv[0]) / (tv[-1] - tv[0])
    b_ = xv[0] - a_ * tv[0]
    return (a_, b_) if all(x == a_ * t + b_ for t, x in zip(tv, xv)) else None


def weight_law(D, tv, gs, Tq):
    """g(Tq) with g(T_k) = gs[k] for all data points of a fit: a constant, or c * T**p with an integer p (what the
    families use: Cp, Cp*T**2); None when the weights follow neither"""
    if not gs or any(not isinstance(g_, Rat) or g_.iszero() for g_ in gs):
        return None
    if all(g_.eq(gs[0]) for g_ in gs):
        return gs[0]
    ratios = []
    for g_ in gs:
        q = g_ / gs[0]
        if not q.is_const():
            return None
        ratios.append(q.const_value())
    for p_ in (1, 2, 3, 4, -1, -2, -3, -4):
        if all(r_ == (t / tv[0]) ** p_ for r_, t in zip(ratios, tv)):
            return gs[0] * C(Fr(1) / tv[0] ** p_) * D.pow_sym(Tq, C(p_))
    return None


def bounded_nasa(repo, t_mid, errs=None, npts=15):
    """Nasa.from_data on 15 temperatures 100 ... 1500 K written out entry by entry and 15 generic heat capacities
    cp0 ... cp14, ``t_mid`` = positions of the candidate breaks (a tuple: T_mid is the list of those temperatures; an
    int: T_mid is that one temperature).  The fit errors are uninterpreted positive numbers; ``errs`` gives their
    order per candidate (an error belongs to the candidate whose two fits it was computed from)."""
    ci = repo.cls(NASA + '.Nasa')
    owner, fn = repo.find_method(ci, 'from_data')
    T = grid(100, 1500, npts)
    tvals = [_num(x) for x in T.items]
    pos = t_mid if isinstance(t_mid, tuple) else (t_mid,)
    errs = errs or (1,) * len(pos)
    cands = [tvals[k] for k in pos]
    ranks = {'T_ref': 450, 'T_ref2': 1250}
    I = Interp(repo, order=RankOrder(ranks, const_ranks=True, fallback=_fallback_rank))
    bounded_data(I)
    bounded_extract(I)
    fit_options(I)
    D = I.D
    base_mean = I.native['numpy.mean']
    means = {}

    def candidate_of(v):
        ks = set()
        for x in v.items:
            ks |= {int(a_[4:].split('.')[0]) for a_ in x.atoms() if a_.startswith('FIT#')}
        xs = []
        for k in sorted(ks):
            fy = I.fit_calls[k - 1].y
            # the data points of a fit: read off the heat capacities it was given (cp<k> belongs to T[k])
            idx = [[int(a_[2:]) for a_ in y_.atoms() if a_.startswith('cp')] if isinstance(y_, Rat) else []
                   for y_ in fy.items] if isinstance(fy, ListV) else [[]]
            if not idx or any(len(i_) != 1 for i_ in idx):
                return None
            xs.append([tvals[i_[0]] for i_ in idx])
        if len(xs) != 2:
            return None
        xs.sort(key=min)
        hit = [c_ for c_ in cands if max(xs[0]) <= c_ <= min(xs[1])]
        return cands.index(hit[0]) if len(hit) == 1 else None

    def mean(I_, fr, args, kwargs, nd):
        v = kwargs['a'] if 'a' in kwargs else (args[0] if args else None)
        if isinstance(v, ListV) and v.items and all(isinstance(x, Rat) for x in v.items) and len(args) <= 1 \
                and not [k for k in kwargs if k != 'a']:
            if all(x.iszero() for x in v.items):
                return C(0)
            name = 'MEAN{bounded#%d}' % (len(means) + 1)
            means[name] = candidate_of(v)
            if means[name] is not None:
                ranks[name] = errs[means[name]]
            return I_.D.sym(name)
        return base_mean(I_, fr, args, kwargs, nd)
    I.native['numpy.mean'] = mean
    cps = []
    for k in range(npts):
        I.data_kind['cp%d' % k] = 'generic'
        cps.append(D.sym('cp%d' % k))
    cp = as_array(ListV(cps))
    kw = {'name': 'sp', 'T': T, 'CpoR': cp, 'T_ref': D.sym('T_ref'), 'HoRT_ref': D.sym('HoRT_ref'),
          'SoR_ref': D.sym('SoR_ref'),
          'T_mid': ListV([C(c_) for c_ in cands]) if isinstance(t_mid, tuple) else C(cands[0])}
    given = [('T', T, list(T.items)), ('CpoR', cp, list(cp.items))]
    o = I.call_function(owner.module, fn, [], kw, self_obj=ci, owner=owner, name=owner.qual + '.from_data')
    I.c03_again = (ci, owner, fn, dict(kw))
    return I, o, tvals, given, owner, fn


def bounded_vector(run, I, repo, fam, tab, con, key, label, vec, tvals, want, units, owner, fn):
    """one coefficient vector of a species fitted on a written-out grid: it has the evaluator's length, its
    heat-capacity slots come from ONE fit, that fit was given exactly the data points ``want`` (a list of admissible
    index lists) - heat capacities and abscissae of the same points, the abscissa a function of the temperature, the
    ordinate one multiple of the heat capacity, no weights - and the family's public Cp evaluator applied to the vector
    is the model that was fitted (as for data of unknown length in fit_rules; here the NUMBER of points is known to the
    code).  -> (complaints about the data of the fit - the caller words that finding -, data points of the fit | None);
    SLOT.* and DATAFLOW.fit-weights are reported here"""
    D = I.D
    cp_slots = sorted(tab['powers'])
    npts = len(tvals)
    if not run.check(isinstance(vec, ListV) and len(vec) == tab['n'], 'SLOT.length', con, '%s %s' % (key, label),
                     '%s has %s coefficients but the %s evaluators use %d'
                     % (label, len(vec) if isinstance(vec, ListV) else show(vec), fam, tab['n']), owner.module, fn):
        return [], None
    ks = fit_of(I, vec, cp_slots)
    if len(ks) != 1:
        return ['%s does not come from one fit' % label], None
    fc = I.fit_calls[ks[0] - 1]
    xv = [_num(t) for t in fc.x.items] if isinstance(fc.x, ListV) else None
    yv = [sorted(a_ for a_ in y_.atoms() if a_.startswith('cp')) if isinstance(y_, Rat) else None
          for y_ in fc.y.items] if isinstance(fc.y, ListV) else None
    if not xv or None in xv or yv is None or len(yv) != len(xv) or any(not y_ or len(y_) != 1 for y_ in yv):
        return ['%s comes from a fit of %s against %s' % (label, show(fc.x, 60), show(fc.y, 60))], None
    idx = [int(y_[0][2:]) for y_ in yv]
    why = []
    if idx not in want:
        why.append('%s was fitted to the data points %s, not to the points %s'
                   % (label, idx, ' or '.join('%d..%d' % (w[0], w[-1]) if w else 'none' for w in want)))
    # the abscissa of data point k is (a function of) its temperature
    ab = affine_of([tvals[k] for k in idx], xv)
    if ab is None:
        if len(set(xv)) == len(xv) and sorted(xv) in (xv, xv[::-1]):
            raise Unsupported('abscissa of the fit of %s is a non-linear function of the temperatures' % label, fc.node)
        return why + ['the heat capacities of the fit of %s are not those of its temperatures' % label], idx
    if len(idx) == 1 and ab != (Fr(1), Fr(0)):
        raise Unsupported('abscissa of a one-point fit', fc.node)
    # y_k = g(T_k) * cp_k: one weight for all points, or a power of the temperature (NASA-9 fits Cp*T^2)
    gs = [D.d(y_, 'cp%d' % k) for y_, k in zip(fc.y.items, idx)]
    Tq = D.sym('Tq')
    gq = weight_law(D, [tvals[k] for k in idx], gs, Tq)
    if gq is None or not all(y_.eq(g_ * D.sym('cp%d' % k)) for g_, y_, k in zip(gs, fc.y.items, idx)):
        run.fail('SLOT.power', con, '%s %s' % (key, label), 'the fitted quantity %s is not the Cp data the caller '
                 'supplied times one weight (a constant or a power of the temperature)' % show(fc.y, 160),
                 owner.module, fc.node)
        return why, idx
    wrong = least_squares_problem(I, fc, varying_data(I))
    run.check(wrong is None, 'DATAFLOW.fit-weights', con, '%s %s' % (key, label),
              'the fit of %s is not the least-squares fit of the data: %s' % (label, wrong), owner.module, fc.node)
    ok, got, model = power_identity(I, repo, fam, vec, fc, Tq * C(ab[0]) + C(ab[1]), Tq, gq, units, owner)
    run.check(ok, 'SLOT.power', con, '%s %s' % (key, label),
              'the species evaluates Cp/R(T) = %s, but what was fitted to the %d data points is %s%s: a fitted '
              'coefficient sits in a slot whose basis is another power of T (or is scaled)'
              % (show(got, 160), len(idx), show(model, 160), '' if gq.eq(C(1)) else ' divided by %s' % show(gq, 40)),
              owner.module, fc.node,
              sample={'family': fam, 'vector': label, 'points': len(idx), 'fitted': show(model, 200)})
    return why, idx


def bounded_segments(run, I, repo, tables, o, tvals, win, key, owner, fn):
    """the two coefficient vectors of a NASA-7 species fitted on the written-out grid against the break T[win]:
    a_low is the fit of exactly the data points up to that break and a_high the fit of the others (either convention
    for the point ON the break), see bounded_vector.  -> list of complaints about the split (the caller words the
    finding)"""
    npts = len(tvals)
    why = []
    want = [list(range(0, m)) for m in (win, win + 1)]
    for label, side in (('a_low', 'low'), ('a_high', 'high')):
        w, idx = bounded_vector(run, I, repo, 'nasa', tables['nasa'], 'nasa.Nasa.from_data', key, label, pub(o, label),
                                tvals, want, None, owner, fn)
        why += ['%s (break T[%d])' % (x, win) for x in w]
        if side == 'low':
            want = [list(range(len(idx), npts))] if idx is not None and idx in want else \
                [list(range(m, npts)) for m in (win, win + 1)]
    return why


def shomate_written_out(run, repo, tables):
    """a user fits one data set several times (another unit, another family): 15 temperatures and 15 generic heat
    capacities written out entry by entry are handed to Shomate.from_data in one fitting unit and then - the SAME array
    objects - in another.  After each call the arrays hold what they held before; each species is the unweighted fit of
    all 15 (T, Cp) pairs, evaluates the model that was fitted, and reproduces its reference."""
    ci = repo.cls(SHO + '.Shomate')
    owner, fn = repo.find_method(ci, 'from_data')
    con = 'shomate.Shomate.from_data'
    tab = tables['shomate']
    npts = 15
    I = Interp(repo, order=RankOrder({'T_ref': 450, 'T_ref2': 1250}, const_ranks=True, fallback=_fallback_rank))
    bounded_data(I)
    bounded_extract(I)
    fit_options(I)
    I.token_syms.add('units2')
    D = I.D
    T = grid(100, 1500, npts)
    tvals = [_num(x) for x in T.items]
    cps = []
    for k in range(npts):
        I.data_kind['cp%d' % k] = 'generic'
        cps.append(D.sym('cp%d' % k))
    cp = as_array(ListV(cps))
    given = [('T', T, list(T.items)), ('CpoR', cp, list(cp.items))]
    n = 0
    for sfx, which in (('', ''), ('2', ' [second species fitted from the same arrays, in another unit]')):
        units = D.sym('units' + sfx)
        kw = {'name': 'sp' + sfx, 'T': T, 'CpoR': cp, 'T_ref': D.sym('T_ref' + sfx), 'HoRT_ref': D.sym('HoRT_ref' + sfx),
              'SoR_ref': D.sym('SoR_ref' + sfx), 'units': units}
        o = I.call_function(owner.module, fn, [], kw, self_obj=ci, owner=owner, name=owner.qual + '.from_data')
        key = '%d temperatures and heat capacities written out%s' % (npts, which)
        n += 1
        if not isinstance(o, Obj):
            run.fail('SLOT.power', con, key, 'from_data does not build a species: %s' % show(o, 120), owner.module, fn)
            break
        n += data_intact(run, con, key, given, owner, fn)
        a = pub(o, 'a')
        why, _idx = bounded_vector(run, I, repo, 'shomate', tab, con, key, 'a', a, tvals, [list(range(npts))], units,
                                   owner, fn)
        run.check(not why, 'DATAFLOW.fit-data', con, key, '%s - the species is the fit of all %d (T, Cp) pairs'
                  % ('; '.join(why), npts), owner.module, fn,
                  sample='Shomate.from_data(T=linspace(100, 1500, 15), CpoR=[cp0 ... cp14], units)%s' % which)
        if isinstance(a, ListV) and len(a) == tab['n']:
            Tref = D.sym('T_ref' + sfx)
            H = evaluator(I, repo, 'shomate', 'HoRT', a, Tref, units)
            S = evaluator(I, repo, 'shomate', 'SoR', a, Tref, units)
            run.check(same(H, D.sym('HoRT_ref' + sfx)), 'ANCHOR.H', con, key, 'H/RT(T_ref) = %s, not HoRT_ref'
                      % show(H), owner.module, fn)
            run.check(same(S, D.sym('SoR_ref' + sfx)), 'ANCHOR.S', con, key, 'S/R(T_ref) = %s, not SoR_ref'
                      % show(S), owner.module, fn)
            run.check(same(pub(o, 'T_low'), C(tvals[0])) and same(pub(o, 'T_high'), C(tvals[-1])), 'DATAFLOW.bounds',
                      con, key, 'temperature bounds are (%s, %s), not the span of the data'
                      % (show(pub(o, 'T_low')), show(pub(o, 'T_high'))), owner.module, fn)
            n += 3
    return n


def nasa9_written_out(run, repo, tables):
    """NASA-9 on the smallest grid of the property (15 temperatures 100 ... 1500 K and 15 generic heat capacities,
    written out entry by entry, so that the NUMBER of points per interval is known to the code): one interval, two
    (a break Tb0 between 800 and 900 K) and three (breaks between 500 and 600 K and between 1000 and 1100 K: four to
    five points per interval, fewer than the seven coefficients fitted); the breaks are symbols ranked between two
    neighbouring data points.  Every interval's vector has the evaluator's length and evaluates the model that was fitted to exactly the
    data points of that interval (either convention for a point ON a bound; consecutive intervals share no point and
    drop none between them); the species is anchored (T_ref = 450 K, first interval), H and S join at every break, the
    bounds are the span of the data; the caller's arrays are left as they were; a second species fitted from the same
    arrays likewise."""
    ci = repo.cls(NASA + '.Nasa9')
    owner, fn = repo.find_method(ci, 'from_data')
    con = 'nasa.Nasa9.from_data'
    tab = tables['nasa9']
    npts = 15
    n = 0
    for breaks in ((), (7,), (4, 9)):
        ranks = {'T_ref': 450, 'T_ref2': 350}
        ranks.update({'Tb%d' % j: 50 + 100 * (k + 1) for j, k in enumerate(breaks)})
        I = Interp(repo, order=RankOrder(ranks, const_ranks=True, fallback=_fallback_rank))
        bounded_data(I)
        bounded_extract(I)
        fit_options(I)
        D = I.D
        T = grid(100, 1500, npts)
        tvals = [_num(x) for x in T.items]
        cps = []
        for k in range(npts):
            I.data_kind['cp%d' % k] = 'generic'
            cps.append(D.sym('cp%d' % k))
        cp = as_array(ListV(cps))
        tbs = [D.sym('Tb%d' % j) for j in range(len(breaks))]
        tm = as_array(ListV(list(tbs)))
        given = [('T', T, list(T.items)), ('CpoR', cp, list(cp.items)), ('T_mid', tm, list(tm.items))]
        key0 = '%d temperatures written out, %d interval(s)%s' % (
            npts, len(breaks) + 1, ', break(s) %s' % ', '.join('between T[%d] and T[%d]' % (k, k + 1) for k in breaks) if breaks else '')
        for sfx, which in (('', ''), ('2', SECOND)):
            key = key0 + which
            kw = {'name': 'sp' + sfx, 'T': T, 'CpoR': cp, 'T_ref': D.sym('T_ref' + sfx),
                  'HoRT_ref': D.sym('HoRT_ref' + sfx), 'SoR_ref': D.sym('SoR_ref' + sfx), 'T_mid': tm}
            o = I.call_function(owner.module, fn, [], kw, self_obj=ci, owner=owner, name=owner.qual + '.from_data')
            n += 1
            segs = get_public(I, o, 'nasas') if isinstance(o, Obj) else None
            if not run.check(isinstance(segs, ListV) and len(segs) == len(breaks) + 1, 'DATAFLOW.segments', con, key,
                             'expected a species of %d interval(s), got %s' % (len(breaks) + 1, show(
                                 segs if segs is not None else o, 120)), owner.module, fn):
                break
            n += data_intact(run, con, key, given, owner, fn)
            why = []
            edges = [-1] + list(breaks) + [npts - 1]
            bnds = [C(tvals[0])] + tbs + [C(tvals[-1])]
            prev_end = None
            A = []
            for j, s_ in enumerate(segs.items):
                # data points of interval j: those between its bounds; at the ends of the data either convention (the
                # code as it stands leaves the first data point out, see the NOTE of fit_rules)
                first = (0, 1) if j == 0 else (prev_end + 1,)
                last = (npts - 2, npts - 1) if j == len(breaks) else (edges[j + 1],)
                want = [list(range(a_, b_ + 1)) for a_ in first for b_ in last]
                vec = pub(s_, 'a')
                A.append(vec)
                w, idx = bounded_vector(run, I, repo, 'nasa9', tab, con, key, 'nasas[%d].a' % j, vec, tvals, want, None,
                                        owner, fn)
                why += w
                prev_end = edges[j + 1]
                bl, bh = bnds[j], bnds[j + 1]
                run.check(same(pub(s_, 'T_low'), bl) and same(pub(s_, 'T_high'), bh), 'DATAFLOW.bounds', con,
                          '%s interval %d' % (key, j), 'interval %d spans (%s, %s), not (%s, %s)'
                          % (j, show(pub(s_, 'T_low')), show(pub(s_, 'T_high')), show(bl), show(bh)), owner.module, fn)
            run.check(not why, 'DATAFLOW.fit-data', con, key, '%s - every interval is the fit of the data points between '
                      'its bounds' % '; '.join(why), owner.module, fn,
                      sample='Nasa9.from_data(T=linspace(100, 1500, 15), T_mid=%s)%s'
                      % ([show(t_) for t_ in tbs], which))
            n += 1 + len(segs.items)
            if not all(isinstance(v, ListV) and len(v) == tab['n'] for v in A):
                continue
            H = lambda a, T_: evaluator(I, repo, 'nasa9', 'HoRT', a, T_)
            S = lambda a, T_: evaluator(I, repo, 'nasa9', 'SoR', a, T_)
            Tref = D.sym('T_ref' + sfx)
            run.check(same(H(A[0], Tref), D.sym('HoRT_ref' + sfx)), 'ANCHOR.H', con, key,
                      'H/RT(T_ref) = %s, not HoRT_ref (T_ref in the first interval)' % show(H(A[0], Tref), 120),
                      owner.module, fn)
            run.check(same(S(A[0], Tref), D.sym('SoR_ref' + sfx)), 'ANCHOR.S', con, key,
                      'S/R(T_ref) is not SoR_ref (T_ref in the first interval)', owner.module, fn)
            okc = all(same(H(A[j], t_), H(A[j + 1], t_)) and same(S(A[j], t_), S(A[j + 1], t_))
                      for j, t_ in enumerate(tbs))
            run.check(okc, 'CONT.H', con, key, 'H or S is discontinuous at a break temperature', owner.module, fn)
            run.check(same(get_public(I, o, 'T_low'), C(tvals[0])) and same(get_public(I, o, 'T_high'), C(tvals[-1])),
                      'DATAFLOW.bounds', con, key, 'the species reports the bounds (%s, %s), not the span of the data'
                      % (show(get_public(I, o, 'T_low'), 40), show(get_public(I, o, 'T_high'), 40)), owner.module, fn)
            n += 4
    return n


def bounded_candidates(run, repo, tables):
    """T_mid given as a list of candidates on a grid small enough that the NUMBER of data points on either side of a
    candidate matters (the code looks at it): 15 temperatures 100 ... 1500 K written out entry by entry, 15 generic
    heat capacities, three candidates of which one leaves fewer than five points on one side.  The fit errors are
    uninterpreted positive numbers whose order is the instance parameter; an error belongs to the candidate whose
    two fits it was computed from.  Expectation (documented contract of T_mid as a list, as in candidate_search):
    the species has the break of the candidate with the smallest error, a_low is the fit of exactly the data points
    up to that break and a_high the fit of the others; and every clause decided on data of unknown length holds for
    this species too (slots, anchor, continuity, bounds; the caller's arrays are left as they were)."""
    cp_slots = sorted(tables['nasa']['powers'])
    npts = 15
    n = 0
    for pos, errs in (((1, 7, 9), (3, 2, 1)), ((5, 7, 13), (2, 1, 3)), ((1, 7, 9), (1, 2, 3)), ((11, 5, 7), (3, 2, 1))):
        win = pos[errs.index(min(errs))]
        small = [k for k in pos if min(k + 1, npts - 1 - k) < 5][0]
        I, o, tvals, given, owner, fn = bounded_nasa(repo, pos, errs, npts)
        cands = [tvals[k] for k in pos]
        key = '%d temperatures, candidates T[%d], T[%d], T[%d], smallest error at T[%d]' % ((npts,) + pos + (win,))
        n += 1
        if not isinstance(o, Obj):
            run.fail('DATAFLOW.T_mid', 'nasa.Nasa.from_data', key, 'from_data does not build a species: %s'
                     % show(o, 120), owner.module, fn)
            continue
        tm = pub(o, 'T_mid')
        why = []
        if _num(tm) != tvals[win]:
            why.append('the species is built with T_mid=%s' % show(tm))
        why += bounded_segments(run, I, repo, tables, o, tvals, win, key, owner, fn)
        run.check(not why, 'DATAFLOW.T_mid', 'nasa.Nasa.from_data', key,
                  '%s - break temperature and both coefficient sets must come from the candidate with the smallest '
                  'error, T[%d] = %s K (errors of the candidates in the order %s; candidate T[%d] leaves %d of %d '
                  'data points on one side)' % ('; '.join(why), win, tvals[win], errs, small,
                                                 min(small + 1, npts - 1 - small), npts),
                  owner.module, fn,
                  sample='Nasa.from_data(T=linspace(100, 1500, 15), T_mid=%s) errors %s -> T_mid=%s'
                  % ([str(c_) for c_ in cands], errs, tvals[win]))
        n += data_intact(run, 'nasa.Nasa.from_data', key, given, owner, fn)
        if _num(tm) is not None:
            n += nasa7_species(run, I, repo, o, key, -1 if _num(tm) >= 450 else 1, '', cp_slots, owner, fn,
                               bounds=(C(tvals[0]), C(tvals[-1])))
    return n


def small_segments(run, repo, tables):
    """ONE break temperature next to an end of the smallest grid of the property (n_T = 15): T_mid = T[3] leaves four
    data points up to the break, T_mid = T[11] three above it, T_mid = T[1] two - fewer than the five a quartic needs,
    the case the code warns about.  Whatever is fitted to so few points (a quartic through them, a polynomial of lower
    degree), the species evaluates the polynomial that was fitted, is anchored and continuous, keeps the break and
    spans the data; a second species fitted from the same arrays likewise."""
    cp_slots = sorted(tables['nasa']['powers'])
    npts = 15
    n = 0
    for k in (3, 11, 1):
        I, o, tvals, given, owner, fn = bounded_nasa(repo, k, None, npts)
        below = k + 1
        key = '%d temperatures, T_mid = T[%d] (%d data points %s the break)' % (
            npts, k, min(below, npts - below), 'up to' if below < npts - below else 'above')
        n += 1
        if not isinstance(o, Obj):
            run.fail('SLOT.power', 'nasa.Nasa.from_data', key, 'from_data does not build a species: %s'
                     % show(o, 120), owner.module, fn)
            continue
        n += data_intact(run, 'nasa.Nasa.from_data', key, given, owner, fn)
        o2 = fitted_again(I)
        for sp, sfx, which in ((o, '', ''), (o2, '2', SECOND)):
            if not isinstance(sp, Obj):
                run.fail('SLOT.power', 'nasa.Nasa.from_data', key + which, 'from_data does not build a species: %s'
                         % show(sp, 120), owner.module, fn)
                continue
            why = bounded_segments(run, I, repo, tables, sp, tvals, k, key + which, owner, fn)
            run.check(not why, 'DATAFLOW.fit-data', 'nasa.Nasa.from_data', key + which,
                      '%s - with T_mid = T[%d] = %s K a_low is the fit of the data points up to the break and a_high '
                      'the fit of the others' % ('; '.join(why), k, tvals[k]), owner.module, fn,
                      sample='Nasa.from_data(T=linspace(100, 1500, 15), T_mid=%s)%s' % (tvals[k], which))
            tref = 450 if not sfx else 1250
            n += nasa7_species(run, I, repo, sp, key + which, -1 if tvals[k] >= tref else 1, sfx, cp_slots, owner, fn,
                               want_tm=C(tvals[k]), bounds=(C(tvals[0]), C(tvals[-1])))
    return n


class GridVec(fitmodel.DataVec):
    """generic temperature data on an ascending grid of a KNOWN number of points: as a whole it is a data vector like
    any other (masks, np.extract, least squares), but single entries and slices are the entries at those positions
    (T[5:-5] of 15 points is the list T[5] ... T[9]); entry k is ranked base + k for the ordering oracle"""

    def __init__(self, r, npts, ranks, base):
        fitmodel.DataVec.__init__(self, r, 'generic')
        self.npts, self.ranks, self.base = npts, ranks, base
        self.entries = {}

    def entry(self, fr, k, n):
        v = fr.getitem(self, C(k), n)
        for a_ in v.atoms():
            self.ranks[a_] = self.base + k
            self.entries[a_] = k
        return v

    def pmv_getitem(self, I, fr, idx, n):
        def const_int(x):
            if x is None:
                return None
            v = fr.ev(x)
            if isinstance(v, Rat) and v.iszero():
                return 0
            if isinstance(v, Rat) and v.is_const() and v.const_value().denominator == 1:
                return int(v.const_value())
            sl = v.split_linear('len<vec>') if isinstance(v, Rat) else None     # len(T) - 5: the grid has npts points
            if sl is not None and all(p.iszero() or (p.is_const() and p.const_value().denominator == 1) for p in sl):
                co, rest = [0 if p.iszero() else int(p.const_value()) for p in sl]
                return co * self.npts + rest
            raise Unsupported('slice of the temperature data with symbolic bounds', n)
        if isinstance(n.slice, ast.Slice):
            ks = range(self.npts)[const_int(n.slice.lower):const_int(n.slice.upper):const_int(n.slice.step)]
            out = ListV([self.entry(fr, k, n) for k in ks])
            out.is_array = True
            return out
        if isinstance(idx, Rat) and (idx.iszero() or (idx.is_const() and idx.const_value().denominator == 1)):
            k = 0 if idx.iszero() else int(idx.const_value())
            if not -self.npts <= k < self.npts:
                raise _RaisedExc(Raised('IndexError', n))
            return self.entry(fr, k % self.npts, n)
        return fr.getitem(self, idx, n)


def default_break_search(run, repo):
    """T_mid not given: from_data screens data points by itself.  Bounded instance: generic Cp data on an ascending
    grid of 15 temperatures (the smallest n_T of the property), the fit error (an uninterpreted positive number per
    candidate) growing resp. falling with the candidate temperature - then the lowest resp. highest candidate that is
    screened becomes the break, and it must lie strictly inside the span of the data."""
    ci = repo.cls(NASA + '.Nasa')
    owner, fn = repo.find_method(ci, 'from_data')
    npts, base = 15, 100
    n = 0
    for trend in ('grows', 'falls'):
        ranks = {'len<vec>': 1000, 'cp': 1, 'T_ref': Fr(2 * base + 5, 2), 'MIN{(Tdata)}': base,
                 'MAX{(Tdata)}': base + npts - 1}
        holder = {}

        def fb(a_, trend=trend, holder=holder):
            if a_.startswith('MEAN{'):
                # the error of the fit split at candidate T[k] (the candidate is named in the masks of the residual)
                ks = sorted({k for nm, k in holder['T'].entries.items() if nm in a_})
                if len(ks) != 1:
                    return None
                return 1 + ks[0] if trend == 'grows' else 1 + npts - ks[0]
            return None
        I = Interp(repo, order=RankOrder(ranks, const_ranks=True, fallback=fb))
        fitmodel.install(I)
        D = I.D
        I.data_kind['Tdata'] = 'generic'
        holder['T'] = GridVec(D.sym('Tdata'), npts, ranks, base)
        kw = {'name': 'sp', 'T': holder['T'], 'CpoR': fitmodel.data_vector(I, 'cp', 'generic'),
              'T_ref': D.sym('T_ref'), 'HoRT_ref': D.sym('HoRT_ref'), 'SoR_ref': D.sym('SoR_ref')}
        o = I.call_function(owner.module, fn, [], kw, self_obj=ci, owner=owner, name=owner.qual + '.from_data')
        key = 'no T_mid given, %d temperatures, fit error %s with the candidate break' % (npts, trend)
        n += 1
        if not isinstance(o, Obj):
            run.fail('REF.break-inside', 'nasa.Nasa.from_data', key, 'from_data does not build a species: %s'
                     % show(o, 120), owner.module, fn)
            continue
        tm = pub(o, 'T_mid')
        order = I.order
        lo_ok = order(tm, '>', D.sym('MIN{(Tdata)}')) if isinstance(tm, Rat) else None
        hi_ok = order(tm, '<', D.sym('MAX{(Tdata)}')) if isinstance(tm, Rat) else None
        if lo_ok is None or hi_ok is None:
            raise Unsupported('the break temperature chosen by Nasa.from_data without T_mid is not an entry of the '
                              'temperature data: %s' % show(tm, 120))
        k = holder['T'].entries.get(next(iter(tm.atoms())))
        run.check(lo_ok and hi_ok, 'REF.break-inside', 'nasa.Nasa.from_data', key,
                  'the break temperature is data point %s of %d (ascending): on the %s bound of the fitted species, one '
                  'segment is fitted to no data at all; the candidates screened must be interior data points'
                  % (k, npts, 'lower' if not lo_ok else 'upper'), owner.module, fn,
                  sample='Nasa.from_data(T_mid=None), 15 points, error %s -> T_mid = T[%s]' % (trend, k))
    return n


def only_fit_atoms(vec, slots):
    """the heat-capacity slots hold nothing but what the least-squares call returned (or zero)"""
    return all(isinstance(vec.items[i], Rat) and all(a_.startswith('FIT#') for a_ in vec.items[i].atoms())
               for i in slots)


def nasa7_species(run, I, repo, sp, label, side, sfx, cp_slots, owner, fn, want_tm=None, bounds=None):
    """the clauses of the property on ONE fitted NASA-7 species, read through its public attributes: anchored at its
    reference (T_ref below / at / above the break: ``side`` < / = / > 0), H and S continuous at the break, the
    heat-capacity slots exactly what the fit returned, break as expected (``want_tm``) and a number, bounds = span of
    the data.  Returns the number of obligations."""
    D = I.D
    con = 'nasa.Nasa.from_data'
    Tref, Href, Sref = D.sym('T_ref' + sfx), D.sym('HoRT_ref' + sfx), D.sym('SoR_ref' + sfx)
    if not isinstance(sp, Obj):
        run.fail('ANCHOR.H', con, label, 'from_data does not build a species: %s' % show(sp, 120), owner.module,
                 sp.node if isinstance(sp, Raised) and hasattr(sp.node, 'lineno') else fn)
        return 1
    al, ah = pub(sp, 'a_low'), pub(sp, 'a_high')
    tm = pub(sp, 'T_mid')
    if not run.check(isinstance(tm, Rat) and isinstance(al, ListV) and isinstance(ah, ListV), 'DATAFLOW.T_mid', con,
                     label, 'the species is built with T_mid=%s, a_low=%s, a_high=%s: the break must be one '
                     'temperature and the coefficients two vectors' % (show(tm, 60), show(al, 60), show(ah, 60)),
                     owner.module, fn):
        return 1
    H = lambda a, T: evaluator(I, repo, 'nasa', 'HoRT', a, T)
    S = lambda a, T: evaluator(I, repo, 'nasa', 'SoR', a, T)
    seg = al if side <= 0 else ah
    segname = 'low' if side <= 0 else 'high'
    # at T_ref == T_mid either segment may carry the anchor (they join there)
    okH = same(H(seg, Tref), Href) or (side == 0 and same(H(ah, Tref), Href))
    okS = same(S(seg, Tref), Sref) or (side == 0 and same(S(ah, Tref), Sref))
    run.check(okH, 'ANCHOR.H', con, label,
              'H/RT of the fitted species at T_ref (%s segment) is %s, not HoRT_ref'
              % (segname, show(H(seg, Tref))), owner.module, fn,
              sample='Nasa.from_data: H(T_ref)=HoRT_ref, %s' % label)
    run.check(okS, 'ANCHOR.S', con, label,
              'S/R of the fitted species at T_ref (%s segment) is %s, not SoR_ref'
              % (segname, show(S(seg, Tref))), owner.module, fn)
    run.check(same(H(al, tm), H(ah, tm)), 'CONT.H', con, label,
              'H is discontinuous at T_mid: low %s vs high %s' % (show(H(al, tm)), show(H(ah, tm))),
              owner.module, fn)
    run.check(same(S(al, tm), S(ah, tm)), 'CONT.S', con, label,
              'S is discontinuous at T_mid', owner.module, fn)
    # the Cp fit is left untouched and only the integration-constant slots are written
    run.check(only_fit_atoms(al, cp_slots) and only_fit_atoms(ah, cp_slots), 'DATAFLOW.cp-slots',
              con, label, 'a heat-capacity coefficient was modified while anchoring H and S',
              owner.module, fn)
    run.check(want_tm is None or same(tm, want_tm), 'DATAFLOW.T_mid', con, label,
              'the species is built with T_mid=%s, not the break temperature the data were split at' % show(tm),
              owner.module, fn)
    lo, hi = bounds if bounds is not None else (D.sym('MIN{(Tdata)}'), D.sym('MAX{(Tdata)}'))
    run.check(same(pub(sp, 'T_low'), lo) and same(pub(sp, 'T_high'), hi), 'DATAFLOW.bounds', con,
              label, 'temperature bounds are (%s, %s), not the span (min, max) of the data'
              % (show(pub(sp, 'T_low')), show(pub(sp, 'T_high'))), owner.module, fn)
    return 8


def data_intact(run, con, label, given, owner, fn):
    """the caller's data arrays are inputs: after from_data they hold what they held before (a user fits the next
    species - another family, another unit - from the same arrays).  ``given`` = [(name, vector, entries before)]"""
    for name, vec, before in given:
        now = vec.items if isinstance(vec, ListV) else [vec.r]
        ok = len(now) == len(before) and all(
            (isinstance(x, Rat) and isinstance(y, Rat) and x.eq(y)) or x is y for x, y in zip(now, before))
        run.check(ok, 'DATAFLOW.data-intact', con, '%s %s' % (label, name),
                  'after from_data the caller\'s %s array holds %s instead of %s: the data were changed in place, the '
                  'species fitted next from the same array is fitted to other numbers'
                  % (name, show(vec, 100), show(ListV(list(before)) if len(before) != 1 else before[0], 100)),
                  owner.module, fn)
    return len(given)


def as_array(v):
    v.is_array = True
    v.dtype = 'float'
    return v


def entries(vec):
    return list(vec.items) if isinstance(vec, ListV) else [vec.r]


NASA7_FORMS = (('generic', 'scalar', ''), ('zero', 'none', ' [all-zero Cp data]'),
               ('zero', 'scalar', ' [all-zero Cp data, T_mid one temperature]'),
               ('zero', 'array', ' [all-zero Cp data, T_mid two candidates]'))
# the same candidates as a plain Python list: its own group of instances (check), because the interpreter does not yet
# decide what an ordering comparison of a number with a list does (Python raises TypeError), see REQ3_C03 item 3
NASA7_LIST_FORM = (('zero', 'list', ' [all-zero Cp data, T_mid a list of two candidates]'),)


def nasa7_pipeline(run, repo, tables, forms=NASA7_FORMS):
    ci = repo.cls(NASA + '.Nasa')
    owner, fn = repo.find_method(ci, 'from_data')
    run.fn(owner.qual + '.from_data')
    tab = tables['nasa']
    cp_slots = sorted(tab['powers'])
    n = 0
    # all-zero Cp data with every documented form of T_mid (None, one temperature, a list of candidates): the
    # degenerate path still has to deliver an anchored, continuous species with ONE break temperature - whether that
    # is the user's value, one of the candidates or a data point is left open, all of them are ranked alike
    for (label0, rank), (kind, form, tag) in itertools.product(
            (('T_ref<T_mid', 2), ('T_ref=T_mid', 3), ('T_ref>T_mid', 4)), forms):
        extra = {'none': None, 'scalar': lambda I_: {'T_mid': I_.D.sym('Tm')},
                 'array': lambda I_: {'T_mid': as_array(ListV([I_.D.sym('Tma'), I_.D.sym('Tmb')]))},
                 'list': lambda I_: {'T_mid': ListV([I_.D.sym('Tma'), I_.D.sym('Tmb')])}}[form]
        ranks = {'Tm': 3, 'Tma': 3, 'Tmb': 3, 'T_ref': rank, 'T_ref2': rank}
        if kind == 'zero':
            # the documented fallback takes the break from the data: an entry of the temperature vector, ranked like
            # the break of the generic instance
            I, o, _o, _f = fitted(repo, NASA + '.Nasa', kind, extra, ranks,
                                  fallback=lambda a_: 3 if a_.startswith('AT{') else _fallback_rank(a_))
        else:
            I, o, _o, _f = fitted(repo, NASA + '.Nasa', kind, extra, ranks)
        given = [(nm, I.c03_again[3][nm], entries(I.c03_again[3][nm])) for nm in ('T', 'CpoR')]
        n += data_intact(run, 'nasa.Nasa.from_data', label0 + tag, given, owner, fn)
        o2 = fitted_again(I)
        D = I.D
        for sp, sfx, which in ((o, '', ''), (o2, '2', SECOND)):
            n += nasa7_species(run, I, repo, sp, label0 + tag + which, rank - 3, sfx, cp_slots, owner, fn,
                               want_tm=D.sym('Tm') if kind == 'generic' else None)
    return n


def grid(t_low, t_high, n):
    """n equally spaced temperatures from t_low to t_high (what from_model samples), exact"""
    v = ListV([C(Fr(t_low) + Fr((t_high - t_low) * k, n - 1)) for k in range(n)])
    v.is_array = True
    return v


def nasa7_fallback_break(run, repo):
    """degenerate Cp data (all zero / containing NaN) on a concrete ascending grid: the break temperature that
    from_data chooses by itself lies strictly inside the span of the data (n_T = 15, 16, 200: the smallest grids of
    the property, odd and even, and the largest)"""
    ci = repo.cls(NASA + '.Nasa')
    owner, fn = repo.find_method(ci, 'from_data')
    n = 0
    for npts, kind in itertools.product((15, 16, 200), ('zero', 'nan')):
        t_lo, t_hi = 300, 1000
        I = Interp(repo, order=RankOrder({'T_ref': 400}, const_ranks=True, fallback=_fallback_rank))
        bounded_data(I)
        D = I.D
        cp = [C(0)] * npts
        if kind == 'nan':
            I.data_kind['cpnan'] = 'nan'
            cp[3] = D.sym('cpnan')
        cp = ListV(cp)
        cp.is_array = True
        kw = {'name': 'sp', 'T': grid(t_lo, t_hi, npts), 'CpoR': cp, 'T_ref': D.sym('T_ref'),
              'HoRT_ref': D.sym('HoRT_ref'), 'SoR_ref': D.sym('SoR_ref')}
        o = I.call_function(owner.module, fn, [], kw, self_obj=ci, owner=owner, name=owner.qual + '.from_data')
        key = '%s on a grid of %d temperatures, no T_mid given' % (
            'all-zero Cp' if kind == 'zero' else 'Cp with one NaN', npts)
        n += 1
        if not isinstance(o, Obj):
            run.fail('REF.break-inside', 'nasa.Nasa.from_data', key, 'from_data does not build a species: %s'
                     % show(o, 120), owner.module, fn)
            continue
        lo, tm, hi = pub(o, 'T_low'), pub(o, 'T_mid'), pub(o, 'T_high')
        vals = [v.const_value() if isinstance(v, Rat) and v.is_const() else (Fr(0) if isinstance(v, Rat) and v.iszero()
                                                                              else None) for v in (lo, tm, hi)]
        ok = None not in vals and vals[0] == t_lo and vals[2] == t_hi and vals[0] < vals[1] < vals[2]
        run.check(ok, 'REF.break-inside', 'nasa.Nasa.from_data', key,
                  'data on %d temperatures from %d K to %d K give (T_low, T_mid, T_high) = (%s, %s, %s): the bounds '
                  'must be the span of the data and the break must lie strictly between them'
                  % (npts, t_lo, t_hi, show(lo), show(tm), show(hi)), owner.module, fn,
                  sample='Nasa.from_data(T=linspace(%d, %d, %d), CpoR=%s) -> T_low < T_mid=%s < T_high'
                  % (t_lo, t_hi, npts, 'zeros' if kind == 'zero' else 'zeros with one NaN', show(tm)))
    return n


def nasa9_pipeline(run, repo, tables, max_seg):
    ci = repo.cls(NASA + '.Nasa9')
    owner, fn = repo.find_method(ci, 'from_data')
    run.fn(owner.qual + '.from_data')
    tab = tables['nasa9']
    cp_slots = sorted(tab['powers'])
    n = 0
    for nseg, kind in itertools.product(range(1, max_seg + 1), ('generic', 'zero')):
        tag = ' [all-zero Cp data]' if kind == 'zero' else ''
        for j in range(nseg):
            # the ordering of this instance: min(T) < Tm0 < ... < Tm_{j-1} < T_ref < Tm_j < ... < max(T) - an
            # implementation that looks up the interval containing T_ref (NASA-7 does) gets its answer
            ranks = {'MIN{(Tdata)}': 10, 'MAX{(Tdata)}': 100, 'T_ref': 15 + 10 * j, 'T_ref2': 15}
            ranks.update({'Tm%d' % k: 20 + 10 * k for k in range(nseg - 1)})
            I, o, _o, _f = fitted(repo, NASA + '.Nasa9', kind, nasa9_extra(nseg), ranks)
            if j == 0:
                given = [(nm, I.c03_again[3][nm], entries(I.c03_again[3][nm])) for nm in ('T', 'CpoR', 'T_mid')]
                n += data_intact(run, 'nasa.Nasa9.from_data', 'segments:%d' % nseg + tag, given, owner, fn)
            twice = j == 0 or run.tier == 'thorough'
            o2 = fitted_again(I) if twice else None        # its reference lies in the first interval
            D = I.D
            tmid = ListV([D.sym('Tm%d' % k) for k in range(nseg - 1)])
            Tref, Href, Sref = D.sym('T_ref'), D.sym('HoRT_ref'), D.sym('SoR_ref')
            if not isinstance(o, Obj):
                raise Unsupported('Nasa9.from_data did not build an object: %s' % show(o))
            segs = get_public(I, o, 'nasas')
            if not isinstance(segs, ListV) or len(segs) != nseg:
                run.fail('DATAFLOW.segments', 'nasa.Nasa9.from_data', 'segments:%d' % nseg + tag,
                         'expected %d segment objects, got %s' % (nseg, show(segs)), owner.module, fn)
                continue
            H = lambda a, T: evaluator(I, repo, 'nasa9', 'HoRT', a, T)
            S = lambda a, T: evaluator(I, repo, 'nasa9', 'SoR', a, T)
            A = [pub(s, 'a') for s in segs.items]
            if j == 0:
                # segment bounds are consecutive pairs of [min(T), *T_mid, max(T)]
                bounds = [D.sym('MIN{(Tdata)}')] + list(tmid.items) + [D.sym('MAX{(Tdata)}')]
                ok = all(same(pub(s, 'T_low'), bounds[k]) and same(pub(s, 'T_high'), bounds[k + 1])
                         for k, s in enumerate(segs.items))
                run.check(ok, 'DATAFLOW.bounds', 'nasa.Nasa9.from_data', 'segments:%d' % nseg + tag,
                          'segment k must span [T_k, T_k+1] of [min(T), *T_mid, max(T)]', owner.module, fn)
                run.check(all(only_fit_atoms(A[k], cp_slots) for k in range(nseg)), 'DATAFLOW.cp-slots',
                          'nasa.Nasa9.from_data', 'segments:%d' % nseg + tag,
                          'a heat-capacity coefficient was modified while anchoring H and S', owner.module, fn)
                n += 2
            # H and S join at every break, wherever T_ref lies (the matching may run upwards and downwards from the
            # interval that carries the anchor)
            where = '' if j == 0 else ' T_ref in segment %d' % j
            for k in range(nseg - 1):
                tk = tmid.items[k]
                run.check(same(H(A[k], tk), H(A[k + 1], tk)), 'CONT.H', 'nasa.Nasa9.from_data',
                          'segments:%d break:%d' % (nseg, k) + where + tag,
                          'H is discontinuous at break temperature %d%s' % (k, ' with' + where if where else ''),
                          owner.module, fn, sample='Nasa9.from_data(%d segments): H continuous at T_mid[%d]%s'
                          % (nseg, k, where))
                run.check(same(S(A[k], tk), S(A[k + 1], tk)), 'CONT.S', 'nasa.Nasa9.from_data',
                          'segments:%d break:%d' % (nseg, k) + where + tag,
                          'S is discontinuous at break temperature %d%s' % (k, ' with' + where if where else ''),
                          owner.module, fn)
                n += 2
            # anchor: the segment containing T_ref must reproduce the reference values
            key = ('T_ref in segment %d' % j if j else 'T_ref in segment 0') + (' of %d' % nseg + tag if tag else '')
            run.check(same(H(A[j], Tref), Href), 'ANCHOR.H', 'nasa.Nasa9.from_data', key,
                      'with T_ref inside segment %d (of %d) H/RT(T_ref) = %s, not HoRT_ref: %s'
                      % (j, nseg, show(H(A[j], Tref), 120),
                         'the zero coefficient rows of the segments are one shared array, anchoring one segment '
                         'overwrites the others' if kind == 'zero' else
                         'the anchor is applied to the first segment whatever segment T_ref lies in'),
                      owner.module, fn,
                      sig=lambda: 'the first segment reproduces the reference at T_ref, segment %d does not' % j
                      if j and same(H(A[0], Tref), Href) else 'H/RT(T_ref) = %s' % show(H(A[j], Tref), 80))
            run.check(same(S(A[j], Tref), Sref), 'ANCHOR.S', 'nasa.Nasa9.from_data', key,
                      'with T_ref inside segment %d (of %d) S/R(T_ref) is not SoR_ref' % (j, nseg),
                      owner.module, fn,
                      sig=lambda: 'the first segment reproduces the reference at T_ref, segment %d does not' % j
                      if j and same(S(A[0], Tref), Sref) else 'S/R(T_ref) = %s' % show(S(A[j], Tref), 80))
            n += 2
            # the species fitted next in the same process: anchored at its own reference, continuous
            if not twice:
                continue
            key2 = 'segments:%d%s%s' % (nseg, where, tag) + SECOND
            segs2 = get_public(I, o2, 'nasas') if isinstance(o2, Obj) else None
            if not isinstance(segs2, ListV) or len(segs2) != nseg:
                run.fail('DATAFLOW.segments', 'nasa.Nasa9.from_data', key2,
                         'expected %d segment objects, got %s' % (nseg, show(segs2 if segs2 is not None else o2)),
                         owner.module, fn)
                continue
            A2 = [pub(s, 'a') for s in segs2.items]
            Tref2 = D.sym('T_ref2')
            run.check(same(H(A2[0], Tref2), D.sym('HoRT_ref2')), 'ANCHOR.H', 'nasa.Nasa9.from_data', key2,
                      'H/RT(T_ref) of the second species (T_ref in its first interval) is %s, not its HoRT_ref'
                      % show(H(A2[0], Tref2), 120), owner.module, fn)
            run.check(same(S(A2[0], Tref2), D.sym('SoR_ref2')), 'ANCHOR.S', 'nasa.Nasa9.from_data', key2,
                      'S/R(T_ref) of the second species (T_ref in its first interval) is not its SoR_ref',
                      owner.module, fn)
            ok = all(same(H(A2[k], tmid.items[k]), H(A2[k + 1], tmid.items[k])) and
                     same(S(A2[k], tmid.items[k]), S(A2[k + 1], tmid.items[k])) for k in range(nseg - 1))
            run.check(ok, 'CONT.H', 'nasa.Nasa9.from_data', key2,
                      'H or S of the second species is discontinuous at a break temperature', owner.module, fn)
            n += 3
    return n


def nasa9_species_bounds(run, repo, max_seg):
    """the bounds a user reads from the fitted NASA-9 species itself (not from its segments) are the span of the data,
    for break temperatures given in ascending order strictly inside the data"""
    ci = repo.cls(NASA + '.Nasa9')
    owner, fn = repo.find_method(ci, 'from_data')
    n = 0
    for nseg, kind in itertools.product(range(1, max_seg + 1), ('generic', 'zero')):
        ranks = {'MIN{(Tdata)}': 10, 'T_ref': 15, 'MAX{(Tdata)}': 100}
        ranks.update({'Tm%d' % k: 20 + k for k in range(nseg - 1)})
        I, o, _o, _f = fitted(repo, NASA + '.Nasa9', kind, nasa9_extra(nseg), ranks)
        D = I.D
        key = 'segments:%d species bounds' % nseg + (' [all-zero Cp data]' if kind == 'zero' else '')
        n += 1
        if not isinstance(o, Obj):
            run.fail('DATAFLOW.bounds', 'nasa.Nasa9.from_data', key, 'from_data does not build a species: %s'
                     % show(o, 120), owner.module, fn)
            continue
        lo, hi = get_public(I, o, 'T_low'), get_public(I, o, 'T_high')
        run.check(same(lo, D.sym('MIN{(Tdata)}')) and same(hi, D.sym('MAX{(Tdata)}')), 'DATAFLOW.bounds',
                  'nasa.Nasa9.from_data', key,
                  'the fitted species reports the temperature bounds (%s, %s), not the span (min, max) of the data '
                  '(breaks ascending inside the data)' % (show(lo, 60), show(hi, 60)), owner.module, fn,
                  sample='Nasa9.from_data(%d segments): species T_low/T_high = min/max of the data' % nseg)
    return n


def shomate_pipeline(run, repo, tables):
    ci = repo.cls(SHO + '.Shomate')
    owner, fn = repo.find_method(ci, 'from_data')
    run.fn(owner.qual + '.from_data')
    tab = tables['shomate']
    cp_slots = sorted(tab['powers'])
    n = 0
    for kind in ('generic', 'zero', 'nan'):
        I, o, _o, _f = fitted(repo, SHO + '.Shomate', kind, lambda I_: {'units': I_.D.sym('units')})
        tag = {'generic': '', 'zero': ' [all-zero Cp data]', 'nan': ' [Cp data with NaN]'}[kind]
        given = [(nm, I.c03_again[3][nm], entries(I.c03_again[3][nm])) for nm in ('T', 'CpoR')]
        n += data_intact(run, 'shomate.Shomate.from_data', 'any units' + tag, given, owner, fn)
        o2 = fitted_again(I)
        D = I.D
        units = D.sym('units')
        for sp, sfx, which in ((o, '', ''), (o2, '2', SECOND)):
            key = 'any units' + tag + which
            Tref, Href, Sref = D.sym('T_ref' + sfx), D.sym('HoRT_ref' + sfx), D.sym('SoR_ref' + sfx)
            if not isinstance(sp, Obj):
                run.fail('ANCHOR.H', 'shomate.Shomate.from_data', key, 'from_data does not build a species: %s'
                         % show(sp, 120), owner.module, fn)
                n += 1
                continue
            a = pub(sp, 'a')
            H = evaluator(I, repo, 'shomate', 'HoRT', a, Tref, units)
            S = evaluator(I, repo, 'shomate', 'SoR', a, Tref, units)
            shared = ' (read after a second species was fitted in the same process)' if not which else ''
            run.check(same(H, Href), 'ANCHOR.H', 'shomate.Shomate.from_data', key,
                      'H/RT(T_ref) = %s, not HoRT_ref%s' % (show(H), shared), owner.module, fn,
                      sample='Shomate.from_data: H(T_ref)=HoRT_ref for symbolic units' + which)
            run.check(same(S, Sref), 'ANCHOR.S', 'shomate.Shomate.from_data', key,
                      'S/R(T_ref) = %s, not SoR_ref%s' % (show(S), shared), owner.module, fn)
            run.check(isinstance(a, ListV) and len(a) == 8 and only_fit_atoms(a, cp_slots), 'DATAFLOW.cp-slots',
                      'shomate.Shomate.from_data', key,
                      'a heat-capacity coefficient was modified while anchoring H and S', owner.module, fn)
            run.check(same(pub(sp, 'T_low'), D.sym('MIN{(Tdata)}')) and
                      same(pub(sp, 'T_high'), D.sym('MAX{(Tdata)}')),
                      'DATAFLOW.bounds', 'shomate.Shomate.from_data', key,
                      'temperature bounds are not the span of the data', owner.module, fn)
            run.check(same(get_public(I, sp, 'units'), units), 'DATAFLOW.units', 'shomate.Shomate.from_data', key,
                      'the species is not built with the fitting units', owner.module, fn)
            n += 5
    return n


# ----------------------------------------------------------------------
# E. from_model: reference values sampled from the same model at the temperature passed as T_ref

def bind_call(fn, args, kwargs, node):
    """{parameter name: value} of a call of the (class)method ``fn`` with positional and keyword arguments, as
    Python binds them (defaults are not filled in); a call Python rejects raises the TypeError"""
    a_ = fn.args
    pos = [q.arg for q in a_.posonlyargs + a_.args]
    if pos and pos[0] in ('self', 'cls'):
        pos = pos[1:]
    out = {}
    if len(args) > len(pos):
        if a_.vararg is None:
            raise _RaisedExc(Raised('TypeError', node))
        out[a_.vararg.arg] = ListV(list(args[len(pos):]))
    for nm, v in zip(pos, args):
        out[nm] = v
    known = set(pos) | {q.arg for q in a_.kwonlyargs}
    for k, v in kwargs.items():
        if k in out or (k not in known and a_.kwarg is None):
            raise _RaisedExc(Raised('TypeError', node))
        out[k] = v
    return out


def few_points_linspace(I):
    """np.linspace with a small concrete number of points between symbolic ends is the array of those points (numpy's
    definition: start + j*(stop - start)/(num - 1)), so that single entries and slices of it can be taken - the guesses
    for the NASA-9 breaks are linspace(T_low, T_high, n_interval + 1)[1:-1]; grids of many points stay one vector"""
    base = I.native['numpy.linspace']

    def linspace(I_, fr, args, kwargs, n):
        lo = kwargs['start'] if 'start' in kwargs else (args[0] if args else None)
        hi = kwargs['stop'] if 'stop' in kwargs else (args[1] if len(args) > 1 else None)
        num = kwargs['num'] if 'num' in kwargs else (args[2] if len(args) > 2 else None)
        k = _num(num)
        if k is not None and k.denominator == 1 and 0 <= k <= 8 and isinstance(lo, Rat) and isinstance(hi, Rat) \
                and len(args) <= 3:
            k = int(k)
            return as_array(ListV([lo + (hi - lo) * C(Fr(j, k - 1)) if j else lo for j in range(k)]))
        return base(I_, fr, args, kwargs, n)
    I.native['numpy.linspace'] = linspace
    return I


def from_model(run, repo):
    n = 0
    # Nasa9.from_model: every way of choosing the breaks - a guess handed in (the default instance), none (1, 2, 3
    # intervals: the guesses are spread by from_model itself), and breaks that are NOT to be optimised
    n9 = [{'tag': ' [%d interval(s), no T_mid given]' % k, 'n_interval': k, 'breaks': None, 'fit': True} for k in (1, 2, 3)]
    n9.append({'tag': ' [two breaks given, fit_T_mid=False]', 'n_interval': 3, 'breaks': 2, 'fit': False})
    for (qual, mod, extra), behaviour in itertools.product(
            [(NASA + '.Nasa', NASA, {}), (NASA + '.Nasa9', NASA, {}), (SHO + '.Shomate', SHO, {})] +
            [(NASA + '.Nasa9', NASA, v) for v in n9],
            ('vector', 'scalar', 'raises', 'vector, name and range taken from the model')):
        if extra and behaviour != 'vector':
            continue
        vtag = extra.get('tag', '')
        # how the source model answers a call with the whole temperature grid: element by element, with one number
        # (HarmonicVib when the number of modes equals the number of temperatures), or with ValueError
        ci = repo.cls(qual)
        owner, fn = repo.find_method(ci, 'from_model')
        run.fn(owner.qual + '.from_model')
        I = Interp(repo)
        D = I.D
        calls = {}

        def mk(mname):
            def h(I_, obj, args, kwargs):
                T = kwargs.get('T', args[0] if args else None)
                if isinstance(T, Elem) and mname == 'get_CpoR' and behaviour == 'scalar':
                    return I_.D.sym('model.get_CpoR<one number for the whole grid>')
                if isinstance(T, Elem) and mname == 'get_CpoR' and behaviour == 'raises':
                    from ..xlate import _RaisedExc
                    raise _RaisedExc(Raised('ValueError'))
                if isinstance(T, Elem):
                    nm = 'model.%s[%r]' % (mname, T.r)
                    calls[nm] = T
                    return Elem(I_.D.sym(nm))
                nm = 'model.%s(%r)' % (mname, T)
                calls[nm] = T
                return I_.D.sym(nm)
            return h
        model = Obj('model')
        for q in ('get_CpoR', 'get_HoRT', 'get_SoR'):
            model.opaque_methods[q] = mk(q)
        model.attrs.update({'name': 'm', 'elements': DictV({'A': D.sym('nA')})})
        from_model_attrs = behaviour.endswith('from the model')
        if from_model_attrs and qual.endswith('Nasa9'):
            continue        # Nasa9.from_model requires name, T_low and T_high (no defaults in its signature)
        if from_model_attrs:
            # name and temperature window are not passed: they are the model's own
            model.attrs.update({'T_low': D.sym('T_low'), 'T_high': D.sym('T_high')})
            behaviour = 'vector'
        else:
            model.missing = {'T_low', 'T_high'}     # a model without its own validity range
        cap = {}

        fd_owner, fd_fn = repo.find_method(ci, 'from_data')

        def capture(I_, fr, args, kwargs, nd, fd_fn=fd_fn):
            # what from_data receives, by parameter name: positional arguments are bound against its signature
            cap.update(bind_call(fd_fn, args, kwargs, nd))
            return 'built'
        I.opaque_funcs[fd_owner.qual + '.from_data'] = capture
        if fd_owner.qual != owner.qual:
            I.opaque_funcs[owner.qual + '.from_data'] = capture

        def mini(I_, fr, args, kwargs, nd):
            x0 = kwargs.get('x0')
            res = Obj('res')
            k = len(x0) if isinstance(x0, ListV) else 1
            v = ListV([I_.D.sym('Topt%d' % i) for i in range(k)])
            v.is_array = True
            res.attrs['x'] = v
            return res
        I.native['scipy.optimize.minimize'] = mini
        few_points_linspace(I)
        Tl, Th = D.sym('T_low'), D.sym('T_high')
        kw = {'model': model} if from_model_attrs else {'model': model, 'name': 'sp', 'T_low': Tl, 'T_high': Th}
        if qual.endswith('Nasa9') and not extra:
            tm = ListV([D.sym('Tm0')])
            tm.is_array = True
            kw['T_mid'] = tm
        elif extra:
            kw['n_interval'] = C(extra['n_interval'])
            if extra['breaks']:
                kw['T_mid'] = as_array(ListV([D.sym('Tm%d' % k) for k in range(extra['breaks'])]))
            if not extra['fit']:
                kw['fit_T_mid'] = False
        r = I.call_function(owner.module, fn, [], kw, self_obj=ci, owner=owner, name=owner.qual + '.from_model')
        con = '%s.%s.from_model' % (mod.split('.')[-1], ci.name)
        if from_model_attrs:
            okn = r == 'built' and I.plain(cap.get('name')) == 'm'
            run.check(okn, 'DATAFLOW.from_model', con, 'name and range of the model',
                      'with name, T_low and T_high omitted the species must be fitted under the model\'s name over the '
                      'model\'s own range; from_data received name=%s (result %s)' % (show(cap.get('name')), show(r, 60)),
                      owner.module, fn)
            n += 1
        if behaviour != 'vector':
            Tg, Cp = cap.get('T'), cap.get('CpoR')
            okg = r == 'built' and isinstance(Tg, Elem) and isinstance(Cp, Elem) and isinstance(Cp.r, Rat) and \
                isinstance(Tg.r, Rat) and same(Cp.r, Rat.atom('model.get_CpoR(%r)' % (Tg.r,)))
            run.check(okg, 'DATAFLOW.cp-grid', con, 'grid, model not vectorised (%s)' % behaviour,
                      'when the model answers the whole grid with %s the heat capacities handed to from_data must be '
                      'the model sampled one temperature at a time; got %s'
                      % ('a single number' if behaviour == 'scalar' else 'ValueError',
                         show(Cp, 120) if r == 'built' else show(r)), owner.module, fn)
            n += 1
            continue
        if r != 'built' or not cap:
            run.fail('DATAFLOW.from_model', con, 'delegates' + vtag, 'from_model does not hand its samples to from_data (%s)'
                     % show(r), owner.module, fn)
            continue
        Tref = cap.get('T_ref')
        href, sref = cap.get('HoRT_ref'), cap.get('SoR_ref')
        if extra:
            # the breaks handed to from_data: one per interior bound - what the optimiser returned for the guesses
            # (n_interval - 1 of them), resp. the user's own when they are not to be optimised
            got = cap.get('T_mid')
            nb = extra['n_interval'] - 1
            if extra['fit']:
                want = [D.sym('Topt%d' % i) for i in range(nb)]
            else:
                want = [D.sym('Tm%d' % i) for i in range(nb)]
            okb = isinstance(got, ListV) and len(got) == nb and all(same(x, y) for x, y in zip(got.items, want))
            run.check(okb, 'DATAFLOW.breaks', con, 'T_mid' + vtag,
                      'from_data is handed T_mid=%s; expected %d break(s): %s' % (
                          show(got, 80), nb, 'the result of the optimisation started from %d guesses' % nb
                          if extra['fit'] else 'the breaks supplied by the caller, unchanged'), owner.module, fn,
                      sample='%s%s -> from_data(T_mid=%s)' % (con, vtag, show(got, 60)))
            n += 1

        def sampled_at(v, meth):
            if isinstance(v, Rat):
                for a_ in v.atoms():
                    if a_.startswith('model.%s(' % meth) and v.eq(Rat.atom(a_)):
                        return calls[a_]
            return None
        th, ts = sampled_at(href, 'get_HoRT'), sampled_at(sref, 'get_SoR')
        if from_model_attrs:
            con = con + ' [range of the model]'
        run.check(th is not None and isinstance(Tref, Rat) and same(th, Tref), 'DATAFLOW.ref-H', con, 'T_ref' + vtag,
                  'HoRT_ref is sampled at %s but T_ref=%s is passed on' % (show(th), show(Tref)), owner.module, fn,
                  sample='%s: HoRT_ref = model.get_HoRT(T=T_ref), T_ref=%s' % (con, show(Tref)))
        run.check(ts is not None and isinstance(Tref, Rat) and same(ts, Tref), 'DATAFLOW.ref-S', con, 'T_ref' + vtag,
                  'SoR_ref is sampled at %s but T_ref=%s is passed on' % (show(ts), show(Tref)), owner.module, fn)
        # T_ref inside the window [T_low, T_high] by construction (affine combination of the bounds)
        inside = False
        if isinstance(Tref, Rat):
            wl, wh = I.D.d(Tref, 'T_low'), I.D.d(Tref, 'T_high')
            if wl.is_const() and wh.is_const():
                a_, b_ = wl.const_value(), wh.const_value()
                inside = a_ >= 0 and b_ >= 0 and a_ + b_ == 1 and same(Tref, Tl * C(a_) + Th * C(b_))
        run.check(inside, 'DATAFLOW.ref-window', con, 'T_ref' + vtag,
                  'T_ref=%s is not a convex combination of T_low and T_high' % show(Tref), owner.module, fn)
        # Cp data sampled from the same model on the grid that is passed on
        Tg, Cp = cap.get('T'), cap.get('CpoR')
        okg = isinstance(Tg, Elem) and isinstance(Cp, Elem) and isinstance(Cp.r, Rat) and \
            any(a_.startswith('model.get_CpoR[') and same(calls[a_], Tg) for a_ in Cp.r.atoms())
        run.check(okg, 'DATAFLOW.cp-grid', con, 'grid' + vtag,
                  'the heat-capacity samples are not model.get_CpoR evaluated on the temperature grid handed to '
                  'from_data', owner.module, fn)
        run.check(cap.get('model') is model, 'DATAFLOW.model', con, 'model' + vtag,
                  'the fitted species does not keep the source model', owner.module, fn)
        n += 5
    return n


def check(run, repo):
    run.explanation = (
        'The whole fitting pipeline is interpreted from the public from_data/from_model down to the least-squares '
        'library call and back: np.polyfit and curve_fit are uninterpreted functions that return fresh symbols and '
        'record what they were given; the data are vectors of unknown length (generic, constant non-zero, all zero, '
        'containing NaN); np.extract with a mask yields a sub-vector tagged with the mask. No private helper is named '
        'or stubbed. (A) for every coefficient vector of the result: its length is the evaluator basis length; for '
        'non-degenerate data its heat-capacity slots come from exactly one fit, that fit was given the temperature '
        'data as x and a multiple g(T) of the Cp data as y selected by the same mask, and the family\'s public Cp '
        'evaluator applied to the vector equals the fitted model divided by g for all parameters and T (a coefficient '
        'in the wrong slot, a missing reversal, a wrong weight all break this identity); consecutive fits use '
        'complementary masks; degenerate data give zero Cp coefficients. (B) on the resulting object of Nasa (T_ref '
        'below, at, above T_mid; also the all-zero fallback), Nasa9 (1-3 (4) segments, T_ref in every segment) and '
        'Shomate (symbolic units): H(T_ref)=HoRT_ref, S(T_ref)=SoR_ref, H and S continuous at every break, Cp slots '
        'untouched by the anchoring, bounds = min/max of the data. (C) from_model hands from_data reference values '
        'sampled from the same model at the temperature it passes as T_ref, inside the window, and Cp sampled on the '
        'grid it passes (one temperature at a time when the model does not vectorise). (D) the break temperature '
        'that Nasa.from_data chooses itself (degenerate data; T_mid=None) lies strictly inside the span of the data; '
        'the bounds read from a fitted Nasa9 species (1-3 segments) are that span; Cp data that vanish at one '
        'temperature only are fitted (Shomate, NASA-7). (E) every pipeline instance fits a SECOND species in the same '
        'interpreter (same data, its own reference): both species are anchored and continuous afterwards, so state '
        'that survives from one fit to the next (a zero row allocated once, a memoised result) is visible; NASA-9 '
        'continuity is decided for T_ref in every interval under the ordering min(T) < breaks below < T_ref < breaks '
        'above < max(T). (F) T_mid as a list on a grid of 15 written-out temperatures where a candidate leaves fewer '
        'than five points on one side (candidates in and out of order, smallest error first / middle / last): break, '
        'a_low and a_high are those of the candidate with the smallest error, fitted to exactly the points below '
        'resp. above it. (G) round 3: the abscissa of a fit may be any function of the temperature data alone (the '
        'composition "model function at x(T)" is compared with the public Cp evaluator at T); what the least-squares '
        'call is told besides the data is read: weights depending on the data or a loss other than the sum of squares '
        'are a violation (DATAFLOW.fit-weights), options that only steer the search are neutral, anything else is '
        'refused. Written-out grids of 15 temperatures (the number of points per segment is known to the code): one '
        'NASA-7 break that leaves 4, 3 or 2 points on one side, NASA-9 with 1-3 intervals (breaks between two data '
        'points), Shomate fitted twice from the same array objects in two units - on all of them, and on the species '
        'of (F), length, slot/power identity (with the degree the fit was actually called with), data points of each '
        'fit, anchor, continuity and bounds are decided as on data of unknown length. The caller\'s data arrays hold '
        'after from_data what they held before (DATAFLOW.data-intact, every pipeline instance). All-zero Cp data are '
        'run with every form of T_mid (None, one temperature, an array and a list of two candidates). '
        'Nasa9.from_model: 1, 2, 3 intervals without a guess and breaks that are not to be optimised - from_data '
        'receives n_interval-1 breaks, the optimiser\'s result resp. the caller\'s own. The groups of instances are '
        'independent: a refusal in one does not hide a violation established in another.')
    run.assumptions = ['np.polyfit returns coefficients highest power first; curve_fit returns one value per parameter '
                       'of the model function after the first; a masked sub-vector of generic data is generic and '
                       'has more entries than any small constant it is compared with',
                       'T_mid given as a scalar, a list of two candidates (the mean squared errors are uninterpreted '
                       'positive numbers, either order) or an array of NASA-9 breaks; the default search over data '
                       'points (T_mid=None) is followed on an ascending grid of 15 temperatures with the fit error '
                       'monotone in the candidate (growing, falling), not for other orders of the errors',
                       'bounded instances on concrete grids: degenerate Cp data on 15, 16 and 200 equally spaced '
                       'temperatures (the break chosen by Nasa.from_data itself); Cp zero at the first of 15 '
                       'temperatures only (Shomate, NASA-7, NASA-9); candidate lists on 15 written-out '
                       'temperatures: np.extract keeps the entries whose mask entry is True, the mean of a residual is '
                       'an uninterpreted positive number attributed to the candidate whose two fits it was computed '
                       'from, four orders of the errors',
                       'a least-squares call without sigma / with the same sigma for every point, loss="linear" and '
                       'infinite bounds minimises the plain sum of squared residuals; p0, method, jac, maxfev, '
                       'absolute_sigma, check_finite do not change the minimiser; the weight of the fitted quantity on '
                       'written-out grids is a constant or an integer power of T (Cp, Cp*T**2); the abscissa of a fit '
                       'on a written-out grid is an affine function of the temperatures',
                       'two species per process, the second with the same data and options as the first; its reference '
                       'temperature lies on the same side of T_mid (NASA-7) resp. in the first interval (NASA-9, where '
                       'the known anchor findings concern the other intervals)']
    run.undecided = ['fit quality (tracks the source / reproduces a same-family polynomial): least-squares and '
                     'Nelder-Mead behaviour on data',
                     'how good the break is that the screening of candidates prefers: the mean squared error that '
                     'ranks the candidates is an uninterpreted positive number, WHAT it is the mean of is not examined '
                     '(a screening error computed from a wrong polynomial still yields an anchored, continuous '
                     'two-segment least-squares fit, only a worse one; no threshold follows from the property)',
                     'break temperatures strictly inside the range for user-supplied T_mid (no validation exists)',
                     'curve_fit with finite bounds or changed tolerances (refused: whether a bound is active depends on '
                     'data and unit)',
                     'which of the forms of T_mid the degenerate (all-zero / NaN) path honours: only that the species '
                     'has ONE break temperature and is anchored and continuous']
    tables = slot_tables(run, repo)
    run.sample({'slot_tables': {k: {'powers': {i: str(p) for i, p in v['powers'].items()},
                                    'hconst': v['hconst'], 'sconst': v['sconst'], 'dead': v['dead']}
                                for k, v in tables.items()}})
    # the groups of instances are independent of each other (each builds its own interpreters).  A construct outside
    # the interpreted fragment met in one group is a refusal (exit 2) - unless another group establishes a violation:
    # that is then what is reported (the policy of pmv.main.run_rules, made independent of the order of the groups)
    refused = []

    def group(name, floor, f, *args):
        try:
            n_ = f(run, repo, *args)
        except Unsupported as e:
            refused.append(e)
            return
        if floor is not None:
            run.floor(name, n_, floor)
    group('fitted coefficient vectors', 20, fit_rules, tables)
    group('partly zero data instances', 3, partly_zero_data, tables)
    group('candidate lists', None, candidate_search, tables)
    group('candidate lists on a bounded grid', 3, bounded_candidates, tables)
    group('one break next to an end of a bounded grid', 3, small_segments, tables)
    group('default break search instances', 2, default_break_search)
    group('NASA-7 pipeline instances', 21, nasa7_pipeline, tables)
    group('NASA-7 pipeline, all-zero data with a list of candidates', 6, nasa7_pipeline, tables, NASA7_LIST_FORM)
    group('NASA-7 fallback break instances', 6, nasa7_fallback_break)
    group('NASA-9 pipeline instances', 20, nasa9_pipeline, tables, 4 if run.tier == 'thorough' else 3)
    group('NASA-9 species bounds', 6, nasa9_species_bounds, 3)
    group('NASA-9 on a written-out grid', 30, nasa9_written_out, tables)
    group('Shomate pipeline', None, shomate_pipeline, tables)
    group('Shomate fits of one written-out data set', 10, shomate_written_out, tables)
    group('from_model instances', 15, from_model)
    if refused:
        raise refused[0]


N = 'pmutt/empirical/nasa.py'
S_ = 'pmutt/empirical/shomate.py'
_SHO_FIT = '''        adj_shomate_CpoR = lambda T, A, B, C, D, E: _shomate_CpoR(
            T=T, A=A, B=B, C=C, D=D, E=E, units=units)
        [a, _] = curve_fit(adj_shomate_CpoR, T, np.array(CpoR))'''
MUTANTS = [
    {'name': 'zero rows of the NASA-9 intervals are one shared array again', 'expect': ('ANCHOR', 'Nasa9.from_data'),
     'edits': [(N, '        return [np.zeros(9) for _ in range(len(T_mid) + 1)]', '        return [np.zeros(9)] * (len(T_mid) + 1)')]},
    {'name': 'high coefficients taken from the last candidate instead of the best', 'expect': ('DATAFLOW.T_mid', 'from_data'),
     'edits': [(N, '    a_high_rev = all_a_high[min_i]', '    a_high_rev = all_a_high[-1]')]},
    {'name': 'constant Cp data short-circuited to zero', 'expect': ('REF.fit', 'from_data'),
     'edits': [(N, '''    if all([np.isclose(x, 0.) for x in CpoR]) \\
       or any([np.isnan(x) for x in CpoR]):
        T_mid = T[int(len(T) / 2)]''', '''    if all([np.isclose(x, CpoR[0]) for x in CpoR]) \\
       or any([np.isnan(x) for x in CpoR]):
        T_mid = T[int(len(T) / 2)]''')]},
    {'name': 'from_data writes H constant into slot 6', 'expect': ('', 'Nasa.from_data'),
     'edits': [(N, 'a_low[5], a_high[5] = _fit_HoRT(T_ref=T_ref,', 'a_low[6], a_high[5] = _fit_HoRT(T_ref=T_ref,')]},
    {'name': '_fit_HoRT T_ref<=T_mid flipped', 'expect': ('ANCHOR.H', 'Nasa.from_data'),
     'edits': [(N, '    if T_ref <= T_mid:', '    if T_ref > T_mid:', 0, 2)]},
    {'name': '_fit_HoRT high branch evaluates low polynomial at T_ref', 'expect': ('ANCHOR.H', 'Nasa.from_data'),
     'edits': [(N, 'a6_high_out = (HoRT_ref - get_nasa_HoRT(a=a_high, T=T_ref)) * T_ref',
                'a6_high_out = (HoRT_ref - get_nasa_HoRT(a=a_low, T=T_ref)) * T_ref')]},
    {'name': '_fit_SoR9 uses a[i] for the lower segment', 'expect': ('CONT.S', 'Nasa9.from_data'),
     'edits': [(N, 'SoR_low = get_nasa9_SoR(a=a[i - 1], T=T_mid[i - 1]) + a9_low',
                'SoR_low = get_nasa9_SoR(a=a[i], T=T_mid[i - 1]) + a9_low')]},
    {'name': 'Nasa.from_model samples S at T_low but passes T_mean', 'expect': ('DATAFLOW.ref-S', 'Nasa.from_model'),
     'edits': [(N, '        SoR_ref = model.get_SoR(T=T_mean)', '        SoR_ref = model.get_SoR(T=T_low)')]},
    {'name': 'Shomate.from_model samples H at T_high', 'expect': ('DATAFLOW.ref-H', 'Shomate.from_model'),
     'edits': [(S_, '        HoRT_ref = model.get_HoRT(T=T_mean)', '        HoRT_ref = model.get_HoRT(T=T_high)')]},
    {'name': 'Shomate _fit_HoRT forgets /k prefix', 'expect': ('ANCHOR.H', 'Shomate.from_data'),
     'edits': [(S_, "        * c.R(units)*T_ref/c.prefixes['k']\n    a[7]", "        * c.R(units)*T_ref\n    a[7]")]},
    {'name': 'NASA-7 fit keeps polyfit order (no reversal)', 'expect': ('SLOT.power', 'from_data'),
     'edits': [(N, 'a_low_out = np.concatenate((a_low_rev[::-1], empty_arr))', 'a_low_out = np.concatenate((a_low_rev, empty_arr))')]},
    {'name': 'masks overlap at T_mid', 'expect': ('DATAFLOW.masks', 'from_data'),
     'edits': [(N, '    high_condition = (T > T_mid)', '    high_condition = (T >= T_mid)')]},
    {'name': 'Nasa T_high from T_mid', 'expect': ('DATAFLOW.bounds', 'Nasa.from_data'),
     'edits': [(N, '        T_high = max(T)\n\n        # Find midpoint temperature, and a[0] through a[4] parameters\n        a_low, a_high, T_mid_out', '        T_high = min(T)\n\n        # Find midpoint temperature, and a[0] through a[4] parameters\n        a_low, a_high, T_mid_out')]},
    {'name': 'Shomate: one vanishing heat capacity sends the species down the zero-Cp shortcut',
     'expect': ('REF.fit', 'Shomate.from_data'),
     'edits': [(S_, '''    if all([np.isclose(x, 0.) for x in CpoR]) \\
       or any([np.isnan(x) for x in CpoR]):
        return np.zeros(8)''', '''    if any([np.isclose(x, 0.) or np.isnan(x) for x in CpoR]):
        return np.zeros(8)''')]},
    {'name': 'NASA-7 zero-Cp fallback puts the break on the last data point',
     'expect': ('REF.break-inside', 'Nasa.from_data'),
     'edits': [(N, '        T_mid = T[int(len(T) / 2)]', '        T_mid = T[-1]')]},
    {'name': 'NASA-7 zero-Cp fallback puts the break on the first data point',
     'expect': ('REF.break-inside', 'Nasa.from_data'),
     'edits': [(N, '        T_mid = T[int(len(T) / 2)]', '        T_mid = T[int(len(T) / 300)]')]},
    {'name': 'Nasa9.T_high computed from the lower bounds of the segments',
     'expect': ('DATAFLOW.bounds', 'Nasa9.from_data'),
     'edits': [(N, '        T_highs = [nasa.T_high for nasa in self.nasas]', '        T_highs = [nasa.T_low for nasa in self.nasas]')]},
    {'name': 'Nasa9.T_low computed from the upper bounds of the segments',
     'expect': ('DATAFLOW.bounds', 'Nasa9.from_data'),
     'edits': [(N, '        T_lows = [nasa.T_low for nasa in self.nasas]', '        T_lows = [nasa.T_high for nasa in self.nasas]')]},
    {'name': 'default T_mid screen starts at the first data point', 'expect': ('REF.break-inside', 'Nasa.from_data'),
     'edits': [(N, '        T_mid = T[5:-5]', '        T_mid = T[:-5]')]},
    {'name': 'default T_mid screen runs up to the last data point', 'expect': ('REF.break-inside', 'Nasa.from_data'),
     'edits': [(N, '        T_mid = T[5:-5]', '        T_mid = T[5:]')]},
    # white-box review, round 2
    {'name': 'Shomate: the zero-Cp coefficient row is one module-level array (state shared by all such species)',
     'expect': ('ANCHOR', 'Shomate.from_data'),
     'edits': [(S_, 'class Shomate(EmpiricalBase):', '_A_NO_CP = np.zeros(8)\n\n\nclass Shomate(EmpiricalBase):'),
               (S_, '        return np.zeros(8)', '        return _A_NO_CP')]},
    {'name': 'NASA-9: the zero rows are memoised per number of intervals (second species starts from the first one\'s '
             'constants)', 'expect': ('ANCHOR', 'Nasa9.from_data'),
     'edits': [(N, 'def _fit_CpoR9(', '_ZERO_ROWS = {}\n\n\ndef _fit_CpoR9('),
               (N, '        return [np.zeros(9) for _ in range(len(T_mid) + 1)]',
                '        n_rows = len(T_mid) + 1\n        if n_rows not in _ZERO_ROWS:\n'
                '            _ZERO_ROWS[n_rows] = [np.zeros(9) for _ in range(n_rows)]\n'
                '        return _ZERO_ROWS[n_rows]')]},
    {'name': 'NASA-7: the zero rows of the fallback are two module-level arrays', 'expect': ('ANCHOR', 'Nasa.from_data'),
     'edits': [(N, 'def _fit_CpoR(T, CpoR, T_mid=None):',
                '_A_LOW_NO_CP = np.zeros(7)\n_A_HIGH_NO_CP = np.zeros(7)\n\n\ndef _fit_CpoR(T, CpoR, T_mid=None):'),
               (N, '        a_low = np.zeros(7)\n        a_high = np.zeros(7)',
                '        a_low = _A_LOW_NO_CP\n        a_high = _A_HIGH_NO_CP')]},
    {'name': 'NASA-7: candidates that leave fewer than 5 points below them are not screened (the error list shifts '
             'against the candidate list)', 'expect': ('DATAFLOW.T_mid', 'Nasa.from_data'),
     'edits': [(N, 'def _get_CpoR_MSE(T, CpoR, T_mid):', 'def _get_CpoR_MSE(T, CpoR, T_mid, skip_small=False):'),
               (N, '        (mse, a_low, a_high) = _get_CpoR_MSE(T=T, CpoR=CpoR, T_mid=T_m)',
                '        fit = _get_CpoR_MSE(T=T, CpoR=CpoR, T_mid=T_m, skip_small=len(T_mid) > 1)\n'
                '        if fit is None:\n            continue\n        (mse, a_low, a_high) = fit'),
               (N, '        warn(warn_msg, RuntimeWarning)\n    if len(T_high) < 5:',
                '        warn(warn_msg, RuntimeWarning)\n        if skip_small:\n            return None\n'
                '    if len(T_high) < 5:')]},
    {'name': 'NASA-7: candidates that leave fewer than 5 points above them are not screened',
     'expect': ('DATAFLOW.T_mid', 'Nasa.from_data'),
     'edits': [(N, 'def _get_CpoR_MSE(T, CpoR, T_mid):', 'def _get_CpoR_MSE(T, CpoR, T_mid, skip_small=False):'),
               (N, '        (mse, a_low, a_high) = _get_CpoR_MSE(T=T, CpoR=CpoR, T_mid=T_m)',
                '        fit = _get_CpoR_MSE(T=T, CpoR=CpoR, T_mid=T_m, skip_small=len(T_mid) > 1)\n'
                '        if fit is None:\n            continue\n        (mse, a_low, a_high) = fit'),
               (N, '        warn(warn_msg, RuntimeWarning)\n\n    # Fit the polynomials',
                '        warn(warn_msg, RuntimeWarning)\n        if skip_small:\n            return None\n\n'
                '    # Fit the polynomials')]},
    {'name': 'NASA-7: one vanishing heat capacity sends the species down the zero-Cp shortcut',
     'expect': ('REF.fit', 'Nasa.from_data'),
     'edits': [(N, '''    if all([np.isclose(x, 0.) for x in CpoR]) \\
       or any([np.isnan(x) for x in CpoR]):
        T_mid = T[int(len(T) / 2)]''', '''    if any([np.isclose(x, 0.) or np.isnan(x) for x in CpoR]):
        T_mid = T[int(len(T) / 2)]''')]},
    {'name': 'NASA-9 H anchor placed in the interval of T_ref, lower intervals matched at the wrong break',
     'expect': ('CONT.H', 'Nasa9.from_data'),
     'edits': [(N, '''    a[0][7] = (HoRT_ref - get_nasa9_HoRT(a=a[0], T=T_ref)) * T_ref
    for i, row_a in enumerate(a[1:], start=1):
        a8_low = (HoRT_ref - get_nasa9_HoRT(a=a[i - 1], T=T_ref)) * T_ref
        a8_high = (HoRT_ref - get_nasa9_HoRT(a=a[i], T=T_ref)) * T_ref

        HoRT_low = get_nasa9_HoRT(a=a[i - 1],
                                  T=T_mid[i - 1]) + a8_low / T_mid[i - 1]
        HoRT_high = get_nasa9_HoRT(a=a[i],
                                   T=T_mid[i - 1]) + a8_high / T_mid[i - 1]
        HoRT_offset = HoRT_low - HoRT_high
        a[i][7] = T_mid[i - 1] * (a8_high / T_mid[i - 1] + HoRT_offset)

        HoRT_ref = HoRT_low
        T_ref = T_mid[i - 1]
    return a''', '''    i_ref = sum(1 for T_m in T_mid if T_ref > T_m)
    a[i_ref][7] = (HoRT_ref - get_nasa9_HoRT(a=a[i_ref], T=T_ref)) * T_ref
    for i in range(i_ref + 1, len(a)):
        HoRT_low = get_nasa9_HoRT(a=a[i - 1], T=T_mid[i - 1])
        HoRT_high = get_nasa9_HoRT(a=a[i], T=T_mid[i - 1])
        a[i][7] = T_mid[i - 1] * (HoRT_low - HoRT_high)
    for i in range(i_ref - 1, -1, -1):
        HoRT_high = get_nasa9_HoRT(a=a[i + 1], T=T_mid[i - 1])
        HoRT_low = get_nasa9_HoRT(a=a[i], T=T_mid[i - 1])
        a[i][7] = T_mid[i - 1] * (HoRT_high - HoRT_low)
    return a''')]},
    # white-box review, round 3
    {'name': 'NASA-7: a segment with fewer than 5 points is fitted with a lower degree, the coefficients padded at the '
             'wrong end', 'expect': ('SLOT.power', 'Nasa.from_data'),
     'edits': [(N, '    if len(T_low) < 5:', '    deg_low = 4\n    if len(T_low) < 5:'),
               (N, '        warn(warn_msg, RuntimeWarning)\n    if len(T_high) < 5:',
                '        warn(warn_msg, RuntimeWarning)\n        deg_low = len(T_low) - 1\n    if len(T_high) < 5:'),
               (N, '    p_low = np.polyfit(x=T_low, y=CpoR_low, deg=4)',
                '    p_low = np.append(np.polyfit(x=T_low, y=CpoR_low, deg=deg_low), np.zeros(4 - deg_low))')]},
    {'name': 'NASA-7: the same for the segment above the break', 'expect': ('SLOT.power', 'Nasa.from_data'),
     'edits': [(N, '    if len(T_high) < 5:', '    deg_high = 4\n    if len(T_high) < 5:'),
               (N, '        warn(warn_msg, RuntimeWarning)\n\n    # Fit the polynomials',
                '        warn(warn_msg, RuntimeWarning)\n        deg_high = len(T_high) - 1\n\n    # Fit the polynomials'),
               (N, '    p_high = np.polyfit(x=T_high, y=CpoR_high, deg=4)',
                '    p_high = np.append(np.polyfit(x=T_high, y=CpoR_high, deg=deg_high), np.zeros(4 - deg_high))')]},
    {'name': 'Shomate: every point weighted by its own heat capacity (sigma=CpoR)',
     'expect': ('DATAFLOW.fit-weights', 'Shomate.from_data'),
     'edits': [(S_, '        [a, _] = curve_fit(adj_shomate_CpoR, T, np.array(CpoR))',
                '        [a, _] = curve_fit(adj_shomate_CpoR, T, np.array(CpoR), sigma=np.array(CpoR))')]},
    {'name': 'Shomate: a robust loss instead of the sum of squares', 'expect': ('DATAFLOW.fit-weights', 'Shomate.from_data'),
     'edits': [(S_, '        [a, _] = curve_fit(adj_shomate_CpoR, T, np.array(CpoR))',
                "        [a, _] = curve_fit(adj_shomate_CpoR, T, np.array(CpoR), method='trf', loss='soft_l1')")]},
    {'name': 'NASA-7 zero-Cp fallback keeps a user-supplied T_mid, also a whole list of candidates',
     'expect': ('ANCHOR.H', 'Nasa.from_data'),
     'edits': [(N, '        T_mid = T[int(len(T) / 2)]',
                '        if T_mid is None:\n            T_mid = T[int(len(T) / 2)]')]},
    {'name': 'Shomate: the heat capacities are scaled to the fitting unit in place (the caller\'s array is changed)',
     'expect': ('DATAFLOW.data-intact', 'Shomate.from_data'),
     'edits': [(S_, _SHO_FIT, '''        R = c.R(units)
        Cp = np.asarray(CpoR, dtype=float)
        Cp *= R
        adj_shomate_Cp = lambda T, A, B, C, D, E: R * _shomate_CpoR(
            T=T, A=A, B=B, C=C, D=D, E=E, units=units)
        [a, _] = curve_fit(adj_shomate_Cp, T, Cp)''')]},
    {'name': 'NASA-7: the residual of the screening is computed in the caller\'s Cp array',
     'expect': ('DATAFLOW.data-intact', 'Nasa.from_data'),
     'edits': [(N, '    mse = np.mean((CpoR_fit - CpoR)**2)',
                '    residual = CpoR\n    residual -= CpoR_fit\n    mse = np.mean(residual**2)', 0, 2)]},
    {'name': 'NASA-9: one vanishing heat capacity sends the species down the zero-Cp shortcut',
     'expect': ('REF.fit', 'Nasa9.from_data'),
     'edits': [(N, '''    if all([np.isclose(x, 0.) for x in CpoR]) \\
       or any([np.isnan(x) for x in CpoR]):
        return [np.zeros(9) for _ in range(len(T_mid) + 1)]''', '''    if any([np.isclose(x, 0.) or np.isnan(x) for x in CpoR]):
        return [np.zeros(9) for _ in range(len(T_mid) + 1)]''')]},
    {'name': 'NASA-9: an interval with fewer than 7 points is fitted with a lower degree, zeros padded at the low powers',
     'expect': ('SLOT.power', 'Nasa9.from_data'),
     'edits': [(N, '''        res = np.polyfit(T_cond, CpoR_cond*T_cond**2, 6)
        a.append(np.append(res[::-1], [0, 0]))''', '''        deg = 6
        if len(T_cond) < 7:
            deg = len(T_cond) - 1
        res = np.polyfit(T_cond, CpoR_cond*T_cond**2, deg)
        a.append(np.append(np.append(res, np.zeros(6 - deg))[::-1], [0, 0]))''')]},
    {'name': 'NASA-9: Cp*T**2 is computed in the caller\'s Cp array', 'expect': ('DATAFLOW.data-intact', 'Nasa9.from_data'),
     'edits': [(N, '''    a = []
    # if not isinstance(T_mid, np.ndarray):''', '''    a = []
    CpoR *= T**2
    # if not isinstance(T_mid, np.ndarray):'''),
               (N, '        res = np.polyfit(T_cond, CpoR_cond*T_cond**2, 6)', '        res = np.polyfit(T_cond, CpoR_cond, 6)')]},
    {'name': 'Nasa9.from_model: one guess too few when no T_mid is given', 'expect': ('DATAFLOW.breaks', 'Nasa9.from_model'),
     'edits': [(N, '                T_mid0 = np.linspace(T_low, T_high, n_interval + 1)[1:-1]',
                '                T_mid0 = np.linspace(T_low, T_high, n_interval)[1:-1]')]},
    {'name': 'Nasa9.from_model: breaks are optimised although fit_T_mid=False', 'expect': ('DATAFLOW.breaks', 'Nasa9.from_model'),
     'edits': [(N, '        if fit_T_mid:\n            # If guesses not specified, use even spacing',
                '        if fit_T_mid or T_mid is not None:\n            # If guesses not specified, use even spacing')]},
]
EQUIV = [
    {'name': 'default T_mid screen written with an explicit upper index',
     'edits': [(N, '        T_mid = T[5:-5]', '        T_mid = T[5:len(T) - 5]')]},
    {'name': 'Nasa9 species bounds with the builtin min/max',
     'edits': [(N, '        return np.max(T_highs)', '        return max(T_highs)'),
               (N, '        return np.min(T_lows)', '        return min(T_lows)')]},
    {'name': 'Shomate degenerate-data guard written with generators',
     'edits': [(S_, '''    if all([np.isclose(x, 0.) for x in CpoR]) \\
       or any([np.isnan(x) for x in CpoR]):
        return np.zeros(8)''', '''    if all(np.isclose(x, 0.) for x in CpoR) \\
       or any(np.isnan(x) for x in CpoR):
        return np.zeros(8)''')]},
    {'name': '_fit_SoR rewritten with explicit difference',
     'edits': [(N, '        a7_low_out = SoR_ref - get_nasa_SoR(a=a_low, T=T_ref)', '        a7_low_out = -(get_nasa_SoR(a=a_low, T=T_ref) - SoR_ref)')]},
    {'name': 'masks written with flipped operands kept complementary',
     'edits': [(N, '    low_condition = (T <= T_mid)\n    high_condition = (T > T_mid)', '    low_condition = (T < T_mid)\n    high_condition = (T >= T_mid)')]},
    {'name': 'NASA-7 masks written with the break temperature on the left',
     'edits': [(N, '    low_condition = (T <= T_mid)\n    high_condition = (T > T_mid)', '    low_condition = (T_mid >= T)\n    high_condition = (T_mid < T)')]},
    {'name': 'NASA-9 lower test written with the bound on the left',
     'edits': [(N, '        condition = (T > T1) & (T <= T2)', '        condition = (T1 < T) & (T <= T2)')]},
    {'name': 'from_model hands the leading arguments of from_data positionally',
     'edits': [(S_, '''        return cls.from_data(name=name,
                             T=T,
                             CpoR=CpoR,
                             T_ref=T_mean,
                             HoRT_ref=HoRT_ref,
                             SoR_ref=SoR_ref,''', '''        return cls.from_data(name, T, CpoR, T_mean, HoRT_ref, SoR_ref,''')]},
    {'name': 'arg-min of the candidate errors with the builtin',
     'edits': [(N, '    min_mse = min(mse_list)\n    min_i = np.where(min_mse == mse_list)[0][0]', '    min_i = min(range(len(mse_list)), key=lambda i: mse_list[i])')]},
    {'name': 'NASA-9 anchor helpers loop over the upper intervals by index',
     'edits': [(N, '    for i, row_a in enumerate(a[1:], start=1):', '    for i in range(1, len(a)):', 0, 2),
               (N, '    for i, row_a in enumerate(a[1:], start=1):', '    for i in range(1, len(a)):')]},
    # white-box review, round 3
    {'name': 'Shomate: curve_fit on t = T/1000 and a model function of t',
     'edits': [(S_, _SHO_FIT, '''        t = np.asarray(T, dtype=float) / 1000.
        adj_shomate_CpoR = lambda t, A, B, C, D, E: _shomate_CpoR_t(
            t=t, A=A, B=B, C=C, D=D, E=E, units=units)
        [a, _] = curve_fit(adj_shomate_CpoR, t, np.array(CpoR))'''),
               (S_, 'def _shomate_CpoR(T, A, B, C, D, E, units):', '''def _shomate_CpoR_t(t, A, B, C, D, E, units):
    a = np.array([A, B, C, D, E, 0., 0., 0.])
    t_arr = np.array([[1., x, x**2, x**3, 1. / x**2, 0., 0., 0.] for x in t])
    return np.dot(t_arr, a) / c.R(units)


def _shomate_CpoR(T, A, B, C, D, E, units):''')]},
    {'name': 'Shomate: the defaults of curve_fit spelled out',
     'edits': [(S_, '        [a, _] = curve_fit(adj_shomate_CpoR, T, np.array(CpoR))',
                '        [a, _] = curve_fit(adj_shomate_CpoR, T, np.array(CpoR), p0=np.ones(5), sigma=None,\n'
                '                           absolute_sigma=False, check_finite=True, bounds=(-np.inf, np.inf))')]},
    {'name': 'Shomate: Cp in the fitting unit fitted with a model in that unit, on a copy of the data (same minimiser)',
     'edits': [(S_, _SHO_FIT, '''        R = c.R(units)
        Cp = np.array(CpoR, dtype=float) * R
        adj_shomate_Cp = lambda T, A, B, C, D, E: R * _shomate_CpoR(
            T=T, A=A, B=B, C=C, D=D, E=E, units=units)
        [a, _] = curve_fit(adj_shomate_Cp, T, Cp)''')]},
    {'name': 'NASA-7: a small segment fitted with a lower degree, zeros padded in FRONT (highest power first): another '
             'valid least-squares polynomial, every clause of the property still holds',
     'edits': [(N, '    if len(T_low) < 5:', '    deg_low = 4\n    if len(T_low) < 5:'),
               (N, '        warn(warn_msg, RuntimeWarning)\n    if len(T_high) < 5:',
                '        warn(warn_msg, RuntimeWarning)\n        deg_low = len(T_low) - 1\n    if len(T_high) < 5:'),
               (N, '    p_low = np.polyfit(x=T_low, y=CpoR_low, deg=4)',
                '    p_low = np.append(np.zeros(4 - deg_low), np.polyfit(x=T_low, y=CpoR_low, deg=deg_low))')]},
    {'name': 'NASA-7 zero-Cp fallback: middle data point by floor division',
     'edits': [(N, '        T_mid = T[int(len(T) / 2)]', '        T_mid = T[len(T) // 2]')]},
    {'name': 'NASA-9: an interval with fewer than 7 points fitted with a lower degree, zeros padded at the HIGH powers '
             '(another valid least-squares polynomial)',
     'edits': [(N, '''        res = np.polyfit(T_cond, CpoR_cond*T_cond**2, 6)
        a.append(np.append(res[::-1], [0, 0]))''', '''        deg = 6
        if len(T_cond) < 7:
            deg = len(T_cond) - 1
        res = np.polyfit(T_cond, CpoR_cond*T_cond**2, deg)
        a.append(np.append(res[::-1], np.zeros(8 - deg)))''')]},
    {'name': 'NASA-9: the fitted quantity built on a copy of the data',
     'edits': [(N, '        res = np.polyfit(T_cond, CpoR_cond*T_cond**2, 6)',
                '        y_cond = np.array(CpoR_cond, dtype=float)\n        y_cond *= T_cond**2\n'
                '        res = np.polyfit(T_cond, y_cond, 6)')]},
    {'name': 'Nasa9.from_model: the evenly spaced guesses written out',
     'edits': [(N, '                T_mid0 = np.linspace(T_low, T_high, n_interval + 1)[1:-1]',
                '                T_mid0 = np.array([T_low + (T_high - T_low) * k / n_interval\n'
                '                                   for k in range(1, n_interval)])')]},
]
