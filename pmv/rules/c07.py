"""C07 - OpenMKM / Cantera input files transcribe the model faithfully (the decidable clauses)."""
import itertools
from fractions import Fraction as Fr

from ..absstr import SegStr
from ..nf import Rat, C
from ..source import Unsupported, AnchorError
from ..xlate import Interp, Frame, Obj, ListV, DictV, Raised, RankOrder
from .common import same, show, coeff_vector
from .rxnfix import get_public
from .c07b import lossy_fields, NEED_DIGITS, check_cti_directives, check_yaml_plain, PENDING_DEFECTS

OM = 'pmutt.io.omkm'
Z = '\x00'


def new_interp(repo, **kw):
    I = Interp(repo, **kw)
    I.dumps = []

    def dump(I_, fr, args, kwargs, n):
        data = kwargs.get('data', args[0] if args else None)
        I_.dumps.append(data)
        return SegStr.field('yaml#%d' % len(I_.dumps), None, 'text')
    I.native['yaml.dump'] = dump

    def path(I_, fr, args, kwargs, n):
        parts = [I_.plain(a_) for a_ in args]
        if kwargs or not parts or not all(isinstance(p_, str) for p_ in parts):
            raise Unsupported('pathlib.Path(%s)' % ', '.join(show(a_, 30) for a_ in args), n)
        import pathlib
        return path_stub(pathlib.PurePosixPath(*parts))
    I.native['pathlib.Path'] = path
    return I


def path_stub(pure):
    """a pathlib.Path of a concrete name as the writers use it (a name to open, a name with another suffix): the
    lexical members are those of the real class on the concrete name, every member that would touch the file system is
    outside the interpreted fragment"""
    import pathlib
    o = Obj('path:%s' % pure, closed=True)
    o.isa.update({'Path', 'PurePath', 'PathLike'})
    o.pure = pure
    for a_ in ('name', 'suffix', 'stem', 'root', 'drive', 'anchor'):
        o.attrs[a_] = getattr(pure, a_)
    o.attrs['parts'] = ListV(list(pure.parts))
    o.attrs['suffixes'] = ListV(list(pure.suffixes))
    o.attrs['parent'] = o if pure.parent == pure else path_stub(pure.parent)

    def text_arg(I_, v_):
        t_ = I_.plain(v_)
        if not isinstance(t_, str):
            raise Unsupported('pathlib.Path method with a symbolic argument')
        return t_
    o.opaque_methods['with_suffix'] = lambda I_, ob, a, k: path_stub(pure.with_suffix(text_arg(I_, (a + list(k.values()))[0])))
    o.opaque_methods['with_name'] = lambda I_, ob, a, k: path_stub(pure.with_name(text_arg(I_, (a + list(k.values()))[0])))
    o.opaque_methods['joinpath'] = lambda I_, ob, a, k: path_stub(pure.joinpath(*[text_arg(I_, x_) for x_ in a]))
    o.opaque_methods['as_posix'] = lambda I_, ob, a, k: pure.as_posix()

    def write_text(I_, ob, a, k):
        # Path.write_text(data): the file holds exactly the text (encoding / errors / newline are outside the fragment)
        if len(a) != 1 or k:
            raise Unsupported('pathlib.Path.write_text with options')
        I_.files[ob] = I_.seg(a[0]).splitlines()
        return None
    o.opaque_methods['write_text'] = write_text

    def path_open(I_, ob, a, k):
        # Path.open(mode='r', buffering=-1, encoding=None, errors=None, newline=None) is the built-in open() on the
        # path: the interpreter's model of open(), the file registered under the path object as for open(path, ...)
        if len(a) > 1:
            raise Unsupported('pathlib.Path.open with positional options after the mode')
        from ..xlate import builtin_call
        return builtin_call(I_, Frame(I_, I_.repo.module('pmutt'), {}, None, None), 'open', [ob] + list(a), dict(k),
                            None)
    o.opaque_methods['open'] = path_open
    o.opaque_methods['__str__'] = lambda I_, ob, a, k: str(pure)
    o.opaque_methods['__fspath__'] = lambda I_, ob, a, k: str(pure)
    for nm_ in set(dir(pathlib.Path)) | set(dir(pathlib.PurePosixPath)):
        if nm_ in o.attrs or nm_ in o.opaque_methods or (nm_.startswith('_') and not nm_.startswith('__')):
            continue
        if nm_ in ('__class__', '__dict__', '__doc__', '__module__', '__init__', '__new__', '__slots__'):
            continue

        def refuse(I_, ob, a, k, nm_=nm_):
            raise Unsupported('pathlib.Path.%s (no model in the C07 fixture)' % nm_)
        o.opaque_methods[nm_] = refuse
    return o


def seg_equal(I, a, b):
    """two abstract texts are the same text: the same literal pieces and the same printed values in the same format"""
    sa, sb = I.seg(a).segs, I.seg(b).segs
    if len(sa) != len(sb):
        return False
    for x, y in zip(sa, sb):
        if x.kind != y.kind:
            return False
        if x.kind == 'lit':
            if x.text != y.text:
                return False
        elif not ((x.value is y.value or same(x.value, y.value)) and x.cls == y.cls and (x.spec or '') == (y.spec or '')
                  and x.width == y.width):
            return False
    return True


def numpy_scalar():
    o = Obj('numpy_scalar')
    o.isa.update({'Number', 'generic', 'number'})   # registered with numbers.Number, but neither int nor float
    # what every NumPy scalar has: the same value as a Python number
    o.opaque_methods['tolist'] = lambda I_, ob, a, k: I_.D.sym('py<numpy_scalar>')
    o.opaque_methods['item'] = lambda I_, ob, a, k: I_.D.sym('py<numpy_scalar>')
    return o


def units_obj(I, repo):
    fr = Frame(I, repo.module('pmutt'), {}, None, None)
    return fr.apply(repo.cls('pmutt.omkm.units.Units'), [], {}, None)


# ----------------------------------------------------------------------
def assign_yaml(run, repo):
    """every kind of value a user may pass for a reactor option, through the public write_yaml: with a unit
    (flow_rate -> inlet_gas/flow_rate in cm3/s) and without (nodes -> reactor/nodes).  Which private helper places
    the value is the module's own business."""
    m = repo.module(OM)
    fn = m.functions.get('write_yaml')
    if fn is None:
        raise AnchorError(OM + '.write_yaml not found')
    kinds = {
        'python number': lambda I: I.D.sym('v'),
        'NumPy number (np.int64 / np.float32)': lambda I: numpy_scalar(),
        'string': lambda I: 'pfr',
        'string carrying its own units': lambda I: '10 cm3',
        'list of numbers': lambda I: ListV([I.D.sym('v0'), I.D.sym('v1')]),
        'dictionary': lambda I: DictV({'a': I.D.sym('v')}),
        'boolean': lambda I: True,
    }

    def written(I, kw, path, lab):
        r = I.call_function(m, fn, [], dict(kw, phases=DictV()))
        if isinstance(r, Raised):
            return r, None
        cur = I.dumps[-1] if I.dumps else None
        for p_ in path:
            cur = cur.d.get(p_) if isinstance(cur, DictV) else None
        return r, (cur.d.get(lab) if isinstance(cur, DictV) else None)

    for kname, mk in kinds.items():
        for unit in (None, '_length3/_time'):
            if kname in ('dictionary', 'boolean', 'string') and unit is not None:
                continue        # such options never carry a unit in the writers
            # a test on the value itself is followed for a generic non-zero number
            I = new_interp(repo, order=RankOrder({'v': 1, 'v0': 1, 'v1': 1, 'py<numpy_scalar>': 1}, const_ranks=True))
            u = units_obj(I, repo)
            val = mk(I)
            opt, path, lab = ('flow_rate', ('inlet_gas',), 'flow_rate') if unit else ('nodes', ('reactor',), 'nodes')
            r, got = written(I, {opt: val, 'units': u}, path, lab)
            key = 'value=%s units=%s' % (kname, 'given' if unit else 'None')
            if I.dumps and not isinstance(r, Raised) and not (kname.startswith('NumPy') and unit is None and
                                                              'D1' in PENDING_DEFECTS):
                # (a NumPy number for an option without unit is handed to the serialiser as it is on the unmodified
                # tree: DEFECT3_C07.md D1 - that instance is not armed)
                check_yaml_plain(run, I.dumps[-1], 'DATAFLOW.reactor', 'io.omkm.write_yaml', key + ' plain YAML data',
                                 m, fn)
            run.check(got is not None or isinstance(r, Raised), 'PATH.assign', 'io.omkm.write_yaml', key,
                      'a supplied %s %s (%s=...) is neither written under its label nor rejected: the option silently '
                      'disappears from the reactor file' % (kname, 'with unit %r' % unit if unit else 'without unit',
                                                            opt),
                      m, fn, sample='write_yaml(%s: %s) -> %s' % (opt, key, show(got, 60)))
            if got is not None and isinstance(val, str):
                # text is the user's own wording of the value ("<value> <unit>" when the option has a unit): it is
                # written as it stands, nothing appended (quoting is not decided here)
                sg = I.seg(got) if isinstance(got, (str, SegStr)) else None
                txt_ = sg.literal().strip().strip('"\'').strip() if sg is not None and sg.is_literal() else None
                run.check(txt_ == val, 'DATAFLOW.unit', 'io.omkm.write_yaml', key + ' text',
                          'the text %r given for %s is written as %s: text is carried as the user wrote it, the unit '
                          'system adds nothing to it' % (val, opt, show(got, 80)), m, fn,
                          sample='write_yaml(%s=%r) -> %r' % (opt, val, txt_))
            if got is not None and isinstance(val, Obj) and unit:
                sg = I.seg(got) if isinstance(got, (str, SegStr)) else None
                # the number itself or the same value as a Python number (val.tolist() / val.item())
                vals_ = [s_.value for s_ in sg.fields()] if sg is not None else []
                ok = sg is not None and (vals_ in ([val], [val.name]) or (
                    len(vals_) == 1 and isinstance(vals_[0], Rat) and vals_[0].eq(I.D.sym('py<numpy_scalar>')))) and \
                    ''.join(s_.text for s_ in sg.segs if s_.kind == 'lit').strip().strip('"\'').strip() == 'cm3/s'
                run.check(ok, 'DATAFLOW.unit', 'io.omkm.write_yaml', key,
                          'a NumPy number with unit template %r is written as %s, expected "<value> cm3/s" for the '
                          'default unit system' % (unit, show(got, 80)), m, fn)
            if got is not None and isinstance(val, Rat) and unit:
                sg = I.seg(got)
                ok = [s_.value for s_ in sg.fields() if isinstance(s_.value, Rat)] == [val] and \
                    'cm3/s' in ''.join(s_.text for s_ in sg.segs if s_.kind == 'lit')
                run.check(ok, 'DATAFLOW.unit', 'io.omkm.write_yaml', key,
                          'a number with unit template %r is written as %s, expected "<value> cm3/s" for the default '
                          'unit system' % (unit, show(sg, 80)), m, fn)
    # a value the user already put into the section dictionary wins over the keyword
    I = new_interp(repo, order=RankOrder({'v': 1}, const_ranks=True))
    u = units_obj(I, repo)
    r, got = written(I, {'nodes': I.D.sym('v'), 'reactor': DictV({'nodes': 'user value'}), 'units': u},
                     ('reactor',), 'nodes')
    run.check(got == 'user value', 'PATH.assign', 'io.omkm.write_yaml', 'label already present',
              'a value the user put in the section dictionary is overwritten (now %s)' % show(got, 60), m, fn)


# ----------------------------------------------------------------------
REACTOR_OPTS = {
    # option: (section path, label, unit substring expected or None)
    'reactor_type': (('reactor',), 'type', None), 'temperature_mode': (('reactor',), 'temperature_mode', None),
    'pressure_mode': (('reactor',), 'pressure_mode', None), 'nodes': (('reactor',), 'nodes', None),
    'V': (('reactor',), 'volume', 'cm3'), 'A': (('reactor',), 'area', 'cm2'), 'L': (('reactor',), 'length', 'cm'),
    'cat_abyv': (('reactor',), 'cat_abyv', '/cm'), 'T': (('reactor',), 'temperature', None),
    'P': (('reactor',), 'pressure', 'bar'), 'residence_time': (('inlet_gas',), 'residence_time', 's'),
    'mass_flow_rate': (('inlet_gas',), 'mass_flow_rate', 'kg/s'), 'flow_rate': (('inlet_gas',), 'flow_rate', 'cm3/s'),
    'atol': (('simulation', 'solver'), 'atol', None), 'rtol': (('simulation', 'solver'), 'rtol', None),
    'end_time': (('simulation',), 'end_time', 's'), 'transient': (('simulation',), 'transient', None),
    'stepping': (('simulation',), 'stepping', None), 'step_size': (('simulation',), 'step_size', None),
    'init_step': (('simulation',), 'init_step', None), 'output_format': (('simulation',), 'output_format', None),
    'full_SA': (('simulation', 'sensitivity'), 'full', None),
}
STRING_OPTS = ('reactor_type', 'temperature_mode', 'pressure_mode', 'stepping', 'output_format')


def reactor_yaml(run, repo):
    m = repo.module(OM)
    fn = m.functions.get('write_yaml')
    if fn is None:
        raise AnchorError(OM + '.write_yaml not found')
    run.fn(OM + '.write_yaml')
    # every optional argument omitted
    I = new_interp(repo)
    r = I.call_function(m, fn, [], {})
    run.check(not isinstance(r, Raised), 'DEF.defaults', 'io.omkm.write_yaml', 'all options omitted',
              'write_yaml() with every option omitted raises %s (a local is used before it is bound)'
              % (r.exc if isinstance(r, Raised) else ''), m, r.node if isinstance(r, Raised) and
              hasattr(r.node, 'lineno') else fn)
    # one option at a time, all at once, and every numeric option given as the number zero (a closed reactor has a
    # flow rate of 0: it is a supplied value, not an omitted one)
    numeric = [k for k in REACTOR_OPTS if k not in STRING_OPTS and k not in ('transient', 'full_SA')]
    for subset in [[k] for k in REACTOR_OPTS] + [list(REACTOR_OPTS)] + [['zero:' + k] for k in numeric]:
        zero = subset[0].startswith('zero:')
        if zero:
            subset = [subset[0][5:]]
        # a test on the value itself is followed for a generic non-zero number
        from ..xlate import RankOrder
        I = new_interp(repo, order=RankOrder({'v_' + k: 1 for k in REACTOR_OPTS}, const_ranks=True))
        u = units_obj(I, repo)
        kw = {'units': u, 'phases': DictV()}
        vals = {}
        for k in subset:
            vals[k] = ('opt_' + k) if k in STRING_OPTS else (True if k in ('transient', 'full_SA') else I.D.sym('v_' + k))
            if zero:
                vals[k] = C(0)
            kw[k] = vals[k]
        r = I.call_function(m, fn, [], kw)
        label = 'options=%s%s' % (subset[0] if len(subset) == 1 else 'all', ' given as 0' if zero else '')
        if isinstance(r, Raised) or not I.dumps:
            run.fail('DATAFLOW.reactor', 'io.omkm.write_yaml', label, 'raises %s / nothing dumped' % show(r), m, fn)
            continue
        data = I.dumps[-1]
        check_yaml_plain(run, data, 'DATAFLOW.reactor', 'io.omkm.write_yaml', label + ' plain YAML data', m, fn)
        for k in subset:
            path, lab, unit = REACTOR_OPTS[k]
            cur = data
            for p_ in path:
                cur = cur.d.get(p_) if isinstance(cur, DictV) else None
            got = cur.d.get(lab) if isinstance(cur, DictV) else None
            ok = got is not None
            if ok and isinstance(vals[k], Rat):
                sg = I.seg(got) if isinstance(got, (str, SegStr, Rat)) else None
                if unit is None:
                    ok = isinstance(got, Rat) and got.eq(vals[k])
                elif zero:
                    txt = sg.literal().strip('"').split() if sg is not None and sg.is_literal() else []
                    try:
                        ok = len(txt) >= 2 and float(txt[0]) == 0.0 and unit in ' '.join(txt[1:])
                    except ValueError:
                        ok = False
                else:
                    ok = sg is not None and [s.value for s in sg.fields() if isinstance(s.value, Rat)] == [vals[k]] \
                        and unit in ''.join(s.text for s in sg.segs if s.kind == 'lit')
            elif ok and isinstance(vals[k], str):
                ok = vals[k] in (I.seg(got).literal() if I.seg(got).is_literal() else '')
            run.check(ok, 'DATAFLOW.reactor', 'io.omkm.write_yaml', 'option:' + k + (' = 0' if zero else ''),
                      '[%s] option %s=%s must appear as %s/%s%s; the YAML data holds %s'
                      % (label, k, show(vals[k], 40), '/'.join(path), lab, ' in ' + unit if unit else '',
                         show(got, 80)), m, fn, sample='write_yaml(%s=v) -> %s.%s' % (k, '/'.join(path), lab)
                      if len(subset) == 1 else None)
            if isinstance(vals[k], Rat) and not zero and isinstance(got, (str, SegStr)):
                lossy = lossy_fields(I.seg(got))
                run.check(not lossy, 'DATAFLOW.reactor', 'io.omkm.write_yaml', 'option:' + k + ' digits kept',
                          '[%s] option %s is printed as %s: an operating value has any magnitude in the unit system '
                          'asked for (a volume of 2.5e-4 m3), its text must keep at least %d significant digits whatever '
                          'the magnitude' % (label, k, ['%s as {:%s}' % (show(v_, 30), s_) for v_, s_ in lossy[:3]],
                                             NEED_DIGITS), m, fn)
        if len(subset) == 1:
            # nothing else: every leaf of the data stems from the supplied option
            def leaves(x, pre=()):
                if isinstance(x, DictV):
                    for kk, vv in x.d.items():
                        yield from leaves(vv, pre + (kk,))
                else:
                    yield pre, x
            extra = [p_ for p_, v_ in leaves(data) if p_ != REACTOR_OPTS[subset[0]][0] + (REACTOR_OPTS[subset[0]][1],)]
            run.check(not extra, 'DATAFLOW.nothing-else', 'io.omkm.write_yaml', 'option:' + subset[0],
                      '[%s] the reactor file also contains %s' % (label, extra), m, fn)
    # no unit system given (documented: the values are then taken to be SI): every option that carries a unit, alone,
    # as a number and as text with its own unit, is written as it is
    for k in [k_ for k_, v_ in REACTOR_OPTS.items() if v_[2] is not None]:
        path, lab, unit = REACTOR_OPTS[k]
        for kind in ('number', 'text'):
            I = new_interp(repo, order=RankOrder({'v_' + k: 1}, const_ranks=True))
            val = I.D.sym('v_' + k) if kind == 'number' else '7 own_unit'
            r = I.call_function(m, fn, [], {k: val, 'phases': DictV()})
            got = None
            if not isinstance(r, Raised) and I.dumps:
                cur = I.dumps[-1]
                for p_ in path:
                    cur = cur.d.get(p_) if isinstance(cur, DictV) else None
                got = cur.d.get(lab) if isinstance(cur, DictV) else None
            if kind == 'number':
                ok = isinstance(got, Rat) and got.eq(val)
            else:
                sg = I.seg(got) if isinstance(got, (str, SegStr)) else None
                ok = sg is not None and sg.is_literal() and sg.literal().strip().strip('"\'').strip() == val
            run.check(ok, 'DATAFLOW.unit', 'io.omkm.write_yaml', 'option:%s as %s, no unit system' % (k, kind),
                      'write_yaml(%s=%s) without units= %s; expected the value under %s/%s as it was given (SI is '
                      'assumed when no unit system is named)'
                      % (k, show(val, 30), 'raises %s' % r.exc if isinstance(r, Raised) else 'writes %s' % show(got, 60),
                         '/'.join(path), lab), m, fn,
                      sample='write_yaml(%s=v) without units -> %s/%s = v' % (k, '/'.join(path), lab)
                      if kind == 'number' and k == 'V' else None)
    # every option that carries a unit, given as text in a unit of the user's choice (documented: "<value> <unit>"),
    # next to a unit system that would say otherwise: the text is the value, the unit system adds nothing
    own = {'V': '10 cm3', 'A': '3 mm2', 'L': '2 mm', 'cat_abyv': '5 /mm', 'P': '1 atm', 'residence_time': '4 min',
           'mass_flow_rate': '1 g/s', 'flow_rate': '1 cm3/s', 'end_time': '2 h'}
    I = new_interp(repo)
    fr = Frame(I, repo.module('pmutt'), {}, None, None)
    u = fr.apply(repo.cls('pmutt.omkm.units.Units'), [], {'length': 'm', 'time': 's', 'pressure': 'bar', 'mass': 'kg'},
                 None)
    r = I.call_function(m, fn, [], dict(own, units=u, phases=DictV()))
    if isinstance(r, Raised) or not I.dumps:
        run.fail('DATAFLOW.unit', 'io.omkm.write_yaml', 'options given as text with their own unit',
                 'raises %s / nothing dumped' % show(r), m, fn)
    else:
        for k, txt in own.items():
            path, lab, unit = REACTOR_OPTS[k]
            cur = I.dumps[-1]
            for p_ in path:
                cur = cur.d.get(p_) if isinstance(cur, DictV) else None
            got = cur.d.get(lab) if isinstance(cur, DictV) else None
            sg = I.seg(got) if isinstance(got, (str, SegStr)) else None
            written = sg.literal().strip().strip('"\'').strip() if sg is not None and sg.is_literal() else None
            run.check(written == txt, 'DATAFLOW.unit', 'io.omkm.write_yaml', 'option:%s as text with its own unit' % k,
                      'write_yaml(%s=%r, units=Units(length=m, ...)) writes %s/%s: %s; the text is the value, expected '
                      '%r' % (k, txt, '/'.join(path), lab, show(got, 60), txt), m, fn)


def reactor_collections(run, repo):
    """the options of write_yaml that carry collections: series of temperatures / pressures / flow rates, the
    sensitivity lists, phases given as objects, the generic section dictionaries, a unit system given as a dictionary"""
    m = repo.module(OM)
    fn = m.functions['write_yaml']

    def at(data, *path):
        cur = data
        for p_ in path:
            cur = cur.d.get(p_) if isinstance(cur, DictV) else None
        return cur

    def quantity(I, got, val, unit):
        """the printed quantity is '<val> <unit>'"""
        if got is None:
            return False
        sg = I.seg(got)
        nums = [s_.value for s_ in sg.fields() if isinstance(s_.value, Rat)]
        return len(nums) == 1 and nums[0].eq(val) and \
            ''.join(s_.text for s_ in sg.segs if s_.kind == 'lit').strip('"').strip() == unit

    # ---- series (list, tuple/array) with and without the single value next to them
    for form, single in itertools.product(('list', 'array'), (False, True)):
        I = new_interp(repo, order=RankOrder({}, const_ranks=True, fallback=lambda a_: 1))
        D = I.D
        u = units_obj(I, repo)

        def series(name):
            v = ListV([D.sym('%s%d' % (name, i)) for i in range(3)])
            v.is_array = form == 'array'
            return v
        mT, mP, mQ = series('T'), series('P'), series('Q')
        kw = {'units': u, 'phases': DictV(), 'multi_T': mT, 'multi_P': mP, 'multi_flow_rate': mQ}
        if single:
            kw.update({'T': D.sym('Ts'), 'P': D.sym('Ps'), 'flow_rate': D.sym('Qs')})
        r = I.call_function(m, fn, [], kw)
        label = 'series given as %s%s' % (form, ', single values given too' if single else '')
        if isinstance(r, Raised) or not I.dumps:
            run.fail('DATAFLOW.reactor', 'io.omkm.write_yaml', label, 'raises %s / nothing dumped' % show(r), m, fn)
            continue
        data = I.dumps[-1]
        if form == 'list' or 'D1' not in PENDING_DEFECTS:
            # (series given as arrays reach the serialiser as lists of NumPy numbers on the unmodified tree:
            # DEFECT3_C07.md D1 - not armed)
            check_yaml_plain(run, data, 'DATAFLOW.reactor', 'io.omkm.write_yaml', 'series: plain YAML data [%s]' % label,
                             m, fn)
        first = {'T': D.sym('Ts') if single else mT.items[0], 'P': D.sym('Ps') if single else mP.items[0],
                 'Q': D.sym('Qs') if single else mQ.items[0]}
        gT = at(data, 'reactor', 'temperature')
        ok1 = isinstance(gT, Rat) and gT.eq(first['T']) and quantity(I, at(data, 'reactor', 'pressure'), first['P'], 'bar') \
            and quantity(I, at(data, 'inlet_gas', 'flow_rate'), first['Q'], 'cm3/s')
        run.check(ok1, 'DATAFLOW.reactor', 'io.omkm.write_yaml', 'series: operating point [%s]' % label,
                  '[%s] reactor temperature/pressure and inlet flow rate must be %s: got %s, %s, %s'
                  % (label, 'the single values' if single else 'the first entries of the series', show(gT, 40),
                     show(at(data, 'reactor', 'pressure'), 60), show(at(data, 'inlet_gas', 'flow_rate'), 60)), m, fn)
        mi = at(data, 'simulation', 'multi_input')
        gt, gp, gq = (at(mi, k_) if isinstance(mi, DictV) else None for k_ in ('temperature', 'pressure', 'flow_rate'))
        ok2 = isinstance(gt, ListV) and len(gt) == 3 and all(isinstance(a_, Rat) and a_.eq(b_)
                                                              for a_, b_ in zip(gt.items, mT.items))
        ok2 = ok2 and isinstance(gp, ListV) and len(gp) == 3 and \
            all(quantity(I, a_, b_, 'bar') for a_, b_ in zip(gp.items, mP.items))
        ok2 = ok2 and isinstance(gq, ListV) and len(gq) == 3 and \
            all(quantity(I, a_, b_, 'cm3/s') for a_, b_ in zip(gq.items, mQ.items))
        lossy = [x_ for e_ in ((gp.items if isinstance(gp, ListV) else []) + (gq.items if isinstance(gq, ListV) else []))
                 if isinstance(e_, (str, SegStr)) for x_ in lossy_fields(I.seg(e_))]
        run.check(not lossy, 'DATAFLOW.reactor', 'io.omkm.write_yaml', 'series: digits kept [%s]' % label,
                  '[%s] the entries of a series are printed as %s: their text must keep at least %d significant digits '
                  'whatever the magnitude' % (label, ['%s as {:%s}' % (show(v_, 30), s_) for v_, s_ in lossy[:3]],
                                              NEED_DIGITS), m, fn)
        run.check(ok2, 'DATAFLOW.reactor', 'io.omkm.write_yaml', 'series: multi_input [%s]' % label,
                  '[%s] simulation/multi_input must list every temperature, every pressure in bar and every flow rate '
                  'in cm3/s, in order: got %s / %s / %s' % (label, show(gt, 80), show(gp, 120), show(gq, 120)), m, fn,
                  sample='write_yaml(multi_T, multi_P, multi_flow_rate as %s) -> simulation/multi_input' % form)
    # ---- series given as text with the user's own units (documented: list of float/str), and mixed with numbers:
    # text stays as the user wrote it, numbers get the unit of the unit system
    def as_text(I, got):
        sg = I.seg(got) if isinstance(got, (str, SegStr)) else None
        return sg.literal().strip().strip('"\'').strip() if sg is not None and sg.is_literal() else None
    for form in ('list',):
        I = new_interp(repo, order=RankOrder({}, const_ranks=True, fallback=lambda a_: 1))
        D = I.D
        u = units_obj(I, repo)
        mP = ListV(['1 atm', '2 atm', '250 kPa'])
        mQ = ListV(['1 m3/h', D.sym('Q1'), '3 L/min'])
        mQ2 = ListV([D.sym('R0'), '2 L/min'])
        r = I.call_function(m, fn, [], {'units': u, 'phases': DictV(), 'multi_P': mP, 'multi_flow_rate': mQ})
        label = 'series given as text'
        if isinstance(r, Raised) or not I.dumps:
            run.fail('DATAFLOW.unit', 'io.omkm.write_yaml', label, 'raises %s / nothing dumped' % show(r), m, fn)
            continue
        data = I.dumps[-1]
        mi = at(data, 'simulation', 'multi_input')
        gp, gq = (at(mi, k_) if isinstance(mi, DictV) else None for k_ in ('pressure', 'flow_rate'))
        okp = isinstance(gp, ListV) and [as_text(I, x) for x in gp.items] == list(mP.items)
        okq = isinstance(gq, ListV) and len(gq) == 3 and as_text(I, gq.items[0]) == '1 m3/h' and \
            quantity(I, gq.items[1], D.sym('Q1'), 'cm3/s') and as_text(I, gq.items[2]) == '3 L/min'
        run.check(okp and okq, 'DATAFLOW.unit', 'io.omkm.write_yaml', label + ': multi_input',
                  '[%s] multi_P=%s and multi_flow_rate=[1 m3/h, Q1, 3 L/min] must be listed entry by entry, text as '
                  'the user wrote it and the number as "Q1 cm3/s": got %s / %s'
                  % (label, list(mP.items), show(gp, 160), show(gq, 200)), m, fn,
                  sample='write_yaml(multi_P=[text...], multi_flow_rate=[text, number, text]) -> multi_input')
        run.check(as_text(I, at(data, 'reactor', 'pressure')) == '1 atm' and
                  as_text(I, at(data, 'inlet_gas', 'flow_rate')) == '1 m3/h', 'DATAFLOW.unit', 'io.omkm.write_yaml',
                  label + ': operating point',
                  '[%s] reactor pressure and inlet flow rate are the first entries of the series, as the user wrote '
                  'them: got %s and %s' % (label, show(at(data, 'reactor', 'pressure'), 60),
                                           show(at(data, 'inlet_gas', 'flow_rate'), 60)), m, fn)
        # a series that starts with a number and goes on with text
        I.dumps.clear()
        r = I.call_function(m, fn, [], {'units': u, 'phases': DictV(), 'multi_flow_rate': mQ2})
        gq = at(I.dumps[-1], 'simulation', 'multi_input', 'flow_rate') if I.dumps and not isinstance(r, Raised) else None
        run.check(isinstance(gq, ListV) and len(gq) == 2 and quantity(I, gq.items[0], D.sym('R0'), 'cm3/s') and
                  as_text(I, gq.items[1]) == '2 L/min' and
                  quantity(I, at(I.dumps[-1], 'inlet_gas', 'flow_rate'), D.sym('R0'), 'cm3/s'), 'DATAFLOW.unit',
                  'io.omkm.write_yaml', label + ': number first',
                  '[%s] multi_flow_rate=[R0, 2 L/min] must give ["R0 cm3/s", "2 L/min"] and the inlet flow rate '
                  '"R0 cm3/s": got %s' % (label, show(gq if gq is not None else r, 160)), m, fn)
    # ---- sensitivity lists: identifiers given as text or as objects
    I = new_interp(repo)
    u = units_obj(I, repo)
    rx_o = Obj('rxn', attrs={'id': 'r_0002'})
    sp_o = Obj('sp', attrs={'name': 'CO(S)'})
    r = I.call_function(m, fn, [], {'units': u, 'phases': DictV(), 'reactions_SA': ListV(['r_0001', rx_o]),
                                    'species_SA': ListV([sp_o, 'H2'])})
    data = I.dumps[-1] if I.dumps and not isinstance(r, Raised) else None
    if data is not None:
        check_yaml_plain(run, data, 'DATAFLOW.reactor', 'io.omkm.write_yaml', 'sensitivity lists: plain YAML data', m, fn)
    sens = at(data, 'simulation', 'sensitivity') if data is not None else None
    okr = isinstance(sens, DictV) and isinstance(sens.d.get('reactions'), ListV) and \
        [I.plain(x) for x in sens.d['reactions'].items] == ['r_0001', 'r_0002']
    oks = isinstance(sens, DictV) and isinstance(sens.d.get('species'), ListV) and \
        [I.plain(x) for x in sens.d['species'].items] == ['CO(S)', 'H2']
    run.check(okr and oks and set(sens.d) == {'reactions', 'species'}, 'DATAFLOW.reactor', 'io.omkm.write_yaml',
              'sensitivity lists', 'reactions_SA=[\'r_0001\', <reaction r_0002>], species_SA=[<species CO(S)>, \'H2\'] '
              'must give simulation/sensitivity/reactions = [r_0001, r_0002] and species = [CO(S), H2] and nothing '
              'else; got %s' % show(sens, 200), m, fn)
    for bad_kw, what in (({'reactions_SA': ListV([Obj('noid')])}, 'a reaction without id'),
                         ({'species_SA': ListV([Obj('noname')])}, 'a species without name')):
        I = new_interp(repo)
        for o_ in list(bad_kw.values())[0].items:
            o_.missing.update({'id', 'name'})
        r = I.call_function(m, fn, [], dict({'units': units_obj(I, repo), 'phases': DictV()}, **bad_kw))
        run.check(isinstance(r, Raised) and r.exc == 'TypeError', 'PATH.assign', 'io.omkm.write_yaml',
                  'sensitivity entry: ' + what, '%s in a sensitivity list must be rejected with TypeError, got %s'
                  % (what, show(r, 80)), m, fn)
    # ---- phases given as objects
    I = new_interp(repo)
    D = I.D
    fr = Frame(I, repo.module('pmutt'), {}, None, None)
    mk = lambda q_, **k_: fr.apply(repo.cls(q_), [], k_, None)
    x1, x2, x3 = D.sym('x1'), D.sym('x2'), D.sym('x3')
    for gas_q in ('pmutt.omkm.phase.IdealGas', 'pmutt.cantera.phase.IdealGas'):
        gas = mk(gas_q, name='gas', initial_state=DictV({'H2': x1, 'N2': x2}))
        bulk = mk('pmutt.omkm.phase.StoichSolid', name='bulk')
        terr = mk('pmutt.omkm.phase.InteractingInterface', name='terrace')
        step = mk('pmutt.omkm.phase.InteractingInterface', name='step', initial_state=DictV({'PT(S)': x3}))
        for subset, lab in (([gas, bulk, terr, step], 'gas, bulk, two interfaces'), ([terr], 'one interface'),
                            ([gas], 'gas only')):
            I.dumps.clear()
            r = I.call_function(m, fn, [], {'units': units_obj(I, repo), 'phases': ListV(subset)})
            ph = at(I.dumps[-1], 'phases') if I.dumps and not isinstance(r, Raised) else None
            if ph is not None:
                check_yaml_plain(run, I.dumps[-1], 'DATAFLOW.reactor', 'io.omkm.write_yaml',
                                 'phases as objects: plain YAML data [%s, %s]' % (lab, gas_q.split('.')[1]), m, fn)
            ok = isinstance(ph, DictV)
            why = 'phases section is %s' % show(ph if ph is not None else r, 200)
            if ok:
                def info(x):
                    return {k_: (I.seg(v_) if isinstance(v_, (str, SegStr)) else v_) for k_, v_ in x.d.items()} \
                        if isinstance(x, DictV) else None
                want_keys = set()
                if gas in subset:
                    want_keys.add('gas')
                    g_ = info(ph.d.get('gas'))
                    ok = ok and g_ is not None and set(g_) == {'name', 'initial_state'} and I.plain(g_['name']) == 'gas'
                    if ok:
                        st = g_['initial_state']
                        vals = [s_.value for s_ in st.fields() if isinstance(s_.value, Rat)]
                        lit = ''.join(s_.text for s_ in st.segs if s_.kind == 'lit')
                        ok = len(vals) == 2 and vals[0].eq(x1) and vals[1].eq(x2) and \
                            lit.replace(' ', '') == '"H2:,N2:"'
                if bulk in subset:
                    want_keys.add('bulk')
                    b_ = info(ph.d.get('bulk'))
                    ok = ok and b_ is not None and set(b_) == {'name'} and I.plain(b_['name']) == 'bulk'
                if terr in subset:
                    want_keys.add('surfaces')
                    sf = ph.d.get('surfaces')
                    names_ = [I.plain(x.d.get('name')) for x in sf.items] if isinstance(sf, ListV) and \
                        all(isinstance(x, DictV) for x in sf.items) else None
                    want_names = [n_ for p_, n_ in ((terr, 'terrace'), (step, 'step')) if p_ in subset]
                    ok = ok and names_ == want_names
                    if ok and step in subset:
                        ok = set(sf.items[1].d) == {'name', 'initial_state'} and set(sf.items[0].d) == {'name'}
                ok = ok and set(ph.d) == want_keys
            run.check(ok, 'DATAFLOW.reactor', 'io.omkm.write_yaml', 'phases as objects [%s, %s]'
                      % (lab, gas_q.split('.')[1]),
                      '[%s] every phase must appear once under gas / bulk / surfaces (surfaces always a list) with its '
                      'name and, when it has one, its initial state "species:fraction, ..."; %s' % (lab, why), m, fn,
                      sample='write_yaml(phases=[%s]) -> gas/bulk/surfaces' % lab)
    # ---- generic section dictionaries are carried, misc entries go to the top level
    I = new_interp(repo)
    D = I.D
    r = I.call_function(m, fn, [], {'units': units_obj(I, repo), 'phases': DictV(),
                                    'reactor': DictV({'custom_r': D.sym('c1')}),
                                    'inlet_gas': DictV({'custom_i': D.sym('c2')}),
                                    'simulation': DictV({'custom_s': D.sym('c3')}),
                                    'solver': DictV({'custom_v': D.sym('c4')}),
                                    'multi_input': DictV({'custom_m': D.sym('c5')}),
                                    'misc': DictV({'custom_top': D.sym('c6')})})
    data = I.dumps[-1] if I.dumps and not isinstance(r, Raised) else None
    got = [at(data, *p_) if data is not None else None for p_ in (
        ('reactor', 'custom_r'), ('inlet_gas', 'custom_i'), ('simulation', 'custom_s'),
        ('simulation', 'solver', 'custom_v'), ('simulation', 'multi_input', 'custom_m'), ('custom_top',))]
    ok = all(isinstance(g_, Rat) and g_.eq(D.sym('c%d' % (i + 1))) for i, g_ in enumerate(got))
    if data is None:
        got = [r]
    run.check(ok, 'DATAFLOW.reactor', 'io.omkm.write_yaml', 'generic dictionaries',
              'entries the user put in the reactor / inlet_gas / simulation / solver / multi_input / misc '
              'dictionaries must be carried to their sections (misc to the top level): got %s'
              % [show(g_, 30) for g_ in got], m, fn)
    # ---- a unit system given as a dictionary
    I = new_interp(repo, order=RankOrder({}, const_ranks=True, fallback=lambda a_: 1))
    D = I.D
    r = I.call_function(m, fn, [], {'units': DictV({'length': 'm', 'time': 'min', 'pressure': 'Pa'}), 'phases': DictV(),
                                    'V': D.sym('vV'), 'P': D.sym('vP'), 'flow_rate': D.sym('vQ')})
    data = I.dumps[-1] if I.dumps and not isinstance(r, Raised) else None
    ok = data is not None and quantity(I, at(data, 'reactor', 'volume'), D.sym('vV'), 'm3') and \
        quantity(I, at(data, 'reactor', 'pressure'), D.sym('vP'), 'Pa') and \
        quantity(I, at(data, 'inlet_gas', 'flow_rate'), D.sym('vQ'), 'm3/min')
    run.check(ok, 'DATAFLOW.unit', 'io.omkm.write_yaml', 'unit system as dictionary',
              'with units={length: m, time: min, pressure: Pa} volume, pressure and flow rate must be written in m3, '
              'Pa and m3/min: got %s' % (show(data, 200) if data is not None else show(r)), m, fn)


def data_equal(I, a, b):
    """two pieces of YAML data say the same: the same keys (in any order), the same entries in order, equal numbers, the
    same text"""
    if isinstance(a, DictV) or isinstance(b, DictV):
        return isinstance(a, DictV) and isinstance(b, DictV) and set(a.d) == set(b.d) and \
            all(data_equal(I, a.d[k_], b.d[k_]) for k_ in a.d)
    if isinstance(a, ListV) or isinstance(b, ListV):
        return isinstance(a, ListV) and isinstance(b, ListV) and len(a) == len(b) and \
            all(data_equal(I, x_, y_) for x_, y_ in zip(a.items, b.items))
    if isinstance(a, Rat) or isinstance(b, Rat):
        return isinstance(a, Rat) and isinstance(b, Rat) and a.eq(b)
    if isinstance(a, (str, SegStr)) and isinstance(b, (str, SegStr)):
        return seg_equal(I, a, b)
    return a is b or (type(a) is type(b) and a == b)


def owned_dicts():
    """the dictionaries of write_yaml a caller may own.  Armed: misc (documented: its entries go to the top level of
    the file).  The five section dictionaries are written into by the unmodified tree (DEFECT3_C07.md D2): they are
    armed once D2 is taken out of PENDING_DEFECTS"""
    return ('misc',) if 'D2' in PENDING_DEFECTS else ('misc', 'reactor', 'inlet_gas', 'simulation', 'solver',
                                                      'multi_input')


def reactor_history(run, repo):
    """histories at the level of the writer: dictionaries the caller owns are handed to two calls of write_yaml that
    describe two different reactors.  The second file says what a first call with these arguments says (nothing of the
    first reactor survives), and each dictionary holds after every call what the caller put into it"""
    m = repo.module(OM)
    fn = m.functions['write_yaml']
    syms = ('V1', 'T1', 'P1', 'Q1', 'E1', 'V2', 'T2', 'c_misc', 'c_reactor', 'c_inlet_gas', 'c_simulation', 'c_solver',
            'c_multi_input', 'a1', 'M0', 'M1')
    order = lambda: RankOrder({k_: 1 for k_ in syms}, const_ranks=True)

    def content(name, D):
        # what the caller put into the dictionary: an entry of his own
        return {'custom_' + name: D.sym('c_' + name)}

    def calls(I, owned):
        D = I.D
        first = {'reactor_type': 'cstr', 'V': D.sym('V1'), 'T': D.sym('T1'), 'P': D.sym('P1'), 'flow_rate': D.sym('Q1'),
                 'end_time': D.sym('E1'), 'atol': D.sym('a1'), 'multi_T': ListV([D.sym('M0'), D.sym('M1')]),
                 'transient': True}
        second = {'reactor_type': 'batch', 'V': D.sym('V2'), 'T': D.sym('T2')}
        return first, second
    OWNED_DICTS = owned_dicts()
    for owned in [(k_,) for k_ in OWNED_DICTS] + ([tuple(OWNED_DICTS)] if len(OWNED_DICTS) > 1 else []):
        I = new_interp(repo, order=order())
        u = units_obj(I, repo)
        mine = {k_: DictV(content(k_, I.D)) for k_ in owned}
        first, second = calls(I, owned)
        label = 'the same %s handed to two calls' % ' / '.join(owned)
        r1 = I.call_function(m, fn, [], dict(first, units=u, phases=DictV(), **mine))
        kept1 = {k_: set(v_.d) == set(content(k_, I.D)) for k_, v_ in mine.items()}
        r2 = I.call_function(m, fn, [], dict(second, units=u, phases=DictV(), **mine))
        kept2 = {k_: set(v_.d) == set(content(k_, I.D)) for k_, v_ in mine.items()}
        # reference: the second call as the first call of a session
        J = new_interp(repo, order=order())
        fresh = {k_: DictV(content(k_, J.D)) for k_ in owned}
        r0 = J.call_function(m, fn, [], dict(calls(J, owned)[1], units=units_obj(J, repo), phases=DictV(), **fresh))
        if any(isinstance(x_, Raised) for x_ in (r0, r1, r2)) or len(I.dumps) != 2 or len(J.dumps) != 1:
            run.fail('DATAFLOW.history', 'io.omkm.write_yaml', label, 'the calls give %s, %s; the reference call %s'
                     % (show(r1, 40), show(r2, 40), show(r0, 40)), m, fn)
            continue
        run.check(data_equal(I, I.dumps[1], J.dumps[0]), 'DATAFLOW.history', 'io.omkm.write_yaml',
                  'second file [%s]' % label,
                  '[%s] write_yaml(reactor_type=cstr, V1, T1, P1, flow_rate, end_time, atol, multi_T, ...) followed by '
                  'write_yaml(reactor_type=batch, V2, T2, ...): the second file holds %s; the same call as the first of a '
                  'session gives %s - the file of a reactor carries the values supplied for it and nothing else'
                  % (label, show(I.dumps[1], 300), show(J.dumps[0], 300)), m, fn,
                  sample='write_yaml twice with %s: second file == file of a fresh call' % label)
        for nth, kept in ((1, kept1), (2, kept2)):
            bad = sorted(k_ for k_, ok_ in kept.items() if not ok_)
            run.check(not bad, 'EFFECT.caller-dict', 'io.omkm.write_yaml', 'after call %d [%s]' % (nth, label),
                      '[%s] after call %d the caller\'s %s hold(s) %s: a dictionary handed to the writer holds afterwards '
                      'what the caller put into it' % (label, nth, ' / '.join(bad),
                                                       {k_: sorted(map(str, mine[k_].d)) for k_ in bad}), m, fn)


# ----------------------------------------------------------------------
def marker_obj(I, oname, **attrs):
    """object whose to_cti / to_omkm_yaml return a marker naming the object and the id it has at that moment"""
    o = Obj(oname, attrs=dict(attrs))
    o.calls = []

    def ident(obj):
        return obj.attrs.get('id', obj.attrs.get('name'))

    def to_cti(I_, obj, a, k):
        obj.calls.append(('cti', ident(obj)))
        return SegStr.field('cti:%s' % obj.name, None, 'text')

    def to_yaml(I_, obj, a, k):
        obj.calls.append(('yaml', ident(obj)))
        return DictV({'marker': obj.name, 'id': ident(obj)})
    o.opaque_methods['to_cti'] = to_cti
    o.opaque_methods['to_omkm_yaml'] = to_yaml
    o.opaque_params['to_cti'] = ('units', 'T')
    o.opaque_params['to_omkm_yaml'] = ('units', 'T')
    return o


def file_assembly(run, repo):
    m = repo.module(OM)
    for writer in ('write_cti', 'write_thermo_yaml'):
        fn = m.functions.get(writer)
        if fn is None:
            raise AnchorError('%s.%s not found' % (OM, writer))
        run.fn('%s.%s' % (OM, writer))
        # reactions with and without user ids; three distinct BEP relations (one shared by two reactions), without a
        # name (the writers have code for that: b_0000 ...) and with names given by the user; a reaction whose
        # relation is None and one that has no such attribute at all (every SurfaceReaction built without transition
        # state)
        for user_ids, bep_names in itertools.product((False, True), (None, ('bep_x', 'bep_y', 'bep_z'))):
            I = new_interp(repo)
            rx = [marker_obj(I, 'rxn%d' % i, id=('user_%d' % i if user_ids and i == 1 else None), bep=None)
                  for i in range(6)]
            beps = [marker_obj(I, 'bep%d' % i, name=(bep_names[i] if bep_names else None)) for i in range(3)]
            rx[0].attrs['bep'] = beps[0]
            rx[2].attrs['bep'] = beps[0]
            rx[3].attrs['bep'] = beps[1]
            del rx[4].attrs['bep']
            rx[4].missing.add('bep')
            rx[5].attrs['bep'] = beps[2]
            li = [marker_obj(I, 'int%d' % i, name=None) for i in range(2)]
            sp = [marker_obj(I, 'sp%d' % i, name='n%d' % i) for i in range(3)]
            seen_ids = []

            ph = marker_obj(I, 'phase0', name='p0')
            orig_cti, orig_yaml = ph.opaque_methods['to_cti'], ph.opaque_methods['to_omkm_yaml']

            def snap(f):
                def g(I_, obj, a, k):
                    seen_ids.append([r.attrs.get('id') for r in rx] + [x.attrs.get('name') for x in li])
                    seen_bnames.append([b_.attrs.get('name') for b_ in beps])
                    return f(I_, obj, a, k)
                return g
            seen_bnames = []
            ph.opaque_methods['to_cti'] = snap(orig_cti)
            ph.opaque_methods['to_omkm_yaml'] = snap(orig_yaml)
            out = I.call_function(m, fn, [], {'phases': ListV([ph]), 'species': ListV(sp), 'reactions': ListV(rx),
                                              'lateral_interactions': ListV(li)})
            label = '%s user ids=%s%s' % (writer, user_ids, ', BEP relations named by the user' if bep_names else '')
            ksuf = ' (BEP relations named)' if bep_names else ''
            if isinstance(out, Raised):
                run.fail('DATAFLOW.assembly', 'io.omkm.' + writer, label, 'raises %s' % out.exc, m,
                         out.node if hasattr(out.node, 'lineno') else fn)
                continue
            if writer == 'write_cti':
                # the assembled file (the entries of the objects stand for themselves) is a sequence of directives
                check_cti_directives(run, repo, I, out, 'DATAFLOW.assembly', 'io.omkm.write_cti',
                                     'valid directives' + (' (user id present)' if user_ids else '') + ksuf, m, fn,
                                     is_directive=lambda v_: isinstance(v_, str) and v_.startswith('cti:'))
            ids = [r.attrs.get('id') for r in rx]
            run.check(all(isinstance(x, str) for x in ids) and len(set(ids)) == len(ids), 'DATAFLOW.ids',
                      'io.omkm.' + writer, 'reaction ids' + (' (user id present)' if user_ids else '') + ksuf,
                      '[%s] reaction ids after writing are %s: every reaction needs a unique id' % (label, ids), m, fn,
                      sample='[%s] ids %s' % (label, ids))
            names = [x.attrs.get('name') for x in li]
            run.check(all(isinstance(x, str) for x in names) and len(set(names)) == len(names), 'DATAFLOW.ids',
                      'io.omkm.' + writer, 'interaction ids' + ksuf,
                      '[%s] lateral interaction ids are %s' % (label, names), m, fn)
            # phases are written after the ids exist
            run.check(bool(seen_ids) and all(x is not None for x in seen_ids[0]), 'ORDER.ids-before-phases',
                      'io.omkm.' + writer, 'ids before phases' + ksuf,
                      '[%s] when the phase is written the ids are %s' % (label, seen_ids[:1]), m, fn)
            # every object emitted exactly once, with the id it ends up with
            kind = 'cti' if writer == 'write_cti' else 'yaml'
            for o in rx + li + sp + [ph] + beps:
                calls = [c_ for c_ in o.calls if c_[0] == kind]
                final = o.attrs.get('id', o.attrs.get('name'))
                okc = len(calls) == 1 and calls[0][1] == final
                run.check(okc, 'DATAFLOW.once', 'io.omkm.' + writer, 'object:' + o.name.rstrip('0123456789') + ksuf,
                          '[%s] %s is emitted %d time(s) with id %s (final id %s)'
                          % (label, o.name, len(calls), [c_[1] for c_ in calls], final), m, fn)
            # the relations keep the names the user gave; the unnamed ones are named by the writer (both writers since
            # 92cab49), every relation under a name of its own, before the phases - which refer to them - are written
            bnames = [b_.attrs.get('name') for b_ in beps]
            if bep_names:
                run.check(bnames == list(bep_names), 'DATAFLOW.ids', 'io.omkm.' + writer, 'BEP ids given by the user',
                          '[%s] the relations named %s by the user are called %s after writing' % (label, bep_names,
                                                                                                  bnames), m, fn)
            else:
                run.check(all(isinstance(x, str) for x in bnames) and len(set(bnames)) == 3, 'DATAFLOW.ids',
                          'io.omkm.' + writer, 'BEP ids' + (' (user id present)' if user_ids else ''),
                          '[%s] three distinct BEP relations without a name are called %s after writing: every relation '
                          'needs an id of its own' % (label, bnames), m, fn,
                          sample='[%s] BEP ids %s' % (label, bnames))
            run.check(bool(seen_bnames) and all(isinstance(x, str) for x in seen_bnames[0]), 'ORDER.ids-before-phases',
                      'io.omkm.' + writer, 'BEP ids before phases' + (' (user id present)' if user_ids else '') + ksuf,
                      '[%s] when the phase is written the BEP relations are called %s: an interface names the relations '
                      'of its reactions, they need their names by then' % (label, seen_bnames[:1]), m, fn)
            if bep_names:
                continue        # what follows does not depend on the relations
            # the Motz-Wise option reaches the file: as the CTI directive / on every reaction before it is emitted
            for mw_ in (True, False):
                I2 = new_interp(repo)
                rx2 = [marker_obj(I2, 'rxn%d' % i, id=None, bep=None) for i in range(2)]
                seen_mw = []
                for r2 in rx2:
                    def emit(I_, obj, a_, k_, f_=r2.opaque_methods['to_omkm_yaml']):
                        seen_mw.append(obj.attrs.get('use_motz_wise'))
                        return f_(I_, obj, a_, k_)
                    r2.opaque_methods['to_omkm_yaml'] = emit
                out2 = I2.call_function(m, fn, [], {'reactions': ListV(rx2), 'use_motz_wise': mw_})
                if isinstance(out2, Raised):
                    continue
                if writer == 'write_cti':
                    txt_ = ''.join(s_.text for s_ in I2.seg(out2).segs if s_.kind == 'lit') \
                        if isinstance(out2, (str, SegStr)) else ''
                    okm = ('enable_motz_wise()' in txt_) == mw_ and ('disable_motz_wise()' in txt_) == (not mw_)
                else:
                    okm = seen_mw == [mw_, mw_]
                run.check(okm, 'DATAFLOW.option', 'io.omkm.' + writer, 'use_motz_wise=%s' % mw_,
                          '[%s] use_motz_wise=%s does not reach the file (%s)'
                          % (writer, mw_, 'directive missing or inverted' if writer == 'write_cti'
                             else 'reactions emitted with %s' % seen_mw), m, fn)
            if writer == 'write_thermo_yaml':
                for d_ in I.dumps:
                    check_yaml_plain(run, d_, 'DATAFLOW.assembly', 'io.omkm.write_thermo_yaml',
                                     'plain YAML data: section %s' % (list(d_.d)[:1] if isinstance(d_, DictV) else '?'),
                                     m, fn)
                fields = [list(d_.d.keys())[0] for d_ in I.dumps if isinstance(d_, DictV)]
                run.check(sorted(fields) == sorted(['units', 'phases', 'species', 'reactions', 'beps', 'interactions']),
                          'TABLE.sections', 'io.omkm.write_thermo_yaml', 'sections',
                          '[%s] sections dumped: %s' % (label, fields), m, fn)
        # the two halves joined: the ids the writer hands out are the ids the phase entry and the BEP entry name.
        # Marker reactions and interactions around a real interface and a real BEP relation (built through their
        # constructors): whatever spelling the writer chooses for an automatic id, the members named by the range
        # notation of the interface (CTI) and of the relation (CTI, YAML) must be reactions / interactions of the file
        from .c07b import named_ids
        import re
        for user_ids, named in itertools.product((False, True), (True, False)):
            I = new_interp(repo)
            D = I.D
            fr = Frame(I, repo.module('pmutt'), {}, None, None)
            # a user id in the spelling the range notation prints (head, '_', four digits); any other spelling is
            # re-printed with four digits by the entries that refer to it (`_get_omkm_range`): that is the known finding
            # recorded under C18, seen from here (DEFECT2_C07.md D1) - the instance with 'u_7' is not armed
            rx = [marker_obj(I, 'rxn%d' % i, id=('u_0007' if user_ids and i == 1 else None), bep=None) for i in range(4)]
            li = [marker_obj(I, 'int%d' % i, name=('lat_0003' if user_ids and i == 0 else None)) for i in range(2)]
            for o_ in li:
                o_.missing.add('id')            # a lateral interaction is identified by its name
            # two relations, named by the user or left without a name (the writers then name them): one over the
            # cleavage steps rxn1..rxn3, one over the synthesis step rxn0
            real = []
            for bname, direction, mem in (('bep_a', 'cleavage', rx[1:]), ('bep_b', 'synthesis', rx[:1])):
                bep = I.construct(repo.cls('pmutt.omkm.reaction.BEP'), [],
                                  {'name': bname if named else None, 'slope': D.sym('slope_' + bname),
                                   'intercept': D.sym('icpt_' + bname), 'direction': direction,
                                   'descriptor': 'delta_H'}, name='real_' + bname)
                if not isinstance(bep, Obj):
                    raise Unsupported('omkm.BEP(...) gives %s for the model relation' % show(bep, 80))
                members = get_public(I, bep, direction + '_reactions')
                if not isinstance(members, ListV):
                    raise Unsupported('BEP.%s_reactions is %s' % (direction, show(members, 60)))
                for r_ in mem:
                    # what SurfaceReaction.__init__ does for a reaction whose transition state is the relation
                    members.items.append(r_)
                    r_.attrs['bep'] = bep
                real.append((bep, direction, mem))
            spx = [Obj('sp%d' % k, attrs={'name': 'S%d(S)' % k, 'elements': DictV({'H': C(1)}), 'phase': None})
                   for k in range(2)]
            iface = fr.apply(repo.cls('pmutt.omkm.phase.InteractingInterface'), [],
                             {'name': 'terrace', 'species': ListV(spx), 'site_density': D.sym('sden'),
                              'phases': ListV(['gas']), 'reactions': ListV(list(rx)),
                              'interactions': ListV(list(li))}, None)
            out = I.call_function(m, fn, [], {'phases': ListV([iface]), 'reactions': ListV(rx),
                                              'lateral_interactions': ListV(li), 'units': units_obj(I, repo)})
            label = '%s, real interface and BEP relations (%s), user ids=%s' % (
                writer, 'named by the user' if named else 'without a name', user_ids)
            ksuf = (' (user ids present)' if user_ids else '') + ('' if named else ' (BEP relations unnamed)')
            if isinstance(out, Raised):
                run.fail('DATAFLOW.members', 'io.omkm.' + writer, label, 'raises %s' % out.exc, m,
                         out.node if hasattr(out.node, 'lineno') else fn)
                continue
            if writer == 'write_cti':
                check_cti_directives(run, repo, I, out, 'DATAFLOW.assembly', 'io.omkm.write_cti',
                                     'valid directives, real interface and BEP relations' + ksuf, m, fn,
                                     is_directive=lambda v_: isinstance(v_, str) and v_.startswith('cti:'))
            else:
                for d_ in I.dumps:
                    check_yaml_plain(run, d_, 'DATAFLOW.assembly', 'io.omkm.write_thermo_yaml',
                                     'plain YAML data, real interface and BEP relations: section %s%s'
                                     % (list(d_.d)[:1] if isinstance(d_, DictV) else '?', ksuf), m, fn)
            rx_ids = {r_.attrs.get('id') for r_ in rx}
            li_ids = {x_.attrs.get('name') for x_ in li}
            bnames = [get_public(I, b_, 'name') for b_, _d, _m in real]
            bnames = [I.plain(x_) if isinstance(x_, (str, SegStr)) else x_ for x_ in bnames]
            run.check(all(isinstance(x_, str) for x_ in bnames) and len(set(bnames)) == 2 and
                      (not named or bnames == ['bep_a', 'bep_b']), 'DATAFLOW.ids', 'io.omkm.' + writer,
                      'BEP ids, real relations' + ksuf,
                      '[%s] after writing the two relations are called %s: every relation needs a name of its own, a '
                      'name given by the user is kept' % (label, bnames), m, fn)
            got, want = {}, {}
            if writer == 'write_cti':
                lit = ''.join(s_.text if s_.kind == 'lit' else '\x01' for s_ in I.seg(out).segs) \
                    if isinstance(out, (str, SegStr)) else ''

                def slot(directive, name, ident=None):
                    """the ids a keyword of a directive (the one with id=ident when given) names; None when directive,
                    keyword or list is not there"""
                    i_ = lit.find('%s(id="%s"' % (directive, ident)) if ident is not None else lit.find(directive + '(')
                    k_ = lit.find(name + '=', i_) if i_ >= 0 else -1
                    if k_ < 0:
                        return None
                    rest = lit[k_ + len(name) + 1:].lstrip()
                    if rest.startswith('"') and rest.count('"') >= 2:
                        # a list of names in CTI: one quoted text, the names separated by white space
                        return set(rest[1:rest.index('"', 1)].split())
                    if not rest.startswith('[') or ']' not in rest:
                        return None
                    body = rest[1:rest.index(']')]
                    return named_ids(I, ListV(re.findall(r'"([^"]*)"', body)))
                got = {'interface reactions': slot('interacting_interface', 'reactions'),
                       'interface interactions': slot('interacting_interface', 'interactions'),
                       'interface BEP relations': slot('interacting_interface', 'beps')}
                want = {'interface reactions': rx_ids, 'interface interactions': li_ids,
                        'interface BEP relations': set(bnames)}
                for (b_, direction, mem), bn_ in zip(real, bnames):
                    other = 'synthesis' if direction == 'cleavage' else 'cleavage'
                    got['BEP %s: %s reactions' % (direction, direction)] = slot('bep', direction + '_reactions', bn_)
                    want['BEP %s: %s reactions' % (direction, direction)] = {r_.attrs.get('id') for r_ in mem}
                    got['BEP %s: %s reactions' % (direction, other)] = slot('bep', other + '_reactions', bn_)
                    want['BEP %s: %s reactions' % (direction, other)] = set()
            else:
                ents = [d_.d['beps'] for d_ in I.dumps if isinstance(d_, DictV) and list(d_.d) == ['beps']]
                ents = [e_ for e_ in ents[0].items if isinstance(e_, DictV)] if len(ents) == 1 and \
                    isinstance(ents[0], ListV) else []
                phs = [d_.d['phases'] for d_ in I.dumps if isinstance(d_, DictV) and list(d_.d) == ['phases']]
                ph_ent = phs[0].items[0] if len(phs) == 1 and isinstance(phs[0], ListV) and len(phs[0]) == 1 and \
                    isinstance(phs[0].items[0], DictV) else None
                # the YAML interface entry declares its relations wholesale; the beps section carries them by id
                got['interface BEP relations'] = I.plain(ph_ent.d.get('beps')) if ph_ent is not None else None
                want['interface BEP relations'] = 'all'
                got['BEP entries'] = sorted(str(I.plain(e_.d.get('id'))) for e_ in ents)
                want['BEP entries'] = sorted(str(x_) for x_ in bnames)
                for (b_, direction, mem), bn_ in zip(real, bnames):
                    other = 'synthesis' if direction == 'cleavage' else 'cleavage'
                    mine = [e_ for e_ in ents if I.plain(e_.d.get('id')) == bn_]
                    ent = mine[0] if len(mine) == 1 else None
                    got['BEP %s: %s reactions' % (direction, direction)] = \
                        named_ids(I, ent.d.get(direction + '-reactions')) if ent is not None else None
                    want['BEP %s: %s reactions' % (direction, direction)] = {r_.attrs.get('id') for r_ in mem}
                    got['BEP %s: %s reactions' % (direction, other)] = \
                        named_ids(I, ent.d.get(other + '-reactions')) if ent is not None else None
                    want['BEP %s: %s reactions' % (direction, other)] = set()
            for what, w_ in want.items():
                g_ = got.get(what)
                run.check(g_ == w_, 'DATAFLOW.members', 'io.omkm.' + writer, '%s name ids of the file%s' % (what, ksuf),
                          '[%s] the %s are named as %s; the file gives its reactions the ids %s, its interactions %s and '
                          'its BEP relations %s (expected here: %s): an entry must name ids that exist in the file'
                          % (label, what, sorted(g_, key=str) if isinstance(g_, set) else g_, sorted(rx_ids, key=str),
                             sorted(li_ids, key=str), bnames, sorted(w_, key=str) if isinstance(w_, set) else w_), m, fn,
                          sample='[%s] %s == %s' % (label, what, sorted(w_, key=str) if isinstance(w_, set) else w_))
        # the temperature the file is written for is the temperature every reaction is evaluated at (its barrier is
        # a Gibbs energy): the reaction emitters are handed exactly the writer's T
        I = new_interp(repo)
        Tw, Pw = I.D.sym('T_file'), I.D.sym('P_file')
        rx3 = [marker_obj(I, 'rxn%d' % i, id=None, bep=None) for i in range(2)]
        seen3 = []
        for r3 in rx3:
            for meth in ('to_cti', 'to_omkm_yaml'):
                def emit3(I_, obj, a_, k_, f_=r3.opaque_methods[meth]):
                    seen3.append((k_.get('T', a_[0] if a_ else None), k_.get('P', a_[1] if len(a_) > 1 else None),
                                  k_.get('ads_act_method')))
                    return f_(I_, obj, a_, k_)
                r3.opaque_methods[meth] = emit3
                # the documented signature of the reaction emitters
                r3.opaque_params[meth] = ('T', 'P', 'quantity_unit', 'length_unit', 'act_energy_unit',
                                          'ads_act_method', 'units')
        # a reaction-like object whose emitter takes the unit system and the temperature only: the writers hand an
        # emitter the arguments it accepts, so it is written like the others
        plain3 = marker_obj(I, 'rxn_plain', id=None, bep=None)
        for meth in ('to_cti', 'to_omkm_yaml'):
            def strict3(I_, obj, a_, k_, f_=plain3.opaque_methods[meth], meth=meth):
                # def to_cti(self, units=None, T=...): Python refuses any other keyword
                if a_ or any(k__ not in obj.opaque_params[meth] for k__ in k_):
                    from ..xlate import _RaisedExc
                    raise _RaisedExc(Raised('TypeError'))
                return f_(I_, obj, a_, k_)
            plain3.opaque_methods[meth] = strict3
        out3 = I.call_function(m, fn, [], {'reactions': ListV(rx3), 'T': Tw, 'P': Pw,
                                           'ads_act_method': 'get_G_act', 'units': units_obj(I, repo)})
        out3p = I.call_function(m, fn, [], {'reactions': ListV([plain3]), 'T': Tw, 'P': Pw,
                                            'ads_act_method': 'get_G_act', 'units': units_obj(I, repo)})
        seen_T = [x_[0] for x_ in seen3]
        run.check(not isinstance(out3, Raised) and len(seen_T) == 2 and
                  all(isinstance(t_, Rat) and t_.eq(Tw) for t_ in seen_T), 'DATAFLOW.option', 'io.omkm.' + writer,
                  'T reaches the reactions',
                  '%s(reactions=[r0, r1], T=T_file): the reactions are emitted for T=%s, expected T_file for each (the '
                  'activation energies in the file belong to the temperature the user asked for)'
                  % (writer, show(out3, 60) if isinstance(out3, Raised) else [show(t_, 30) for t_ in seen_T]), m, fn,
                  sample='%s(T=T_file) -> every reaction emitter receives T=T_file' % writer)

        def is_P(p_):
            # the writer's pressure, in whatever pressure unit the writer hands on (a constant factor)
            if not isinstance(p_, Rat) or p_.iszero():
                return False
            ratio = p_ / Pw
            return ratio.is_const() and not ratio.iszero()
        run.check(not isinstance(out3, Raised) and len(seen3) == 2 and all(is_P(x_[1]) for x_ in seen3),
                  'DATAFLOW.option', 'io.omkm.' + writer, 'P reaches the reactions',
                  '%s(reactions=[r0, r1], P=P_file): the reactions are emitted for P=%s, expected P_file (times a '
                  'constant when the unit changes) for each: the barrier of a step with gas species depends on it'
                  % (writer, show(out3, 60) if isinstance(out3, Raised) else [show(x_[1], 30) for x_ in seen3]), m, fn,
                  sample='%s(P=P_file) -> every reaction emitter receives P=P_file' % writer)
        run.check(not isinstance(out3, Raised) and len(seen3) == 2 and
                  all(x_[2] is not None and I.plain(x_[2]) == 'get_G_act' for x_ in seen3),
                  'DATAFLOW.option', 'io.omkm.' + writer, 'ads_act_method reaches the reactions',
                  '%s(reactions=[r0, r1], ads_act_method=get_G_act): the reactions are emitted with ads_act_method=%s'
                  % (writer, show(out3, 60) if isinstance(out3, Raised) else [show(x_[2], 30) for x_ in seen3]), m, fn)
        kind3 = 'cti' if writer == 'write_cti' else 'yaml'
        run.check(not isinstance(out3p, Raised) and [c_[0] for c_ in plain3.calls] == [kind3], 'DATAFLOW.once',
                  'io.omkm.' + writer, 'emitter that takes units and T only',
                  '%s with a reaction whose emitter accepts only units and T next to P and ads_act_method: %s; it must '
                  'be written once like the others (the writers pass an emitter the arguments it accepts)'
                  % (writer, 'raises %s' % out3p.exc if isinstance(out3p, Raised)
                     else 'emitted %d time(s)' % len(plain3.calls)), m, fn)
        # omitted collections: no crash
        I = new_interp(repo)
        out = I.call_function(m, fn, [], {})
        run.check(not isinstance(out, Raised), 'DEF.defaults', 'io.omkm.' + writer, 'all options omitted',
                  '%s() with everything omitted raises %s' % (writer, out.exc if isinstance(out, Raised) else ''), m, fn)


def writer_history(run, repo):
    """the ordinary session: one model written as CTI, then as thermo YAML, then as CTI again (same objects, same
    interpreter).  The ids handed out by the first call are the ids of every later file, every object is emitted once
    per file, and the third file is the first one"""
    m = repo.module(OM)
    I = new_interp(repo)
    rx = [marker_obj(I, 'rxn%d' % i, id=('user_1' if i == 1 else None), bep=None) for i in range(4)]
    beps = [marker_obj(I, 'bep%d' % i, name=None) for i in range(2)]
    rx[0].attrs['bep'] = beps[0]
    rx[2].attrs['bep'] = beps[0]
    rx[3].attrs['bep'] = beps[1]
    li = [marker_obj(I, 'int%d' % i, name=None) for i in range(2)]
    sp = [marker_obj(I, 'sp%d' % i, name='n%d' % i) for i in range(2)]
    ph = marker_obj(I, 'phase0', name='p0')
    objs = rx + beps + li + sp + [ph]

    def model():
        # fresh containers for every call, the same objects in them
        return {'phases': ListV([ph]), 'species': ListV(list(sp)), 'reactions': ListV(list(rx)),
                'lateral_interactions': ListV(list(li)), 'units': units_obj(I, repo)}

    def names():
        return [o_.attrs.get('id', o_.attrs.get('name')) for o_ in objs]
    texts, ids = [], []
    for nth, writer in enumerate(('write_cti', 'write_thermo_yaml', 'write_cti')):
        fn = m.functions.get(writer)
        if fn is None:
            raise AnchorError('%s.%s not found' % (OM, writer))
        for o_ in objs:
            del o_.calls[:]
        out = I.call_function(m, fn, [], dict(model(), **({'write_xml': False} if writer == 'write_cti' else {})))
        label = 'call %d (%s) of the session write_cti, write_thermo_yaml, write_cti' % (nth + 1, writer)
        if isinstance(out, Raised):
            run.fail('DATAFLOW.history', 'io.omkm.' + writer, label, 'raises %s' % out.exc, m, fn)
            return
        texts.append(out)
        ids.append(names())
        run.check(rx[1].attrs.get('id') == 'user_1', 'DATAFLOW.history', 'io.omkm.' + writer, 'user id kept, ' + label,
                  '[%s] the reaction the user called user_1 is called %s after writing: an id given by the user is the id '
                  'of the reaction' % (label, show(rx[1].attrs.get('id'), 30)), m, fn)
        kind = 'cti' if writer == 'write_cti' else 'yaml'
        bad = [o_.name for o_ in objs if [c_[0] for c_ in o_.calls].count(kind) != 1]
        run.check(not bad, 'DATAFLOW.history', 'io.omkm.' + writer, 'everything once, ' + label,
                  '[%s] not emitted exactly once: %s' % (label, bad), m, fn)
        run.check(all(isinstance(x_, str) for x_ in ids[-1]) and len(set(ids[-1])) == len(ids[-1]) and ids[-1] == ids[0],
                  'DATAFLOW.history', 'io.omkm.' + writer, 'ids kept, ' + label,
                  '[%s] the objects are called %s; the first file of the session called them %s: an id handed out '
                  'once is the id of the object in every later file' % (label, ids[-1], ids[0]), m, fn,
                  sample='session write_cti, write_thermo_yaml, write_cti: ids of call %d == ids of call 1' % (nth + 1))
    fn = m.functions['write_cti']
    run.check(seg_equal(I, texts[0], texts[2]), 'DATAFLOW.history', 'io.omkm.write_cti', 'same model, same file',
              'write_cti for the same model before and after write_thermo_yaml gives two different texts: %s ... / %s ...'
              % (show(texts[0], 160), show(texts[2], 160)), m, fn)


# ----------------------------------------------------------------------
def files_on_disk(run, repo):
    """a writer called with filename= puts on disk exactly the text it returns when no file name is given (that text is
    what every other instance of this module reads)"""
    m = repo.module(OM)

    def model(I, writer):
        if writer == 'write_yaml':
            D = I.D
            return {'reactor_type': 'cstr', 'temperature_mode': 'isothermal', 'V': D.sym('v_V'), 'T': D.sym('v_T'),
                    'P': D.sym('v_P'), 'flow_rate': D.sym('v_Q'), 'end_time': D.sym('v_t'), 'transient': False,
                    'phases': DictV(), 'units': units_obj(I, repo)}
        rx = [marker_obj(I, 'rxn%d' % i, id=None, bep=None) for i in range(2)]
        bep = marker_obj(I, 'bep0', name='bep_user')
        rx[1].attrs['bep'] = bep
        kw = {'phases': ListV([marker_obj(I, 'phase0', name='p0')]),
              'species': ListV([marker_obj(I, 'sp%d' % i, name='n%d' % i) for i in range(2)]),
              'reactions': ListV(rx), 'lateral_interactions': ListV([marker_obj(I, 'int0', name=None)]),
              'units': units_obj(I, repo)}
        if writer == 'write_cti':
            kw['write_xml'] = False     # the conversion to XML is Cantera's ctml_writer, not part of this comparison
        return kw
    for writer, fname in (('write_cti', 'model.cti'), ('write_thermo_yaml', 'thermo.yaml'), ('write_yaml', 'reactor.yaml')):
        fn = m.functions.get(writer)
        if fn is None:
            raise AnchorError('%s.%s not found' % (OM, writer))
        order = RankOrder({'v_' + k: 1 for k in 'VTPQt'}, const_ranks=True)

        def quoting_dump(I_, fr, args, kwargs, n):
            # the serialiser's text as the writers meet it: quoted scalars, list items at the start of a line - what
            # the writers do to the text after it is assembled must have happened to the file as well
            I_.dumps.append(kwargs.get('data', args[0] if args else None))
            return SegStr.lit("key: '") + SegStr.field('yaml#%d' % len(I_.dumps), None, 'text') + "'\n- item\n- item\n"
        I0 = new_interp(repo, order=order)
        I0.native['yaml.dump'] = quoting_dump
        text0 = I0.call_function(m, fn, [], model(I0, writer))
        I1 = new_interp(repo, order=order)
        I1.native['yaml.dump'] = quoting_dump
        ret1 = I1.call_function(m, fn, [], dict(model(I1, writer), filename=fname))
        files = list(I1.files.values())
        if isinstance(text0, Raised) or isinstance(ret1, Raised) or not isinstance(text0, (str, SegStr)):
            run.fail('DATAFLOW.file', 'io.omkm.' + writer, 'file on disk',
                     '%s returns %s without a file name and %s with filename=%r' % (writer, show(text0, 60),
                                                                                   show(ret1, 60), fname), m, fn)
            continue
        on_disk = SegStr()
        for ln in (files[0] if len(files) == 1 else []):
            on_disk = on_disk + I1.seg(ln)
        ok = len(files) == 1 and seg_equal(I0, on_disk, text0)
        n0, n1 = len(I0.seg(text0).splitlines()), len(files[0]) if len(files) == 1 else 0
        run.check(ok, 'DATAFLOW.file', 'io.omkm.' + writer, 'file on disk',
                  '%s(filename=%r) writes %d file(s); the file has %d line(s), the text returned for the same model '
                  'without a file name has %d: the file on disk must be that text. File begins %s'
                  % (writer, fname, len(files), n1, n0, show(on_disk, 200)), m, fn,
                  sample='%s(filename=...) -> file == text returned for filename=None' % writer)


# ----------------------------------------------------------------------
def quoted_scalars(run, repo):
    """what the YAML writers do to the serialiser's text after it is assembled.  PyYAML puts single quotes around a
    scalar that would read as something else without them (NO, yes, on, null, 1e3 - YAML 1.1 booleans, nulls, numbers -
    or a text with ': ' or ' #'): those quotes are part of the file.  The single quotes it puts around the quantities
    (texts that carry their own double quotes: '"2.5 mol/cm^2"') are what the writers remove.
    NOT armed while D3 is pending: the unmodified tree removes every single quote (DEFECT3_C07.md D3)."""
    m = repo.module(OM)
    for writer, kw in (('write_thermo_yaml', {}), ('write_yaml', {'phases': DictV(), 'reactor_type': 'cstr'})):
        fn = m.functions.get(writer)
        if fn is None:
            raise AnchorError('%s.%s not found' % (OM, writer))
        I = new_interp(repo)

        def dump(I_, fr, args, kwargs, n):
            I_.dumps.append(kwargs.get('data', args[0] if args else None))
            return "species: ['NO', N2, 'ON']\nname: 'NO'\nsite-density: '\"2.5 mol/cm^2\"'\n"
        I.native['yaml.dump'] = dump
        out = I.call_function(m, fn, [], dict(kw, units=units_obj(I, repo)))
        # (what is not literal - the time stamp of the header comment - is spelled with a placeholder)
        txt = ''.join(s_.text if s_.kind == 'lit' else '\x01' for s_ in I.seg(out).segs) \
            if isinstance(out, (str, SegStr)) else None
        if txt is None:
            run.fail('DATAFLOW.quotes', 'io.omkm.' + writer, 'quoted scalars', 'the writer gives %s' % show(out, 120),
                     m, fn)
            continue
        if 'D3' in PENDING_DEFECTS:
            run.note('%s: "quoted scalars" is not armed (every single quote of the serialiser\'s text is removed: '
                     'DEFECT3_C07.md D3)' % writer, m, fn)
            continue
        run.check("species: ['NO', N2, 'ON']" in txt and "name: 'NO'" in txt, 'DATAFLOW.quotes', 'io.omkm.' + writer,
                  'quoted scalars',
                  '%s: the serialiser wrote species: [\'NO\', N2, \'ON\'] and name: \'NO\' (quoted: the bare words are '
                  'YAML booleans); the file says %r - a species called NO reads back as False' % (
                      writer, [l_ for l_ in txt.splitlines() if l_.startswith(('species', 'name'))]), m, fn,
                  sample='%s: quotes the serialiser needs are kept' % writer)
        run.check('site-density: "2.5 mol/cm^2"' in txt, 'DATAFLOW.quotes', 'io.omkm.' + writer, 'quantities',
                  '%s: a quantity the serialiser wrote as \'"2.5 mol/cm^2"\' must appear as "2.5 mol/cm^2"; the file '
                  'says %r' % (writer, [l_ for l_ in txt.splitlines() if l_.startswith('site-density')]), m, fn)


# ----------------------------------------------------------------------
def units_header(run, repo):
    """the unit system declared at the head of either file is the one the user chose (and the one the numbers below
    it are written in): every quantity under its own keyword"""
    import re
    m = repo.module(OM)
    chosen = {'length': 'm', 'time': 'min', 'quantity': 'mol', 'energy': 'kcal', 'act_energy': 'kJ/mol',
              'pressure': 'atm', 'mass': 'g'}
    yaml_key = {'act_energy': 'activation-energy'}
    for given_as in ('Units object', 'dictionary'):
        for writer in ('write_cti', 'write_thermo_yaml'):
            fn = m.functions.get(writer)
            if fn is None:
                raise AnchorError('%s.%s not found' % (OM, writer))
            I = new_interp(repo)
            if given_as == 'dictionary':
                u = DictV(dict(chosen))
            else:
                u = Frame(I, repo.module('pmutt'), {}, None, None).apply(repo.cls('pmutt.omkm.units.Units'), [],
                                                                          dict(chosen), None)
            out = I.call_function(m, fn, [], {'units': u})
            got = None
            # what the file must declare is fixed by the writer and the chosen system, whatever the writer returns
            want = dict(chosen) if writer == 'write_cti' else {yaml_key.get(k_, k_): v_ for k_, v_ in chosen.items()}
            if writer == 'write_cti' and isinstance(out, (str, SegStr)):
                # (what is not literal - the time stamp of the header comment - is spelled with a placeholder)
                txt = ''.join(s_.text if s_.kind == 'lit' else '\x01' for s_ in I.seg(out).segs)
                i_ = txt.find('units(')
                j_ = txt.find(')', i_)
                if i_ >= 0 and j_ > i_ and txt.count('units(') == 1 and '\x01' not in txt[i_:j_]:
                    pairs = re.findall(r'(\w+)\s*=\s*"([^"]*)"', txt[i_ + 6:j_])
                    got = dict(pairs) if len(pairs) == len(set(k_ for k_, _v in pairs)) else None
            elif writer == 'write_thermo_yaml' and not isinstance(out, Raised):
                secs = [d_.d['units'] for d_ in I.dumps if isinstance(d_, DictV) and list(d_.d) == ['units']]
                if len(secs) == 1 and isinstance(secs[0], DictV):
                    got = {k_: I.plain(v_) for k_, v_ in secs[0].d.items()}
            run.check(got == want, 'DATAFLOW.units', 'io.omkm.' + writer, 'unit system declared [%s]' % given_as,
                      '%s(units=<%s> %s) declares %s' % (writer, given_as, chosen,
                                                         got if got is not None else show(out, 120)), m, fn,
                      sample='%s: units section == the chosen unit system (%s)' % (writer, given_as))


# ----------------------------------------------------------------------
def phases_independent(run, repo):
    """phases built without species must not share their species list"""
    for qual in ('pmutt.omkm.phase.InteractingInterface', 'pmutt.omkm.phase.IdealGas', 'pmutt.omkm.phase.StoichSolid',
                 'pmutt.cantera.phase.IdealGas', 'pmutt.cantera.phase.StoichSolid'):
        ci = repo.cls(qual)
        I = new_interp(repo)
        fr = Frame(I, repo.module('pmutt'), {}, None, None)
        p1 = fr.apply(ci, [], {'name': 'p1'}, None)
        p2 = fr.apply(ci, [], {'name': 'p2'}, None)
        sp = Obj('sp', attrs={'name': 'A', 'elements': DictV({'H': C(1)})})
        owner, fn = repo.find_method(ci, '__init__')
        run.fn(owner.qual + '.__init__')
        r = I.call_method(p1, 'append_species', [], {'val': sp})
        l2 = get_public(I, p2, 'species')
        cname = qual.split('.')[-2] + '.' + ci.name
        run.check(isinstance(l2, ListV) and len(l2) == 0, 'EFFECT.shared-default', cname + '.__init__',
                  'species default',
                  'two %s phases built without species share one list: after p1.append_species(sp), p2 lists %s'
                  % (ci.name, show(l2, 60)), owner.module, fn,
                  sample='%s(name=p1), %s(name=p2): p1.append_species -> p2 unaffected' % (ci.name, ci.name))
        # every way of adding a species points its phase at the owner and lists it once
        for how in ('constructor', 'setter', 'append_species', 'extend_species'):
            I = new_interp(repo)
            fr = Frame(I, repo.module('pmutt'), {}, None, None)
            a, b = (Obj(n_, attrs={'name': n_, 'elements': DictV({'H': C(1)}), 'phase': None}) for n_ in ('A', 'B'))
            if how == 'constructor':
                p = fr.apply(ci, [], {'name': 'p', 'species': ListV([a, b])}, None)
            else:
                p = fr.apply(ci, [], {'name': 'p', 'species': ListV([])}, None)
                if how == 'setter':
                    I.call_method(p, 'species.setter', [ListV([a, b])], {})
                elif how == 'append_species':
                    I.call_method(p, 'append_species', [], {'val': a})
                    I.call_method(p, 'append_species', [], {'val': b})
                else:
                    I.call_method(p, 'extend_species', [], {'val': ListV([a, b])})
            names = get_public(I, p, 'species')
            ok = isinstance(names, ListV) and [x for x in names.items] == [a, b] and a.attrs.get('phase') is p \
                and b.attrs.get('phase') is p
            o2, f2 = repo.find_method(ci, how if how in ('append_species', 'extend_species') else
                                      ('species.setter' if how != 'constructor' else '__init__'))
            run.check(ok, 'EFFECT.membership', cname, 'add via ' + how,
                      'species added through the %s are not listed once by the phase with their .phase pointing at it'
                      % how, o2.module, f2)
        # a sequence of additions and removals on a phase that already has species, a second phase being filled in
        # between: after every step the phase lists exactly the expected species in order, each pointing at it, and
        # its element set is the union over them
        if all(repo.find_method(ci, h_, missing_ok=True) for h_ in ('extend_species', 'append_species',
                                                                      'remove_species', 'pop_species')):
            I = new_interp(repo)
            fr = Frame(I, repo.module('pmutt'), {}, None, None)
            mk = lambda n_, el: Obj(n_, attrs={'name': n_, 'elements': DictV({el: C(1)}), 'phase': None})
            S = {n_: mk(n_, el) for n_, el in (('A', 'H'), ('B', 'O'), ('Cc', 'N'), ('D', 'Pt'), ('E', 'C'),
                                               ('X', 'Ar'), ('Y', 'He'))}
            p = fr.apply(ci, [], {'name': 'p', 'species': ListV([S['A']])}, None)
            q_ = fr.apply(ci, [], {'name': 'q', 'species': ListV([S['X']])}, None)
            steps = (('extend_species', p, {'val': ListV([S['B'], S['Cc']])}, ['A', 'B', 'Cc'], ['X']),
                     ('extend_species', q_, {'val': ListV([S['Y']])}, ['A', 'B', 'Cc'], ['X', 'Y']),
                     ('append_species', p, {'val': S['D']}, ['A', 'B', 'Cc', 'D'], ['X', 'Y']),
                     ('remove_species', p, {'name': 'B'}, ['A', 'Cc', 'D'], ['X', 'Y']),
                     ('extend_species', p, {'val': ListV([S['E']])}, ['A', 'Cc', 'D', 'E'], ['X', 'Y']),
                     ('pop_species', p, {'i': C(0)}, ['Cc', 'D', 'E'], ['X', 'Y']),
                     ('append_species', p, {'val': S['B']}, ['Cc', 'D', 'E', 'B'], ['X', 'Y']))
            done = ['%s([A])' % ci.name]
            for how, target, kw_, want_p, want_q in steps:
                r_ = I.call_method(target, how, [], kw_)
                arg_ = list(kw_.values())[0]
                done.append('%s.%s(%s)' % ('p' if target is p else 'q', how,
                                           [x.name for x in arg_.items] if isinstance(arg_, ListV)
                                           else getattr(arg_, 'name', show(arg_, 10))))
                ok = not isinstance(r_, Raised)
                state = {}
                for ph_, want_, nm_ in ((p, want_p, 'p'), (q_, want_q, 'q')):
                    got = get_public(I, ph_, 'species')
                    els = get_public(I, ph_, 'elements')
                    names_ = [getattr(x, 'name', x) for x in got.items] if isinstance(got, ListV) else None
                    state[nm_] = names_
                    want_els = sorted(list(S[n_].attrs['elements'].d)[0] for n_ in want_)
                    ok = ok and names_ == want_ and all(S[n_].attrs.get('phase') is ph_ for n_ in want_) and \
                        isinstance(els, ListV) and sorted(I.plain(x) for x in els.items) == want_els
                o2, f2 = repo.find_method(ci, how)
                run.check(ok, 'EFFECT.membership', cname, 'sequence step %d: %s' % (len(done) - 1, how),
                          'after %s the phase p lists %s and q lists %s; expected %s and %s, every listed species '
                          'pointing at its phase, the element sets following'
                          % (' -> '.join(done), state.get('p'), state.get('q'), want_p, want_q), o2.module, f2,
                          sample='%s: %s' % (cname, ' -> '.join(done)) if how == 'pop_species' else None)
                if not ok:
                    break
            # the same number of species, other species: the element set is read, then one species is taken out and
            # another one put in with no read in between (a set remembered per species *count* survives exactly this)
            for take, kw_take in (('remove_species', {'name': 'B'}), ('pop_species', {'i': C(1)})):
                for put in ('append_species', 'extend_species'):
                    I = new_interp(repo)
                    fr = Frame(I, repo.module('pmutt'), {}, None, None)
                    a, b, n_ = mk('A', 'H'), mk('B', 'O'), mk('Cc', 'N')
                    p = fr.apply(ci, [], {'name': 'p', 'species': ListV([a, b])}, None)
                    first = get_public(I, p, 'elements')
                    r1 = I.call_method(p, take, [], dict(kw_take))
                    r2 = I.call_method(p, put, [], {'val': n_ if put == 'append_species' else ListV([n_])})
                    els = get_public(I, p, 'elements')
                    got = get_public(I, p, 'species')
                    ok = not isinstance(r1, Raised) and not isinstance(r2, Raised) and isinstance(first, ListV) and \
                        sorted(I.plain(x) for x in first.items) == ['H', 'O'] and isinstance(got, ListV) and \
                        got.items == [a, n_] and isinstance(els, ListV) and \
                        sorted(I.plain(x) for x in els.items) == ['H', 'N']
                    o2, f2 = repo.find_method(ci, take)
                    run.check(ok, 'EFFECT.membership', cname, 'swap between two reads: %s, %s' % (take, put),
                              'after %s([A(H), B(O)]) -> read elements (%s) -> %s(B) -> %s(Cc(N)) the phase lists %s '
                              'with elements %s; expected [A, Cc] with elements [H, N]'
                              % (ci.name, show(first, 40), take, put,
                                 [getattr(x, 'name', x) for x in got.items] if isinstance(got, ListV) else show(got),
                                 show(els, 40)), o2.module, f2)
        # removals, on two coexisting phases: the phase lists exactly what is left, in order, its element set follows,
        # and the other phase is untouched
        for how in ('remove_species', 'pop_species', 'clear_species'):
            if repo.find_method(ci, how, missing_ok=True) is None:
                continue
            I = new_interp(repo)
            fr = Frame(I, repo.module('pmutt'), {}, None, None)
            mk = lambda n_, el: Obj(n_, attrs={'name': n_, 'elements': DictV({el: C(1)}), 'phase': None})
            a, b, c_ = mk('A', 'H'), mk('B', 'O'), mk('Cc', 'N')
            d_ = mk('D', 'Pt')
            p = fr.apply(ci, [], {'name': 'p', 'species': ListV([a, b, c_])}, None)
            q_ = fr.apply(ci, [], {'name': 'q', 'species': ListV([d_])}, None)
            if how == 'remove_species':
                r_ = I.call_method(p, how, [], {'name': 'B'})
                left = [a, c_]
            elif how == 'pop_species':
                r_ = I.call_method(p, how, [], {'i': C(0)})
                left = [b, c_]
            else:
                r_ = I.call_method(p, how, [], {})
                left = []
            got = get_public(I, p, 'species')
            other = get_public(I, q_, 'species')
            els = get_public(I, p, 'elements')
            want_els = sorted(list(x.attrs['elements'].d)[0] for x in left)
            ok = not isinstance(r_, Raised) and isinstance(got, ListV) and got.items == left and \
                isinstance(other, ListV) and other.items == [d_] and isinstance(els, ListV) and \
                sorted(I.plain(x) for x in els.items) == want_els
            o2, f2 = repo.find_method(ci, how)
            run.check(ok, 'EFFECT.membership', cname, 'remove via ' + how,
                      'after %s the phase lists %s (elements %s), expected %s (elements %s); the other phase lists %s'
                      % (how, [getattr(x, 'name', x) for x in got.items] if isinstance(got, ListV) else show(got),
                         show(els, 60), [x.name for x in left], want_els,
                         [getattr(x, 'name', x) for x in other.items] if isinstance(other, ListV) else show(other)),
                      o2.module, f2)


def organize(run, repo):
    """organize_phases hands every phase exactly its species, the reactions any of its species takes part in and the
    lateral interactions of its species, whatever the order of the species inside a reaction"""
    m = repo.module(OM)
    fn = m.functions.get('organize_phases')
    if fn is None:
        raise AnchorError(OM + '.organize_phases not found')
    run.fn(OM + '.organize_phases')
    kinds = {'gas': 'IdealGas', 'bulk': 'StoichSolid', 'terrace': 'InteractingInterface', 'step': 'InteractingInterface'}
    sp_phase = [('H2', 'gas'), ('N2', 'gas'), ('PtB', 'bulk'), ('PtT', 'terrace'), ('HT', 'terrace'), ('NT', 'terrace'),
                ('PtS', 'step'), ('HS', 'step'), ('X', None)]
    # (name, species in the order the reaction lists them)
    rx_species = [('ads_T', ['H2', 'PtT', 'HT']), ('ads_S', ['H2', 'PtS', 'HS']),
                  ('hop_alternating', ['HT', 'PtS', 'HS', 'PtT']), ('hop_grouped', ['HT', 'PtT', 'HS', 'PtS']),
                  ('hop_grouped_rev', ['HS', 'PtS', 'PtT', 'HT']), ('terrace_only', ['HT', 'NT', 'PtT']),
                  ('all_four', ['N2', 'NT', 'PtT', 'PtB', 'PtS', 'HS', 'H2'])]
    inter = [('HT', 'NT'), ('HS', 'HS'), ('NT', 'HT')]
    for variant in ('species, reactions and interactions', 'species only', 'species and reactions'):
        I = new_interp(repo)
        built = []
        for cname in set(kinds.values()):
            def stub(I_, fr, args, kwargs, cname=cname):
                o = Obj('phase#%d' % len(built), attrs=dict(kwargs))
                o.attrs['__class__'] = cname
                built.append(o)
                return o
            I.opaque_classes['pmutt.omkm.phase.' + cname] = stub
        sp = {}
        for nm, ph in sp_phase:
            sp[nm] = Obj(nm, attrs={'name': nm, 'phase': ph, 'elements': DictV({'H': C(1)})})
        nophase = Obj('Y', attrs={'name': 'Y', 'elements': DictV({'H': C(1)})})
        nophase.missing.add('phase')
        rx = []
        for nm, members in rx_species:
            r = Obj(nm, attrs={'name': nm})
            r.opaque_methods['get_species'] = (lambda I_, obj, a, k, members=members:
                                               DictV({x: sp[x] for x in members}))
            r.opaque_params['get_species'] = ('include_TS', 'key')
            rx.append(r)
        li = [Obj('int%d' % i, attrs={'name_i': a_, 'name_j': b_}) for i, (a_, b_) in enumerate(inter)]
        data = ListV([DictV({'name': ph, 'phase_type': kinds[ph], 'note': 'note of ' + ph})
                      for ph in ('gas', 'bulk', 'terrace', 'step')])
        kw = {'phases_data': data, 'species': ListV(list(sp.values()) + [nophase])}
        if 'reactions' in variant:
            kw['reactions'] = ListV(rx)
        if 'interactions' in variant:
            kw['interactions'] = ListV(li)
        out = I.call_function(m, fn, [], kw)
        if not (isinstance(out, ListV) and len(out) == 4 and all(isinstance(x, Obj) for x in out.items)):
            run.fail('REF.organize', 'io.omkm.organize_phases', 'phases built [%s]' % variant,
                     '[%s] four phase descriptions must give four phases, got %s' % (variant, show(out, 120)), m, fn)
            continue
        for ph, po in zip(('gas', 'bulk', 'terrace', 'step'), out.items):
            def names(v):
                if v is None:
                    return []
                return [getattr(x, 'name', x) for x in v.items] if isinstance(v, ListV) else v
            got_sp = names(po.attrs.get('species'))
            want_sp = [nm for nm, p_ in sp_phase if p_ == ph]
            got_rx = names(po.attrs.get('reactions'))
            want_rx = [nm for nm, mem in rx_species if any(dict(sp_phase)[x] == ph for x in mem)] \
                if 'reactions' in variant else []
            got_li = names(po.attrs.get('interactions'))
            want_li = ['int%d' % i for i, (a_, b_) in enumerate(inter) if dict(sp_phase)[a_] == ph] \
                if 'interactions' in variant else []
            ok = po.attrs.get('__class__') == kinds[ph] and I.plain(po.attrs.get('name')) == ph and \
                I.plain(po.attrs.get('note')) == 'note of ' + ph
            run.check(ok, 'REF.organize', 'io.omkm.organize_phases', 'phase data [%s] %s' % (variant, ph),
                      '[%s] phase %s is built as %s with name %s, note %s' % (variant, ph, po.attrs.get('__class__'),
                                                                               show(po.attrs.get('name')),
                                                                               show(po.attrs.get('note'))), m, fn)
            run.check(got_sp == want_sp, 'REF.organize', 'io.omkm.organize_phases', 'species of phase [%s] %s'
                      % (variant, ph), '[%s] phase %s receives species %s, its species are %s' % (variant, ph, got_sp,
                                                                                                  want_sp), m, fn,
                      sample='organize_phases: phase %s <- species %s' % (ph, want_sp) if variant.endswith('interactions')
                      else None)
            run.check(got_rx == want_rx, 'REF.organize', 'io.omkm.organize_phases', 'reactions of phase [%s] %s'
                      % (variant, ph), '[%s] phase %s receives reactions %s; the reactions its species take part in are '
                      '%s' % (variant, ph, got_rx, want_rx), m, m.functions.get('get_reactions_phases') or fn,
                      sample='organize_phases: phase %s <- reactions %s' % (ph, want_rx)
                      if variant.endswith('interactions') else None)
            run.check(got_li == want_li, 'REF.organize', 'io.omkm.organize_phases', 'interactions of phase [%s] %s'
                      % (variant, ph), '[%s] phase %s receives interactions %s, expected %s' % (variant, ph, got_li,
                                                                                                want_li), m, fn)


def check(run, repo):
    run.explanation = (
        'Decidable clauses of C07 by abstract interpretation: (a) _assign_yaml_val for every kind of option value '
        '(Python number, NumPy scalar, string, string with units, list, dictionary, boolean) with and without a unit '
        'template: a supplied value is written under its label (numbers with the unit of the unit system) or rejected, '
        'never silently dropped; omitted options and labels already present are left alone; (b) write_yaml with every '
        'option omitted, each of 22 reactor options alone and all together: the value reaches the documented section '
        'and label with its unit, and a single option produces nothing else; (c) write_cti and write_thermo_yaml with '
        'marker objects: reactions and lateral interactions get unique ids (auto and user ids mixed) before the phases '
        'are emitted, every species, reaction, phase, interaction and BEP is emitted exactly once with its final id, '
        'all sections are present, nothing crashes when collections are omitted; (d) phases of every class built '
        'without species do not share their species list, and every way of adding species (constructor, setter, '
        'append, extend) lists them once with .phase pointing at the owner, every way of removing (by name, by index, '
        'clear) leaves exactly the rest, the element set following, a coexisting phase untouched; organize_phases hands each '
        'phase constructor exactly its species, every reaction one of its species takes part in (whatever the order of '
        'the species in the reaction) and the interactions of its species; (e) the species, phase, reaction, BEP and '
        'interaction emitters are interpreted over abstract strings / dictionaries and every coefficient, bound, name '
        'and converted quantity is compared with the object (see emitters). Added after the white-box review: a value '
        'given as text (scalar options) is written as the user wrote it and a NumPy number gets the unit like a Python '
        'number; the unit system declared at the head of both files is the chosen one, keyword by keyword; both thermo '
        'writers hand their T to every reaction; a sequence of extend/append/remove/pop on a phase that already has '
        'species, with a second phase filled in between; phases with 17 species (list broken over several lines), phase '
        'names next to a different note, adjacent phases given as objects; reactions with an explicit transition state '
        'and with a BEP relation as transition state (equation without it, barrier = max(0, change to the transition '
        'state, change to the products) * R T built from the species, not from the reaction class), pre-exponential '
        'factor against kB/h / (summed site density in quantity/length^2)^(n_surf-1) in three unit systems, '
        'ads_act_method; both member lists of a BEP relation in its YAML entry. Armed after the five defects of the '
        'review were fixed in pMuTT: interaction strengths in the YAML entry are the slopes converted kcal/mol -> the '
        'requested energy/quantity unit in three unit systems (next to the CTI directive); the site occupancy of every '
        'species class is a plain number; without a unit system every unit-carrying reactor option alone is written as '
        'given; series given as text, or as text mixed with numbers, keep the text and give the numbers the unit; the '
        'thermo writers hand every reaction their P (up to a constant factor) and ads_act_method, and an emitter that '
        'accepts neither is still written. Added after the second white-box review: reaction steps whose reactant '
        'side is one surface species with coefficient 2, two with coefficients 2 + 1, a gas species with coefficient '
        '1/2 (A against kB/h over the site densities counted with the coefficients); the coefficients printed in the '
        'equation are the coefficients of the reaction (1 not written); every reaction object is written a second time '
        'for another unit system at another (T, P) and must give the second expectation, and what it reports publicly '
        '(A, Ea, beta, sticking coefficient, id, flags) is the same before and after every emitter call; phase '
        'entries in a second unit system (the default: molec, cm, kg) so that no conversion factor is 1 in both; '
        'numbers of the CTI directives are printed in a presentation that keeps at least six significant digits '
        'whatever the magnitude; file assembly with three distinct BEP relations (unnamed and named by the user), a '
        'reaction without a bep attribute, and with a real interface and a real BEP relation around marker reactions: '
        'the ids named by the range notation of the interface and of the relation are the ids the writer handed '
        'out; every writer called with filename= leaves on disk exactly the text it returns without a file name '
        '(serialiser text with quotes and list items, so that the post-processing is part of the comparison). Added '
        'after the third white-box review: reactions with a pre-exponential factor given by the user (written as it '
        'is in every unit system, with two and three sites, with a transition state, as adsorption step); in the CTI '
        'phase entries every species name stands under species= and every element under elements= (3 and 17 '
        'species); an interface whose reactions have no BEP relation writes no beps= keyword; the "<value> <unit>" '
        'texts of both YAML files (site density, Ea, intercept, strengths, every reactor option, series) keep at '
        'least six significant digits whatever the magnitude; a history at the level of the writer: the misc '
        'dictionary of the caller handed to two calls of write_yaml for two different reactors - the second file is '
        'the file of a fresh call, the dictionary holds what the caller put into it; every YAML entry of every '
        'emitter and the data the writers hand to the serialiser are made of dictionaries, lists, text, booleans '
        'and plain numbers only (no tuple, array, list of NumPy scalars, object: those are written with '
        'python-specific tags no safe loader reads); every CTI text of every emitter and the assembled CTI file, its '
        'fields spelled with samples, parses as a sequence of calls of directives that pmutt/io/ctml_writer.py '
        'defines, by keywords the directive has, with literal arguments; pathlib.Path.open on the path stub is the '
        'open() model. Written but not armed (genuine defects of the unmodified tree, DEFECT3_C07.md, switch '
        'PENDING_DEFECTS in c07b.py): NumPy numbers for unit-less reactor options (D1), the five section '
        'dictionaries of write_yaml in the history instance (D2), quotes the serialiser needs (D3), the CTI entry of '
        'a NASA-9 species (D4).')
    run.assumptions = ['yaml.dump is an uninterpreted serialiser that receives the data checked here',
                       'pathlib.Path of a concrete file name behaves lexically like PurePosixPath; its file-system '
                       'methods are outside the fragment (refused)',
                       'Python evaluates default argument values once (modelled: defaults are shared between calls)']
    run.undecided = ['that the YAML loads beyond "the data is plain" (PyYAML quoting, quote stripping by str.replace: '
                     'DEFECT3_C07.md D3); that Cantera accepts the CTI beyond "a sequence of known directives with '
                     'known keywords and literal arguments" (argument types, number of coefficients of a thermo '
                     'directive)',
                     'the Python type of a number that reaches the serialiser or a formatted list (NumPy scalar or '
                     'Python number) beyond what the interpreter marks: list(arr) and the text of containers are '
                     'requested in REQ3_C07.md (whitebox3 A3, A4)',
                     'uniqueness of ids when user ids collide with automatic ones',
                     '_filter_reactions semantics',
                     'the XML file write_cti derives from the CTI file (write_xml=True: Cantera\'s ctml_writer)',
                     'line-end translation of files on disk (newline= is handed to open() as given)',
                     'user ids whose number part is not written with four digits: the range notation '
                     '(_get_omkm_range) re-prints them with four - the known finding recorded under C18, seen from '
                     'here (DEFECT2_C07.md D1); the fixtures of file_assembly give user ids in the four-digit spelling']
    run.note('file_assembly gives user ids in the spelling <head>_dddd: any other spelling is re-printed with four digits '
             'by the entries that refer to it (_get_omkm_range; known finding recorded under C18, DEFECT2_C07.md D1)',
             repo.module('pmutt.cantera'), repo.module('pmutt.cantera').functions.get('_get_omkm_range'))
    assign_yaml(run, repo)
    reactor_yaml(run, repo)
    reactor_collections(run, repo)
    reactor_history(run, repo)
    file_assembly(run, repo)
    writer_history(run, repo)
    files_on_disk(run, repo)
    quoted_scalars(run, repo)
    units_header(run, repo)
    phases_independent(run, repo)
    organize(run, repo)
    from .c07b import emitters
    emitters(run, repo)
    run.floor('C07 obligations', run.obligations, 1100)


O_ = 'pmutt/io/omkm.py'
R_ = 'pmutt/omkm/reaction.py'
MUTANTS = [
    {'name': 'wb3 A3: NASA coefficients handed to the serialiser as list(array) (NumPy scalars)',
     'expect': ('SLOT.yaml', 'Nasa.to_omkm_yaml'),
     'edits': [('pmutt/empirical/nasa.py', "'data': [self.a_low.tolist(),\n                                self.a_high.tolist()]}", "'data': [list(self.a_low), list(self.a_high)]}")]},
    {'name': 'wb3 A4: slopes of a lateral interaction printed as a list of NumPy scalars',
     'expect': ('DATAFLOW.interaction', 'PiecewiseCovEffect.to_cti'),
     'edits': [('pmutt/mixture/cov.py', "        return [slope * factor for slope in self.slopes]", "        return list(np.asarray(self.slopes) * factor)")]},
    # the four repairs of white-box round 3 reverted (D1-D4, known_findings.json status=fixed)
    {'name': 'D4 reverted: NASA-9 entry closes the thermo tuple only', 'expect': ('SLOT.cti', 'Nasa9.to_cti'),
     'edits': [('pmutt/empirical/nasa.py', "        cti_str = '{}))\\n'.format(cti_str[:-2])", "        cti_str = '{})\\n'.format(cti_str[:-2])")]},
    {'name': 'D1 reverted: NumPy numbers handed to the serialiser as they are', 'expect': ('DATAFLOW.reactor', 'write_yaml'),
     'edits': [('pmutt/omkm/__init__.py', "    if hasattr(param.val, 'tolist'):\n        param = param._replace(val=param.val.tolist())", "    if False:\n        param = param._replace(val=param.val.tolist())")]},
    {'name': 'D2 reverted: the reactor dictionary of the caller is filled in place', 'expect': ('EFFECT.caller-dict', 'write_yaml'),
     'edits': [(O_, "        reactor = dict(reactor)", "        reactor = reactor")]},
    {'name': 'D3 reverted: every single quote removed from the thermo YAML', 'expect': ('DATAFLOW.quotes', 'write_thermo_yaml'),
     'edits': [(O_, "    lines_out = lines_out.replace('\\'\"', '\"').replace('\"\\'', '\"')", "    lines_out = lines_out.replace('\\'', '')")]},
    {'name': 'a BEP relation is listed once per reaction', 'expect': ('DATAFLOW.phase', 'InteractingInterface.to_cti'),
     'edits': [('pmutt/omkm/phase.py', "                if bep.name in beps:\n                    continue", "                if bep.name in beps:\n                    pass")]},
    {'name': 'reactions declared only when there are none', 'expect': ('DATAFLOW.phase', 'InteractingInterface.to_omkm_yaml'),
     'edits': [('pmutt/omkm/phase.py', "        if self.reactions is None or len(self.reactions) == 0:\n            yaml_dict['reactions'] = 'none'", "        if self.reactions is not None and len(self.reactions) > 0:\n            yaml_dict['reactions'] = 'none'", 1, 2)]},
    {'name': 'interface entry lists the interactions under reactions', 'expect': ('DATAFLOW.phase', 'InteractingInterface.to_cti'),
     'edits': [('pmutt/omkm/phase.py', "            val = getattr(self, range_field)\n            # Skip empty fields", "            val = getattr(self, 'interactions')\n            # Skip empty fields")]},
    {'name': 'reaction registers under the other direction', 'expect': ('DATAFLOW.bep', 'SurfaceReaction.__init__'),
     'edits': [('pmutt/omkm/reaction.py', "                if self.direction == 'synthesis':\n                    self.bep.synthesis_reactions.append(self)", "                if self.direction != 'synthesis':\n                    self.bep.synthesis_reactions.append(self)")]},
    {'name': 'BEP directive lists the members in the wrong slots', 'expect': ('DATAFLOW.bep', 'BEP.to_cti'),
     'edits': [('pmutt/omkm/reaction.py', "        synthesis_reactions = _get_omkm_range(objs=self.synthesis_reactions,\n                                             parent_obj=self,\n                                             delimiter=delimiter)", "        synthesis_reactions = _get_omkm_range(objs=self.cleavage_reactions,\n                                             parent_obj=self,\n                                             delimiter=delimiter)")]},
    {'name': 'a single interface is unwrapped like gas and bulk', 'expect': ('DATAFLOW.reactor', 'write_yaml'),
     'edits': [(O_, "            if len(phases) == 1 and phase_type != 'surfaces':", "            if len(phases) == 1:")]},
    {'name': 'reactor pressure from the last entry of the series', 'expect': ('DATAFLOW.reactor', 'write_yaml'),
     'edits': [(O_, "        reactor_params.append(_Param('pressure', multi_P[0], '_pressure'))", "        reactor_params.append(_Param('pressure', multi_P[-1], '_pressure'))")]},
    {'name': 'sensitivity species written by id', 'expect': ('', 'write_yaml'),
     'edits': [(O_, "                    name = ind_species.name", "                    name = ind_species.id")]},
    {'name': 'misc entries dropped', 'expect': ('DATAFLOW.reactor', 'write_yaml'),
     'edits': [(O_, "    yaml_dict = misc.copy()", "    yaml_dict = {}")]},
    {'name': 'only int/float get units again', 'expect': ('PATH.assign', 'write_yaml'),
     'edits': [('pmutt/omkm/__init__.py', '    if isinstance(param.val, numbers.Number):', '    if isinstance(param.val, (int, float)):'),
               ('pmutt/omkm/__init__.py', "    else:\n        err_msg = ('Unable to write {} ({}) with units. Expected a number, a '", "    elif False:\n        err_msg = ('Unable to write {} ({}) with units. Expected a number, a '"),
               # since 9a02d60 NumPy numbers are converted first: the mutant needs that conversion gone to bite
               ('pmutt/omkm/__init__.py', "    if hasattr(param.val, 'tolist'):\n        param = param._replace(val=param.val.tolist())", "    if False:\n        param = param._replace(val=param.val.tolist())")]},
    {'name': 'volume written with the area unit', 'expect': ('DATAFLOW.reactor', 'write_yaml'),
     'edits': [(O_, "_Param('volume', V, '_length3')", "_Param('volume', V, '_length2')")]},
    {'name': 'reaction emitted before it gets its id', 'expect': ('', 'write_cti'),
     'edits': [(O_, "            if reaction.id is None:\n                reaction.id = 'r_{:04d}'.format(i)\n                i += 1\n            # Write reaction\n            reaction_CTI = _force_pass_arguments(reaction.to_cti, units=units,\n                                                 T=T, P=P,\n                                                 ads_act_method=ads_act_method)", "            # Write reaction\n            reaction_CTI = _force_pass_arguments(reaction.to_cti, units=units,\n                                                 T=T, P=P,\n                                                 ads_act_method=ads_act_method)\n            if reaction.id is None:\n                reaction.id = 'r_{:04d}'.format(i)\n                i += 1")]},
    {'name': 'site density divided twice', 'expect': ('DIM.site-density', 'InteractingInterface.to_omkm_yaml'),
     'edits': [('pmutt/omkm/phase.py', "        site_den = self.site_density\\\n                   *c.convert_unit(initial='mol', final=quantity_unit)\\\n                   /c.convert_unit(initial='cm2', final=area_unit)\n        site_den_param",
                "        site_den = self.site_density\\\n                   *c.convert_unit(initial='mol', final=quantity_unit)\\\n                   *c.convert_unit(initial='cm2', final=area_unit)\n        site_den_param")]},
    {'name': 'NASA CTI swaps two low coefficients', 'expect': ('SLOT.cti', 'Nasa.to_cti'),
     'edits': [('pmutt/empirical/nasa.py', "self.a_low[4], self.a_low[5], self.a_low[6], self.T_mid,", "self.a_low[4], self.a_low[6], self.a_low[5], self.T_mid,")]},
    {'name': 'extend_species forgets to point species at the phase', 'expect': ('EFFECT.membership', ''),
     'edits': [('pmutt/cantera/phase.py', "        for i in range(len(val)):\n            val[i].phase = self\n        self._species.extend(val)", "        self._species.extend(val)")]},
    # instances added after the white-box review (whitebox/C07.md)
    {'name': 'YAML equation of a step keeps its transition state', 'expect': ('DATAFLOW.reaction', 'SurfaceReaction.to_omkm_yaml'),
     'edits': [('pmutt/omkm/reaction.py', "                                               reaction_delimiter=' <=> ',\\\n                                               include_TS=False)", "                                               reaction_delimiter=' <=> ')")]},
    {'name': 'CTI equation of a step keeps its transition state', 'expect': ('DATAFLOW.reaction', 'SurfaceReaction.to_cti'),
     'edits': [('pmutt/omkm/reaction.py', "                                      reaction_delimiter=' <=> ',\\\n                                      include_TS=False)", "                                      reaction_delimiter=' <=> ')")]},
    {'name': 'BEP YAML entry lists the cleavage reactions as synthesis reactions', 'expect': ('DATAFLOW.bep', 'BEP.to_omkm_yaml'),
     'edits': [('pmutt/omkm/reaction.py', "            synthesis_reactions = _get_omkm_range(objs=self.synthesis_reactions,\n                                                  parent_obj=self,\n                                                  format='list')", "            synthesis_reactions = _get_omkm_range(objs=self.cleavage_reactions,\n                                                  parent_obj=self,\n                                                  format='list')")]},
    {'name': 'extend_species replaces the species of the phase', 'expect': ('EFFECT.membership', ''),
     'edits': [('pmutt/cantera/phase.py', "        for i in range(len(val)):\n            val[i].phase = self\n        self._species.extend(val)", "        self.species = list(val)")]},
    {'name': 'text with its own unit gets the unit of the unit system appended', 'expect': ('DATAFLOW.unit', 'write_yaml'),
     'edits': [('pmutt/omkm/__init__.py', '    if isinstance(param.val, numbers.Number):', '    if isinstance(param.val, (numbers.Number, str)):')]},
    {'name': 'units directive swaps energy and activation energy', 'expect': ('DATAFLOW.units', 'write_cti'),
     'edits': [('pmutt/cantera/units.py', "                self.length, self.time, self.quantity, self.energy,\n                self.act_energy, self.pressure, self.mass)", "                self.length, self.time, self.quantity, self.act_energy,\n                self.energy, self.pressure, self.mass)")]},
    {'name': 'units section declares the energy unit as activation energy', 'expect': ('DATAFLOW.units', 'write_thermo_yaml'),
     'edits': [('pmutt/cantera/units.py', "                'activation-energy': self.act_energy,", "                'activation-energy': self.energy,")]},
    {'name': 'species list over several lines drops the entry that starts a line', 'expect': ('DATAFLOW.phase', '.to_cti'),
     'edits': [('pmutt/io/cantera.py', "                    cti_lines.append('{}{}'.format(header_spaces, cti_val))", "                    cti_lines.append(header_spaces)")]},
    {'name': 'pre-exponential factor forgets mol -> quantity unit', 'expect': ('DATAFLOW.reaction', 'SurfaceReaction.to_'),
     'edits': [('pmutt/omkm/reaction.py', "            eff_site_den = eff_site_den\\\n                        *c.convert_unit(initial='mol', final=quantity_unit)\\\n                        /c.convert_unit(initial='cm2', final=area_unit)", "            eff_site_den = eff_site_den\\\n                        /c.convert_unit(initial='cm2', final=area_unit)")]},
    {'name': 'pre-exponential factor: site density to the power n_surf', 'expect': ('DATAFLOW.reaction', 'SurfaceReaction.to_'),
     'edits': [('pmutt/omkm/reaction.py', 'A = A / eff_site_den**(n_surf - 1)', 'A = A / eff_site_den**(n_surf)')]},
    {'name': 'barrier of a surface step from the enthalpy', 'expect': ('DATAFLOW.reaction', 'SurfaceReaction.to_omkm_yaml'),
     'edits': [('pmutt/omkm/reaction.py', "                act_val = self.get_G_act(units=act_energy_unit, T=T, P=P)\n\n        # Assign activation energy, beta", "                act_val = self.get_H_act(units=act_energy_unit, T=T, P=P)\n\n        # Assign activation energy, beta")]},
    {'name': 'interface YAML entry named by its note', 'expect': ('DATAFLOW.phase', 'InteractingInterface.to_omkm_yaml'),
     'edits': [('pmutt/omkm/phase.py', "            'name': self.name,\n            'elements': list(self.elements),\n            'species': species_names,\n            'kinetics': 'surface',", "            'name': self.note,\n            'elements': list(self.elements),\n            'species': species_names,\n            'kinetics': 'surface',")]},
    {'name': 'adjacent phase objects named by the interface itself', 'expect': ('DATAFLOW.phase', 'InteractingInterface.to_cti'),
     'edits': [('pmutt/omkm/phase.py', "                phases_names.append(phase.name)", "                phases_names.append(self.name)")]},
    {'name': 'NumPy numbers written without the unit', 'expect': ('', 'write_yaml'),
     'edits': [('pmutt/omkm/__init__.py', "        val_str = '\\\"{} {}\\\"'.format(param.val, param.units)", "        val_str = '\\\"{} {}\\\"'.format(param.val, param.units if isinstance(param.val, (int, float)) else '')"),
               ('pmutt/omkm/__init__.py', "    if hasattr(param.val, 'tolist'):\n        param = param._replace(val=param.val.tolist())", "    if False:\n        param = param._replace(val=param.val.tolist())")]},
    # the five defects of the review (DEFECT_C07.md), fixed in pMuTT: each fix reverted, plus the instances around them
    {'name': 'revert b1bdf71: Shomate site occupancy as a one-element tuple', 'expect': ('SLOT.yaml', 'Shomate.to_omkm_yaml'),
     'edits': [('pmutt/empirical/shomate.py', "            yaml_dict['sites'] = self.n_sites\n", "            yaml_dict['sites'] = self.n_sites,\n")]},
    {'name': 'revert 49f59b0: interaction strengths written unconverted', 'expect': ('DIM.strength', 'PiecewiseCovEffect.to_omkm_yaml'),
     'edits': [('pmutt/mixture/cov.py', "        slopes = self._get_slopes(energy_unit, quantity_unit)\n        strength_param = _Param('strength', slopes, final)", "        strength_param = _Param('strength', self.slopes, final)")]},
    {'name': 'revert dcdf1e7: slopes converted through the compound unit, which the table does not have per molecule',
     'expect': ('DIM.strength', 'PiecewiseCovEffect'),
     'edits': [('pmutt/mixture/cov.py', "        factor = c.convert_unit(initial='kcal', final=energy_unit) \\\n                 / c.convert_unit(initial='mol', final=quantity_unit)\n        return [slope * factor for slope in self.slopes]",
                "        final = '{}/{}'.format(energy_unit, quantity_unit)\n        return [c.convert_unit(slope, initial='kcal/mol', final=final) for slope in self.slopes]")]},
    {'name': 'revert 114c759: no unit system given, unit-carrying option raises', 'expect': ('DATAFLOW.unit', 'write_yaml'),
     'edits': [('pmutt/omkm/__init__.py', '    # Assume SI units if units is not specified\n    if units is None:', '    # Assume SI units if units is not specified\n    if param.units is None:')]},
    {'name': 'revert 0f47d41: series given as text get a second unit', 'expect': ('DATAFLOW.unit', 'write_yaml'),
     'edits': [('pmutt/omkm/__init__.py', '        vals_list = []\n        for val in param.val:\n            # An entry given as a string already carries its units\n            if isinstance(val, str):\n                vals_list.append(\'\\"{}\\"\'.format(val))\n                continue\n            val_str = \'\\"{} {}\\"\'.format(val, param.units)\n            for unit_type, unit in units.__dict__.items():\n                val_str = val_str.replace(\'_{}\'.format(unit_type), unit)\n            vals_list.append(val_str)\n', '        vals_list = [\'\\"{} {}\\"\'.format(i, param.units) for i in param.val]\n        for unit_type, unit in units.__dict__.items():\n            old_str = \'_{}\'.format(unit_type)\n            for i, val in enumerate(vals_list):\n                vals_list[i] = val.replace(old_str, unit)\n')]},
    {'name': 'revert 23fa5a9: P and ads_act_method not handed to the reactions', 'expect': ('DATAFLOW.option', 'io.omkm.write_'),
     'edits': [(O_, '            reaction_CTI = _force_pass_arguments(reaction.to_cti, units=units,\n                                                 T=T, P=P,\n                                                 ads_act_method=ads_act_method)', '            reaction_CTI = _force_pass_arguments(reaction.to_cti, units=units,\n                                                 T=T)'), (O_, '            reaction_dict = _force_pass_arguments(\n                    reaction.to_omkm_yaml, units=units, T=T, P=P,\n                    ads_act_method=ads_act_method)', '            reaction_dict = reaction.to_omkm_yaml(units=units, T=T)')]},
    {'name': 'thermo YAML hands every reaction all its options whether the emitter takes them or not', 'expect': ('DATAFLOW.once', 'write_thermo_yaml'),
     'edits': [(O_, '            reaction_dict = _force_pass_arguments(\n                    reaction.to_omkm_yaml, units=units, T=T, P=P,\n                    ads_act_method=ads_act_method)', '            reaction_dict = reaction.to_omkm_yaml(units=units, T=T, P=P,\n                                                  ads_act_method=ads_act_method)')]},
    {'name': 'thermo YAML evaluates the reactions at the default temperature', 'expect': ('DATAFLOW.option', 'write_thermo_yaml'),
     'edits': [(O_, '                    reaction.to_omkm_yaml, units=units, T=T, P=P,', '                    reaction.to_omkm_yaml, units=units, P=P,')]},
    {'name': 'CTI evaluates the reactions at the default temperature', 'expect': ('DATAFLOW.option', 'write_cti'),
     'edits': [(O_, '                                                 T=T, P=P,\n                                                 ads_act_method=ads_act_method)\n            reaction_lines', '                                                 P=P,\n                                                 ads_act_method=ads_act_method)\n            reaction_lines')]},
    # instances added after the second white-box review (whitebox2/C07.md)
    {'name': 'A1: number of surface reactants counted without their coefficients', 'expect': ('DATAFLOW.reaction', 'SurfaceReaction.to_'),
     'edits': [(R_, '                n_surf += stoich', '                n_surf += 1')]},
    {'name': 'A1: site density of a reactant taken once whatever its coefficient', 'expect': ('DATAFLOW.reaction', 'SurfaceReaction.to_'),
     'edits': [(R_, '                site_dens.extend([site_den] * int(stoich))', '                site_dens.extend([site_den])')]},
    {'name': 'A2: thermo YAML keeps the BEP relations in a dictionary keyed by name', 'expect': ('DATAFLOW.once', 'write_thermo_yaml'),
     'edits': [(O_, "    beps = []\n    if reactions is not None:\n        reactions_out = []", "    beps = {}\n    if reactions is not None:\n        reactions_out = []"),
               (O_, "                if bep is not None and bep not in beps:\n                    # Assign BEP name if not present so phases can refer to it\n                    if bep.name is None:\n                        bep.name = 'b_{:04d}'.format(j)\n                        j += 1\n                    beps.append(bep)", "                if bep is not None:\n                    beps.setdefault(bep.name, bep)", 1, 2),
               (O_, "        for bep in beps:\n            # Assign name if necessary", "        for bep in beps.values():\n            # Assign name if necessary")]},
    {'name': 'A2: CTI keeps the BEP relations in a dictionary keyed by name', 'expect': ('DATAFLOW.once', 'write_cti'),
     'edits': [(O_, "        beps = []\n        reaction_lines = []", "        beps = {}\n        reaction_lines = []"),
               (O_, "                if bep is not None and bep not in beps:\n                    # Assign BEP name if not present so phases can refer to it\n                    if bep.name is None:\n                        bep.name = 'b_{:04d}'.format(j)\n                        j += 1\n                    beps.append(bep)", "                if bep is not None:\n                    beps.setdefault(bep.name, bep)", 0, 2),
               (O_, "            for bep in beps:\n                bep_CTI", "            for bep in beps.values():\n                bep_CTI")]},
    {'name': 'A3: reactor file written with writelines', 'expect': ('DATAFLOW.file', 'write_yaml'),
     'edits': [(O_, '            f_ptr.write(lines_out)', '            f_ptr.writelines(lines)', 2, 3)]},
    {'name': 'A3: CTI file written with writelines', 'expect': ('DATAFLOW.file', 'write_cti'),
     'edits': [(O_, '            f_ptr.write(lines_out)', '            f_ptr.writelines(lines)', 0, 3)]},
    {'name': 'A3: thermo YAML file written before the quotes are removed', 'expect': ('DATAFLOW.file', 'write_thermo_yaml'),
     'edits': [(O_, '            f_ptr.write(lines_out)', "            f_ptr.write('\\n'.join(lines))", 1, 3)]},
    {'name': 'A4: pre-exponential factor kept on the reaction', 'expect': ('EFFECT.emitter', 'SurfaceReaction.to_'),
     'edits': [(R_, '            A = A / eff_site_den**(n_surf - 1)\n', '            A = A / eff_site_den**(n_surf - 1)\n            if not include_entropy:\n                self.A = A\n')]},
    {'name': 'A4: pre-exponential factor memoised out of sight', 'expect': ('DATAFLOW.reaction', 'SurfaceReaction.to_'),
     'edits': [(R_, '            A = A / eff_site_den**(n_surf - 1)\n', '            A = A / eff_site_den**(n_surf - 1)\n            self._A_memo = A\n'),
               (R_, '        if self.A is None:\n            if self.transition_state is None or not include_entropy:', '        if getattr(self, \'_A_memo\', None) is not None:\n            A = self._A_memo\n        elif self.A is None:\n            if self.transition_state is None or not include_entropy:')]},
    {'name': 'A5: CTI hands out reaction ids with five digits', 'expect': ('DATAFLOW.members', 'write_cti'),
     'edits': [(O_, "                reaction.id = 'r_{:04d}'.format(i)", "                reaction.id = 'r_{:05d}'.format(i)", 0, 2)]},
    {'name': 'A5: CTI hands out interaction ids with five digits', 'expect': ('DATAFLOW.members', 'write_cti'),
     'edits': [(O_, "                    lat_interaction.name = 'i_{:04d}'.format(i)", "                    lat_interaction.name = 'i_{:05d}'.format(i)")]},
    {'name': 'A5: thermo YAML hands out reaction ids with five digits', 'expect': ('DATAFLOW.members', 'write_thermo_yaml'),
     'edits': [(O_, "                reaction.id = 'r_{:04d}'.format(i)", "                reaction.id = 'r_{:05d}'.format(i)", 1, 2)]},
    {'name': 'x1: thermo YAML reads reaction.bep unguarded', 'expect': ('DATAFLOW.assembly', 'write_thermo_yaml'),
     'edits': [(O_, "            try:\n                bep = reaction.bep\n            except AttributeError:\n                pass\n            else:\n                if bep is not None and bep not in beps:", "            bep = reaction.bep\n            if True:\n                if bep is not None and bep not in beps:", 1, 2)]},
    {'name': 'x1: CTI reads reaction.bep unguarded', 'expect': ('DATAFLOW.assembly', 'write_cti'),
     'edits': [(O_, "            try:\n                bep = reaction.bep\n            except AttributeError:\n                pass\n            else:\n                if bep is not None and bep not in beps:", "            bep = reaction.bep\n            if True:\n                if bep is not None and bep not in beps:", 0, 2)]},
    {'name': 'x2: NASA CTI prints its low coefficients in fixed-point notation', 'expect': ('SLOT.cti', 'Nasa.to_cti'),
     'edits': [('pmutt/empirical/nasa.py', "                   '                      {: 2.8E}]),\\n'", "                   '                      {: 2.8f}]),\\n'")]},
    {'name': 'x2: NASA-9 CTI prints a coefficient in fixed-point notation', 'expect': ('SLOT.cti', 'Nasa9.to_cti'),
     'edits': [('pmutt/empirical/nasa.py', "                   '                      {: 2.8E}, {: 2.8E}, {: 2.8E}])'", "                   '                      {: 2.8E}, {: 2.8E}, {: 2.8f}])'")]},
    {'name': 'x2: Shomate CTI prints a coefficient in fixed-point notation', 'expect': ('SLOT.cti', 'Shomate.to_cti'),
     'edits': [('pmutt/empirical/shomate.py', "                   '                        {: 2.8E}]))').format(", "                   '                        {: 2.8f}]))').format(")]},
    {'name': 'x2: sticking coefficient and barrier in fixed-point notation', 'expect': ('DATAFLOW.reaction', 'SurfaceReaction.to_cti'),
     'edits': [(R_, "                       '                 stick({: .5e}, {}, {: .5e}){})'", "                       '                 stick({: .5f}, {}, {: .5f}){})'")]},
    {'name': 'x3: interface YAML entry forgets mol -> quantity unit', 'expect': ('DIM.site-density', 'InteractingInterface.to_omkm_yaml'),
     'edits': [('pmutt/omkm/phase.py', "        site_den = self.site_density\\\n                   *c.convert_unit(initial='mol', final=quantity_unit)\\\n                   /c.convert_unit(initial='cm2', final=area_unit)\n        site_den_param",
                "        site_den = self.site_density\\\n                   /c.convert_unit(initial='cm2', final=area_unit)\n        site_den_param")]},
    {'name': 'x3: interface CTI entry forgets mol -> quantity unit', 'expect': ('DIM.site-density', 'InteractingInterface.to_cti'),
     'edits': [('pmutt/omkm/phase.py', "        site_den = self.site_density\\\n                   *c.convert_unit(initial='mol', final=quantity_unit)\\\n                   /c.convert_unit(initial='cm2', final=area_unit)\n\n        phases_names = []",
                "        site_den = self.site_density\\\n                   /c.convert_unit(initial='cm2', final=area_unit)\n\n        phases_names = []")]},
    {'name': 'x5: bulk density forgets g -> mass unit', 'expect': ('DIM.density', 'StoichSolid.to_cti'),
     'edits': [('pmutt/cantera/phase.py', "        density = self.density*c.convert_unit(initial='g', final=mass_unit)\\\n", "        density = self.density\\\n")]},
    {'name': 'x4: CTI equation rounds the coefficients to integers', 'expect': ('DATAFLOW.reaction', 'SurfaceReaction.to_cti'),
     'edits': [(R_, "        reaction_str = self.to_string(stoich_space=True,", "        reaction_str = self.to_string(stoich_space=True, stoich_format='.0f',")]},
    {'name': 'x4: YAML equation rounds the coefficients to integers', 'expect': ('DATAFLOW.reaction', 'SurfaceReaction.to_omkm_yaml'),
     'edits': [(R_, "        yaml_dict['equation'] = self.to_string(stoich_space=True,", "        yaml_dict['equation'] = self.to_string(stoich_space=True, stoich_format='.0f',")]},
    # defect D2 of the second review (DEFECT2_C07.md), fixed in pMuTT (92cab49): the fix reverted
    {'name': 'revert 92cab49: CTI leaves BEP relations without a name unnamed', 'expect': ('DATAFLOW.ids', 'write_cti'),
     'edits': [(O_, "                    # Assign BEP name if not present so phases can refer to it\n                    if bep.name is None:\n                        bep.name = 'b_{:04d}'.format(j)\n                        j += 1\n", "", 0, 2)]},
    {'name': 'thermo YAML names the BEP relations only after the phases are written', 'expect': ('ORDER.ids-before-phases', 'write_thermo_yaml'),
     'edits': [(O_, "                    # Assign BEP name if not present so phases can refer to it\n                    if bep.name is None:\n                        bep.name = 'b_{:04d}'.format(j)\n                        j += 1\n", "", 1, 2)]},
    # instances added after the third white-box review (whitebox3/C07.md)
    {'name': 'A1: a pre-exponential factor given by the user is rescaled by the area unit', 'expect': ('DATAFLOW.reaction', 'SurfaceReaction.to_'),
     'edits': [(R_, "        else:\n            A = self.A\n        return A", "        else:\n            A = self.A / c.convert_unit(initial='cm2', final=units.split('/')[1])\n        return A")]},
    {'name': 'A2: write_yaml fills the misc dictionary of the caller', 'expect': ('DATAFLOW.history', 'write_yaml'),
     'edits': [(O_, "    yaml_dict = misc.copy()", "    yaml_dict = misc")]},
    {'name': 'A3 (container): NASA temperature ranges handed to the serialiser as a tuple', 'expect': ('SLOT.yaml', 'Nasa.to_omkm_yaml'),
     'edits': [('pmutt/empirical/nasa.py', "                       'temperature-ranges': [float(self.T_low),\n                                              float(self.T_mid),\n                                              float(self.T_high)],", "                       'temperature-ranges': (float(self.T_low),\n                                              float(self.T_mid),\n                                              float(self.T_high)),")]},
    {'name': 'A3 (container): NASA coefficients handed to the serialiser as arrays', 'expect': ('SLOT.yaml', 'Nasa.to_omkm_yaml'),
     'edits': [('pmutt/empirical/nasa.py', "                       'data': [self.a_low.tolist(),\n                                self.a_high.tolist()]}", "                       'data': [self.a_low, self.a_high]}")]},
    {'name': 'A3 (container): species names of a phase handed to the serialiser as a tuple', 'expect': ('DATAFLOW.phase', '.to_omkm_yaml'),
     'edits': [('pmutt/omkm/phase.py', "            'species': species_names,\n            'kinetics': 'surface',", "            'species': tuple(species_names),\n            'kinetics': 'surface',")]},
    {'name': 'A4 (validity): lateral interaction id written without quotes', 'expect': ('DATAFLOW.interaction', 'PiecewiseCovEffect.to_cti'),
     'edits': [('pmutt/mixture/cov.py', "                         '                    id=\"{}\")'", "                         '                    id={})'")]},
    {'name': 'A4 (validity): Shomate entry does not close its species directive', 'expect': ('SLOT.cti', 'Shomate.to_cti'),
     'edits': [('pmutt/empirical/shomate.py', "                   '                        {: 2.8E}]))').format(", "                   '                        {: 2.8E}])').format(")]},
    {'name': 'A4 (validity): bulk phase entry uses a keyword the directive does not have', 'expect': ('DATAFLOW.phase', 'StoichSolid.to_cti'),
     'edits': [('pmutt/cantera/phase.py', "                   '                     density={},\\n'.format(", "                   '                     rho={},\\n'.format(")]},
    {'name': 'A5: gas phase entry lists the species under elements= and the elements under species=', 'expect': ('DATAFLOW.phase', 'IdealGas.to_cti'),
     'edits': [('pmutt/cantera/phase.py', "        cti_str = ('ideal_gas(name={},\\n'\n                   '          elements={},\\n'\n                   '          species={},\\n'.format(", "        cti_str = ('ideal_gas(name={},\\n'\n                   '          species={},\\n'\n                   '          elements={},\\n'.format(")]},
    {'name': 'A5: interface entry hands the species names to elements= and the elements to species=', 'expect': ('DATAFLOW.phase', 'InteractingInterface.to_cti'),
     'edits': [('pmutt/omkm/phase.py', "                       phase_cantera.obj_to_cti(self.elements,\n                                                line_len=max_line_len - 31,\n                                                max_line_len=max_line_len),\n                       phase_cantera.obj_to_cti(species_names,", "                       phase_cantera.obj_to_cti(species_names,\n                                                line_len=max_line_len - 31,\n                                                max_line_len=max_line_len),\n                       phase_cantera.obj_to_cti(self.elements,")]},
    {'name': 'history: CTI renumbers every reaction, also those with an id', 'expect': ('DATAFLOW.history', 'write_cti'),
     'edits': [(O_, "            if reaction.id is None:\n                reaction.id = 'r_{:04d}'.format(i)", "            if True:\n                reaction.id = 'r_{:04d}'.format(i)", 0, 2)]},
    {'name': 'history: thermo YAML renumbers every reaction, also those with an id', 'expect': ('DATAFLOW.history', 'write_thermo_yaml'),
     'edits': [(O_, "            if reaction.id is None:\n                reaction.id = 'r_{:04d}'.format(i)", "            if True:\n                reaction.id = 'r_{:04d}'.format(i)", 1, 2)]},
    {'name': 'history: thermo YAML names the BEP relations again', 'expect': ('DATAFLOW.history', 'write_thermo_yaml'),
     'edits': [(O_, "                    if bep.name is None:\n                        bep.name = 'b_{:04d}'.format(j)", "                    if True:\n                        bep.name = 'bep_{:04d}'.format(j)", 1, 2)]},
    {'name': 'x1: quantities of the YAML files printed with three decimals', 'expect': ('DIM.site-density', 'InteractingInterface.to_omkm_yaml'),
     'edits': [('pmutt/omkm/__init__.py', "        val_str = '\\\"{} {}\\\"'.format(param.val, param.units)", "        val_str = '\\\"{:.3f} {}\\\"'.format(param.val, param.units)")]},
    {'name': 'x1: entries of a series printed with three decimals', 'expect': ('DIM.strength', 'PiecewiseCovEffect.to_omkm_yaml'),
     'edits': [('pmutt/omkm/__init__.py', "            val_str = '\\\"{} {}\\\"'.format(val, param.units)", "            val_str = '\\\"{:.3f} {}\\\"'.format(val, param.units)")]},
    {'name': 'x2: interface entry writes beps= for an empty list of relations', 'expect': ('DATAFLOW.phase', 'InteractingInterface.to_cti'),
     'edits': [('pmutt/omkm/phase.py', "            # Skip blank lists\n            if len(val) == 0:\n                continue\n", "")]},
    {'name': 'r7: a BEP relation keeps the member lists of the caller instead of copies', 'expect': ('EFFECT.bep-members', 'omkm.BEP.__init__'),
     'edits': [(R_, "        self.synthesis_reactions = list(synthesis_reactions)\n        self.cleavage_reactions = list(cleavage_reactions)", "        self.synthesis_reactions = synthesis_reactions\n        self.cleavage_reactions = cleavage_reactions")]},
]
# rewrites that leave every written file as it is: the instances added after the second review must stay silent
EQUIV = [
    {'name': 'reactor file written line by line with explicit line ends',
     'edits': [(O_, "        with open(filename, 'w', newline=newline) as f_ptr:\n            f_ptr.write(lines_out)\n    else:\n        # Or return as string\n        return lines_out\n\ndef read_yaml", "        with open(filename, 'w', newline=newline) as f_ptr:\n            f_ptr.writelines(line + '\\n' for line in lines[:-1])\n            f_ptr.write(lines[-1])\n    else:\n        # Or return as string\n        return lines_out\n\ndef read_yaml")]},
    {'name': 'number of surface reactants as a sum over the coefficients',
     'edits': [(R_, "        n_surf = 0\n        for species, stoich in zip(self.reactants, self.reactants_stoich):\n            if isinstance(species.phase, InteractingInterface):\n                n_surf += stoich\n        return n_surf", "        return sum(stoich for species, stoich in zip(self.reactants, self.reactants_stoich)\n                   if isinstance(species.phase, InteractingInterface))")]},
    {'name': 'CTI keeps the BEP relations in a dictionary keyed by position, unique by identity',
     'edits': [(O_, "        beps = []\n        reaction_lines = []", "        beps = {}\n        reaction_lines = []"),
               (O_, "                if bep is not None and bep not in beps:", "                if bep is not None and not any(b_ is bep for b_ in beps.values()):", 0, 2),
               (O_, "                    beps.append(bep)", "                    beps[len(beps)] = bep", 0, 2),
               (O_, "            for bep in beps:\n                bep_CTI", "            for bep in beps.values():\n                bep_CTI")]},
    {'name': 'rate parameters in the general presentation with six digits',
     'edits': [(R_, "                       '                 [{: .5e}, {}, {: .5e}]{})'", "                       '                 [{:.6g}, {}, {:.6g}]{})'")]},
    # rewrites that must stay silent under the instances added after the third review
    {'name': 'B3: thermo writers open the file through the path object',
     'edits': [(O_, "        filename = Path(filename)\n        with open(filename, 'w', newline=newline) as f_ptr:", "        filename = Path(filename)\n        with filename.open('w', newline=newline) as f_ptr:", 0, 2),
               (O_, "        filename = Path(filename)\n        with open(filename, 'w', newline=newline) as f_ptr:", "        filename = Path(filename)\n        with filename.open('w', newline=newline) as f_ptr:")]},
    {'name': 'gas phase entry with species= before elements=, arguments moved along',
     'edits': [('pmutt/cantera/phase.py', "        cti_str = ('ideal_gas(name={},\\n'\n                   '          elements={},\\n'\n                   '          species={},\\n'.format(", "        cti_str = ('ideal_gas(name={0},\\n'\n                   '          species={2},\\n'\n                   '          elements={1},\\n'.format(")]},
    {'name': 'write_yaml copies the misc dictionary with dict()',
     'edits': [(O_, "    yaml_dict = misc.copy()", "    yaml_dict = dict(misc)")]},
    {'name': 'user-given pre-exponential factor returned early',
     'edits': [(R_, "        if self.A is None:\n            if self.transition_state is None or not include_entropy:", "        if self.A is not None:\n            return self.A\n        if self.A is None:\n            if self.transition_state is None or not include_entropy:")]},
    {'name': 'quantities of the YAML files printed with repr precision',
     'edits': [('pmutt/omkm/__init__.py', "        val_str = '\\\"{} {}\\\"'.format(param.val, param.units)", "        val_str = '\\\"{!r} {}\\\"'.format(param.val, param.units)")]},
    {'name': 'NASA coefficients as nested tolist of the stacked arrays',
     'edits': [('pmutt/empirical/nasa.py', "                       'data': [self.a_low.tolist(),\n                                self.a_high.tolist()]}", "                       'data': np.array([self.a_low, self.a_high]).tolist()}")]},
    {'name': 'C17_B3: slopes of a lateral interaction behind a property, read privately by the helper',
     'edits': [('pmutt/mixture/cov.py', "        self.name = name\n\n    def insert(self, interval, slope):", "        self.name = name\n\n    @property\n    def slopes(self):\n        return self._slopes\n\n    @slopes.setter\n    def slopes(self, slopes):\n        self._slopes = slopes\n\n    def insert(self, interval, slope):"),
               ('pmutt/mixture/cov.py', "        return [slope * factor for slope in self.slopes]", "        return [slope * factor for slope in self._slopes]")]},
    {'name': 'C02_B3: temperature bounds of a NASA-9 segment behind properties',
     'edits': [('pmutt/empirical/nasa.py', "        self.T_low = T_low\n        self.T_high = T_high\n        self.a = np.array(a)\n", "        self._T_low = T_low\n        self._T_high = T_high\n        self.a = np.array(a)\n\n    def _get_T_low(self):\n        return self._T_low\n\n    def _set_T_low(self, val):\n        self._T_low = val\n\n    def _get_T_high(self):\n        return self._T_high\n\n    def _set_T_high(self, val):\n        self._T_high = val\n\n    T_low = property(_get_T_low, _set_T_low)\n    T_high = property(_get_T_high, _set_T_high)\n")]},
    {'name': 'coefficients of the equation with three decimals',
     'edits': [(R_, "        yaml_dict['equation'] = self.to_string(stoich_space=True,", "        yaml_dict['equation'] = self.to_string(stoich_space=True, stoich_format='.3f',")]},
]
