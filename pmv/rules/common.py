"""helpers shared by the rule modules"""
import ast

from ..nf import Rat, C
from ..source import Unsupported, AnchorError, norm
from ..xlate import (Interp, Obj, ListV, Elem, SumV, Raised, DictV, RankOrder)


def same(a, b):
    """structural equality of abstract values (normal-form equality on leaves)."""
    if isinstance(a, (int,)) and not isinstance(a, bool):
        a = C(a)
    if isinstance(b, (int,)) and not isinstance(b, bool):
        b = C(b)
    if isinstance(a, (Rat, SumV)) and isinstance(b, (Rat, SumV)):
        a, b = sum_form(a), sum_form(b)
    if isinstance(a, Rat) and isinstance(b, Rat):
        return a.eq(b)
    if isinstance(a, SumV) or isinstance(b, SumV):
        sa = a if isinstance(a, SumV) else (SumV(a, C(0)) if isinstance(a, Rat) else None)
        sb = b if isinstance(b, SumV) else (SumV(b, C(0)) if isinstance(b, Rat) else None)
        if sa is None or sb is None:
            return False
        return sa.scalar.eq(sb.scalar) and sa.elem.eq(sb.elem)
    if isinstance(a, ListV) and isinstance(b, ListV):
        return len(a) == len(b) and all(same(x, y) for x, y in zip(a.items, b.items))
    if isinstance(a, Elem) and isinstance(b, Elem):
        return same(a.r, b.r)
    if isinstance(a, Raised) and isinstance(b, Raised):
        return a.exc == b.exc
    if type(a) is not type(b):
        return False
    return a == b


def sum_form(v):
    """ln(PROD_i g_i) over a vector is written as SUM_i ln(g_i) (equal over the reals) so that the two spellings
    of a logarithm of a product compare equal"""
    from ..nf import LNPROD
    scalar, elem = (v.scalar, v.elem) if isinstance(v, SumV) else (v, C(0))
    changed = False
    for at in sorted(scalar.atoms()):
        if at in LNPROD:
            sp = scalar.split_linear(at)
            if sp is None or not (sp[0].is_const() or sp[0].iszero()):
                continue
            scalar = sp[1]
            elem = elem + sp[0] * LNPROD[at]
            changed = True
    if not changed:
        return v
    return SumV(scalar, elem)


def show(v, limit=160):
    if isinstance(v, DictV):
        s = '{%s}' % ', '.join('%r: %s' % (v.okey(k), show(x, limit)) for k, x in v.d.items())
    else:
        s = repr(v)
    return s if len(s) <= limit else s[:limit] + '...'


def sub(I, a, b):
    return I.binop('-', a, b)


def is_zero(v):
    if isinstance(v, Rat):
        return v.iszero()
    if isinstance(v, SumV):
        return v.scalar.iszero() and v.elem.iszero()
    if isinstance(v, ListV):
        return all(is_zero(x) for x in v.items)
    if isinstance(v, Elem):
        return is_zero(v.r)
    return False


def deriv(I, v, var):
    if isinstance(v, Rat):
        return I.D.d(v, var)
    if isinstance(v, SumV):
        return SumV(I.D.d(v.scalar, var), I.D.d(v.elem, var))
    if isinstance(v, Elem):
        return Elem(deriv(I, v.r, var))
    if isinstance(v, ListV):
        return ListV([deriv(I, x, var) for x in v.items])
    raise Unsupported('derivative of %r' % (v,))


def atoms_of(v):
    if isinstance(v, Rat):
        return v.atoms()
    if isinstance(v, SumV):
        return v.scalar.atoms() | v.elem.atoms()
    if isinstance(v, Elem):
        return atoms_of(v.r)
    if isinstance(v, ListV):
        out = set()
        for x in v.items:
            out |= atoms_of(x)
        return out
    return set()


def slots_in(v, prefix):
    """names of coefficient atoms (prefix + index) occurring in a residual"""
    return sorted(a for a in atoms_of(v) if a.startswith(prefix))


def coeff_vector(I, name, n):
    return ListV([I.D.sym('%s[%d]' % (name, i)) for i in range(n)])


MIX_QUANTITIES = ('get_q', 'get_CvoR', 'get_CpoR', 'get_UoRT', 'get_HoRT', 'get_SoR', 'get_FoRT', 'get_GoRT')


def attached_models(I, k=1, params=('T', 'P'), prefix='m'):
    """k uninterpreted models for a species' misc_models: every getter returns an atom naming the model, the
    quantity and each argument it was handed (a dropped or altered argument changes the atom).  The package's own
    aggregation over misc_models is interpreted as it stands - whichever private helper performs it."""
    def twin(h, s_):
        def f(I_, obj, args, kwargs):
            return obj.opaque_methods[h](I_, obj, [], kwargs) - obj.opaque_methods[s_](I_, obj, [], kwargs)
        return f
    out = []
    for j in range(k):
        out.append(opaque_obj(I, '%s%d' % (prefix, j), {m: tuple(params) for m in MIX_QUANTITIES},
                              rewrite={'get_GoRT': twin('get_HoRT', 'get_SoR'), 'get_FoRT': twin('get_UoRT', 'get_SoR')}))
        if j == 0:
            out[-1].missing.add('name_j')              # like GasPressureAdj: refers to no other species
        else:
            out[-1].attrs['name_j'] = 'other%d' % j    # like a coverage effect: the species it refers to
    return ListV(out)


def attached_sum(I, models, q, **kw):
    """sum over the attached models of get_<q> with exactly these arguments"""
    tot = C(0)
    for m_ in (models.items if isinstance(models, ListV) else models):
        tot = tot + m_.opaque_methods['get_' + q](I, m_, [], dict(kw))
    return tot


def sel_opaque(obj):
    def h(I, o, args, kwargs):
        return I.D.sym('%s.Selements' % o.name)
    obj.opaque_methods['get_Selements'] = h


def find_fn(repo, qual):
    return repo.func(qual)


def calls_named(fn, name):
    out = []
    for n in ast.walk(fn):
        if isinstance(n, ast.Call):
            f = n.func
            nm = f.attr if isinstance(f, ast.Attribute) else (f.id if isinstance(f, ast.Name) else None)
            if nm == name:
                out.append(n)
    return out


def kw(call, name, pos=None):
    for k in call.keywords:
        if k.arg == name:
            return k.value
    if pos is not None and len(call.args) > pos:
        return call.args[pos]
    return None


def has_starstar(call, name=None):
    for k in call.keywords:
        if k.arg is None:
            if name is None or (isinstance(k.value, ast.Name) and k.value.id == name):
                return True
    return False


def proportional(a, b):
    """non-zero rational k with a == k*b (both polynomial Rats), else None"""
    if a.has_den() or b.has_den() or b.iszero():
        return None
    key = min(b.n.t)
    if key not in a.n.t:
        return None
    k = a.n.t[key] / b.n.t[key]
    if k != 0 and (a - b * k).iszero():
        return k
    return None


def sig(v):
    if isinstance(v, Rat):
        return repr(v)
    if isinstance(v, Obj):
        return v.name
    if isinstance(v, ListV):
        return '[' + ','.join(sig(x) for x in v.items) + ']'
    if isinstance(v, DictV):
        return '{' + ','.join('%s:%s' % (k, sig(x)) for k, x in sorted(v.d.items())) + '}'
    return repr(v)


def opaque_obj(I, name, methods, ci=None, rewrite=None):
    """object whose methods are uninterpreted: each returns an atom named by
    the method and its (sorted) keyword arguments."""
    o = Obj(name, ci)

    def mk(mname):
        def h(I_, obj, args, kwargs):
            if rewrite and mname in rewrite:
                return rewrite[mname](I_, obj, args, kwargs)
            # positional arguments are the documented parameters in order: the same call whichever way it is spelled
            ps_ = list(obj.opaque_params.get(mname, ()))
            if args and len(args) <= len(ps_) and not any(p_ in kwargs for p_ in ps_[:len(args)]):
                kwargs = dict(kwargs, **dict(zip(ps_, args)))
                args = []
            s = ','.join('%s=%s' % (k, sig(kwargs[k])) for k in sorted(kwargs))
            if args:
                s = ','.join(sig(a) for a in args) + ';' + s
            return I_.D.sym('%s.%s(%s)' % (obj.name, mname, s))
        return h
    for mname, ps in methods.items():
        o.opaque_methods[mname] = mk(mname)
        o.opaque_params[mname] = tuple(ps)
    return o


def pub(obj, name, default=None):
    """obj.name as a user reads it: through the class's property when the class has one (whatever private field backs
    it), the stored attribute otherwise; ``default`` when the object has no such attribute"""
    from ..xlate import Frame, Obj, _RaisedExc
    if not isinstance(obj, Obj):
        return default
    I = getattr(obj, 'interp', None)
    if I is not None and obj.ci is not None and I.repo.find_method(obj.ci, name, missing_ok=True) is not None:
        try:
            return Frame(I, obj.ci.module, {}, None, None).obj_attr(obj, name)
        except _RaisedExc:
            return default
    return obj.attrs.get(name, default)
