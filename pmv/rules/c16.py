"""C16 - equilibrium compositions (the clauses visible in the shape of the code)."""
import ast
import itertools
from fractions import Fraction as Fr

from ..nf import Rat, C
from ..source import Unsupported, AnchorError
from ..xlate import Interp, Obj, ListV, DictV, Raised, FuncRef, Frame, _RaisedExc
from .common import same, show, opaque_obj

EQ = 'pmutt.equilibrium.Equilibrium'        # the public path; the defining module is found through the re-export


MODEL_FORMS = ('model in the order of the network', 'model in another order with a species more, as a dict',
               'model in another order with a species more, as a list')

# the exit modes of SLSQP as scipy documents them (scipy/optimize/_slsqp_py.py); 0 is the only successful one
SLSQP_MESSAGES = {
    0: 'Optimization terminated successfully',
    1: 'Function evaluation required (f & c)',
    2: 'More equality constraints than independent variables',
    3: 'More than 3*n iterations in LSQ subproblem',
    4: 'Inequality constraints incompatible',
    5: 'Singular matrix E in LSQ subproblem',
    6: 'Singular matrix C in LSQ subproblem',
    7: 'Rank-deficient equality constraint subproblem HFTI',
    8: 'Positive directional derivative for linesearch',
    9: 'Iteration limit reached',
}
OK_ = (True, 0, 7)
# (status, number of iterations; None: as many as the iteration limit handed to the solver). The first one is the
# failure the rule has always used.
FAILURE_MODES = [(9, 7)] + [(st, nit) for st in (1, 2, 3, 4, 5, 6, 7, 8, 9) for nit in (7, None) if (st, nit) != (9, 7)]


class _Members(dict):
    """the methods of a stub object that stands for a library object: asking for a member the stub does not model is
    outside the interpreted fragment, not an AttributeError (the real object has, or may have, the member)"""

    def __init__(self, what):
        dict.__init__(self)
        self.what = what

    def __contains__(self, k):
        if dict.__contains__(self, k):
            return True
        raise Unsupported('member %r of %s is not modelled' % (k, self.what))


class OptimizeResultV(DictV, Obj):
    """scipy.optimize.OptimizeResult: a dict whose items are also its attributes (sol.x is sol['x']); one store for
    both views. Anything else asked of it is refused, never answered with a guessed exception."""

    def __init__(self, name, items):
        DictV.__init__(self, items)
        Obj.__init__(self, name, closed=True)
        self.attrs = self.d
        self.opaque_methods = _Members('scipy.optimize.OptimizeResult')
        for nm in ('get', 'keys', 'values', 'items'):
            dict.__setitem__(self.opaque_methods, nm, _dict_reader(nm))


def _dict_reader(name):
    """the reading methods of the dict an OptimizeResult is"""
    def h(I_, obj, args, kwargs):
        if kwargs or len(args) > (2 if name == 'get' else 0) or (name == 'get' and not args):
            raise Unsupported('OptimizeResult.%s called with these arguments' % name)
        if name == 'get':
            return obj.d.get(obj.nkey(args[0]), args[1] if len(args) > 1 else None)
        if name == 'keys':
            return ListV([obj.okey(k) for k in obj.d])
        if name == 'values':
            return ListV(list(obj.d.values()))
        return ListV([ListV([obj.okey(k), v]) for k, v in obj.d.items()])
    return h


def solver(cap, state, ns):
    """scipy.optimize.minimize as an uninterpreted solver: records what it is given (cap) and returns a fresh result
    with the outcome the rule set in state['outcome'] = (success, status, iterations)"""
    def mini(I_, fr, args, kwargs, nd):
        rec = {'fun': args[0] if args else kwargs.get('fun'),
               'x0': args[1] if len(args) > 1 else kwargs.get('x0')}
        if len(args) > 2:
            rec['args'] = args[2]
        rec.update(kwargs)
        opts = rec.get('options')
        maxiter = opts.d.get('maxiter') if isinstance(opts, DictV) else None
        if not (isinstance(maxiter, Rat) and maxiter.is_const()):
            maxiter = C(100)                        # the default of SLSQP
        success, status, nit = state['outcome']
        k = state['n']
        state['n'] += 1
        sfx = '' if k == 0 else '_call%d' % (k + 1)

        def vec(stem):
            v = ListV([I_.D.sym('%s%d%s' % (stem, i, sfx)) for i in range(ns)])
            v.is_array = True
            v.dtype = 'float'                       # the solver works on float64 vectors
            return v
        # the members an SLSQP result has
        sol = OptimizeResultV('sol', {'x': vec('xsol'), 'success': success, 'status': C(status),
                                      'message': SLSQP_MESSAGES[status], 'fun': I_.D.sym('fsol' + sfx),
                                      'jac': vec('gsol'), 'nit': maxiter if nit is None else C(nit),
                                      'nfev': I_.D.sym('nfev' + sfx), 'njev': I_.D.sym('njev' + sfx)})
        rec['sol'] = sol
        cap.clear()
        cap.update(rec)
        return sol
    return mini


def bounds_object(I_, fr, args, kwargs, nd):
    """scipy.optimize.Bounds(lb, ub, keep_feasible=False): the other spelling of the bounds minimize accepts"""
    names = ('lb', 'ub', 'keep_feasible')
    if len(args) > 3 or any(k not in names for k in kwargs) or any(nm in kwargs for nm in names[:len(args)]):
        raise Unsupported('scipy.optimize.Bounds called with these arguments')
    vals = dict(zip(names, args))
    vals.update(kwargs)
    if 'lb' not in vals or 'ub' not in vals:
        raise Unsupported('scipy.optimize.Bounds with an infinite default bound')
    b = Obj('Bounds', closed=True)
    b.attrs.update({'lb': vals['lb'], 'ub': vals['ub'], 'keep_feasible': vals.get('keep_feasible', False)})
    b.opaque_methods = _Members('scipy.optimize.Bounds')
    b.isa = {'Bounds'}
    return b


def lower_bounds(bnds, ns):
    """the lower bound of each of the ns amounts from either spelling (a sequence of (min, max) pairs, a Bounds object
    with scalar or per-amount lb); None if it is neither"""
    if isinstance(bnds, Obj) and 'Bounds' in bnds.isa:
        lb = bnds.attrs['lb']
        if isinstance(lb, Rat):
            return [lb] * ns
        return list(lb.items) if isinstance(lb, ListV) and len(lb) == ns else None
    if isinstance(bnds, ListV) and len(bnds) == ns and all(isinstance(b_, ListV) and len(b_) == 2 for b_ in bnds.items):
        return [b_.items[0] for b_ in bnds.items]
    return None


def build(I, repo, net, form, feed='feed_', sp=None, model=None):
    """the problem built through the public constructor: concrete compositions, symbolic feed amounts; the model may
    hold the species in another order than the network and species the network does not name. A second problem over
    the same species (sp, model given) has feed amounts of its own."""
    D = I.D
    ci = repo.cls(EQ)
    names = [nm for nm, _ in net]
    comps = dict(net)
    if sp is None:
        sp = {}
        for nm, comp in list(net) + [('Xe2', {'Xe': 2})]:
            o = opaque_obj(I, nm, {'get_GoRT': ('T',)})
            o.attrs['elements'] = DictV({e: C(k) for e, k in comp.items()})
            o.attrs['name'] = nm
            sp[nm] = o
    if model is None:
        if form == MODEL_FORMS[0]:
            order = names
        else:
            order = [names[-1], 'Xe2'] + names[:-1]
        model = DictV()
        for nm in order:
            model.d[nm] = sp[nm]
        if form == MODEL_FORMS[2]:
            model = ListV(list(model.d.values()))
    network = DictV()
    for nm in names:
        network.d[nm] = D.sym(feed + nm)
    eq = Obj('eq' if feed == 'feed_' else 'eq_' + feed, ci, closed=True)
    r = I.call_method(eq, '__init__', [], {'model': model, 'network': network})
    return eq, r, names, sp, comps, model


def is_callable(v):
    return isinstance(v, FuncRef) or hasattr(v, 'pmv_call')


def call(fr_, f, args):
    try:
        return fr_.apply(f, list(args), {}, None)
    except _RaisedExc as e:
        return e.raised


def where(f, owner, fn):
    """(module, node, name) of a callable handed to the solver, for the report; the method under analysis when it is
    a lambda or a library-made callable"""
    if isinstance(f, FuncRef) and isinstance(f.fn, ast.FunctionDef):
        return f.module, f.fn, f.fn.name
    return owner.module, fn, fn.name


def verify(run, I, eq, cap, res, ctx, feed, T, P, label, tag, full=True):
    """one call of get_net_comp: what was handed to the solver is the problem of THIS object at THESE conditions, and
    what is returned is what THIS run of the solver gave. Returns the constant ln(p/P) of the objective (None if the
    objective is not of the expected form). full=False: only what can differ between two calls of unchanged callbacks -
    the result, the value of the objective (Gibbs energies, pressure) and the value of the constraint (feed)."""
    D = I.D
    names, sp, comps, owner, fn = ctx
    ns = len(names)
    key = label + tag
    if isinstance(res, Raised) or not isinstance(res, Obj):
        run.fail('REF.result', 'Equilibrium.get_net_comp', 'result' + tag, '[%s] unexpected result %s'
                 % (key, show(res)), owner.module, fn)
        return None
    sol = cap.get('sol')
    if sol is None:
        run.fail('EFFECT.shared-state' if tag else 'DATAFLOW.solver-args', 'Equilibrium.get_net_comp', key,
                 '[%s] a composition is returned although the solver was not asked: %s' % (
                     key, 'what is handed out was remembered from an earlier call or from another object, it is not '
                     'the solution of this problem' if tag else 'nothing is minimised'), owner.module, fn)
        return None
    x = sol.d['x']
    tot = x.items[0]
    for xi in x.items[1:]:
        tot = tot + xi
    mf = res.attrs.get('mole_frac')
    ok = isinstance(mf, ListV) and len(mf) == ns and all(same(a, b / tot) for a, b in zip(mf.items, x.items))
    run.check(ok, 'REF.mole-fractions', 'Equilibrium.get_net_comp', key,
              'mole fractions are %s, expected x/sum(x) of the solver amounts' % show(mf, 160), owner.module, fn)
    mo = res.attrs.get('moles')
    okm = isinstance(mo, ListV) and len(mo) == ns and all(same(a, b) for a, b in zip(mo.items, x.items))
    run.check(okm and same(res.attrs.get('species'), ListV(list(names))),
              'REF.result', 'Equilibrium.get_net_comp', key + ' amounts',
              'returned amounts/species are not the solver\'s x (of this call) in the species order: %s'
              % show(mo, 120), owner.module, fn)
    # objective and its Jacobian
    xs = ListV([D.sym('x%d' % i) for i in range(ns)])
    xs.is_array = True
    xs.dtype = 'float'              # the solver hands float64 vectors to the callbacks
    fun, jac, args = cap.get('fun'), cap.get('jac'), cap.get('args')
    # scipy: args defaults to (), anything that is not a tuple is one extra argument
    extra = [] if args is None else list(args.items) if isinstance(args, ListV) else [args]
    if not (is_callable(fun) and (jac is True or is_callable(jac))):
        run.fail('DATAFLOW.solver-args', 'Equilibrium.get_net_comp', key, 'the objective and its analytic Jacobian '
                 'are not handed to the solver (fun and jac callables, or jac=True and fun returning both)',
                 owner.module, fn)
        return None
    fr_ = Frame(I, owner.module, {}, owner, eq)
    out = call(fr_, fun, [xs] + extra)
    if jac is True:
        # scipy splits the pair (value, gradient)
        val, grad = (out.items if isinstance(out, ListV) and len(out) == 2 and not getattr(out, 'is_array', False)
                     else (out, None))
        jfun = fun
    else:
        val, grad, jfun = out, (call(fr_, jac, [xs] + extra) if full else None), jac
    g = [sp[nm].opaque_methods['get_GoRT'](I, sp[nm], [], {'T': T}) for nm in names]
    nT = xs.items[0]
    for xi in xs.items[1:]:
        nT = nT + xi
    # sum x_i (g_i + ln(x_i p / n)) with p = k P: the value minus the sum written with P itself is n ln k
    want = C(0)
    for xi, gi in zip(xs.items, g):
        want = want + xi * (gi + D.ln(xi * P / nT))
    lnk, form_ok, p_ok = None, False, False
    if isinstance(val, Rat):
        lnk = D.d(val - want, 'x0')
        form_ok = (val - want).eq(nT * lnk)
        rest = {a for a in lnk.atoms() if D.kind.get(a) != 'const'}
        pa = P.atoms() | D.ln(P).atoms()
        form_ok = form_ok and rest <= pa and not lnk.has_den()
        p_ok = form_ok and not rest
    m1, n1, nm1 = where(fun, owner, fn)
    run.check(form_ok, 'REF.objective', 'Equilibrium.' + nm1, key,
              'objective is %s, expected sum x_i (g_i + ln(x_i p / n)) with g_i = G_i/RT of species i at T'
              % show(val, 200), m1, n1, sample='[%s] objective == sum x_i(g_i + ln(x_i p/n))' % key)
    m2, n2, nm2 = where(jfun, owner, fn)
    if form_ok:
        # the gradient of that sum, in closed form: d/dx_i = g_i + ln(x_i p / n)  (the terms x_j d ln(x_j/n)/dx_i cancel)
        dval = [gi + D.ln(xi * P / nT) + lnk for xi, gi in zip(xs.items, g)]
    else:
        dval = [D.d(val, 'x%d' % i) for i in range(ns)] if isinstance(val, Rat) else None
    okj = dval is not None and isinstance(grad, ListV) and len(grad) == ns and \
        all(isinstance(gr, Rat) and gr.eq(dv) for gr, dv in zip(grad.items, dval))
    if full or jac is True:
        run.check(okj, 'DERIV.objective-jac', 'Equilibrium.' + nm2, key,
                  'the Jacobian handed to the solver is not the gradient of the objective: %s' % show(grad, 200),
                  m2, n2, sample='[%s] jac_i == d objective / d x_i' % key)
    # pressure in the objective: P (atm) times a constant
    if form_ok:
        run.check(p_ok, 'DATAFLOW.solver-args', 'Equilibrium.get_net_comp', key + ' pressure',
                  'the pressure in the objective handed to the solver is not proportional to P: ln(p/P) = %s'
                  % show(lnk, 120), owner.module, fn)
    # constraints
    con = cap.get('constraints')
    cons = con.items if isinstance(con, ListV) else [con]
    okc = False
    for cd in cons:
        if isinstance(cd, DictV) and cd.d.get('type') == 'eq' and is_callable(cd.d.get('fun')):
            cv = call(fr_, cd.d['fun'], [xs])
            els = []
            for nm in names:
                els.extend(e for e in comps[nm] if e not in els)
            ne = len(els)
            # one balance per element of the network, in whatever order the elements are kept
            wantc = [sum((xs.items[i] * comps[nm].get(e, 0) - D.sym(feed + nm) * comps[nm].get(e, 0)
                          for i, nm in enumerate(names)), C(0)) for e in els]
            okc = isinstance(cv, ListV) and len(cv) == ne and all(isinstance(a, Rat) for a in cv.items)
            left = list(wantc)
            for a in (cv.items if okc else ()):
                hit = [w for w in left if a.eq(w)]
                if hit:
                    left.remove(hit[0])
            okc = okc and not left
            m3, n3, nm3 = where(cd.d['fun'], owner, fn)
            run.check(okc, 'REF.constraint', 'Equilibrium.' + nm3, key,
                      'the equality constraint is %s, expected for every element of the network (atoms in x) - (atoms in '
                      'the feed of this object)' % show(cv, 160), m3, n3)
            if not full:
                continue
            cj = cd.d.get('jac')
            jv = call(fr_, cj, [xs]) if is_callable(cj) else None
            okjj = isinstance(cv, ListV) and isinstance(jv, ListV) and len(jv) == len(cv) and all(
                isinstance(jv.items[j], ListV) and len(jv.items[j]) == ns and
                all(same(jv.items[j].items[i], D.d(cv.items[j], 'x%d' % i)) for i in range(ns))
                for j in range(len(cv)))
            m4, n4, nm4 = where(cj, owner, fn)
            run.check(okjj, 'DERIV.constraint-jac', 'Equilibrium.' + nm4, key,
                      'the constraint Jacobian is not the derivative of the constraint (M transposed): %s'
                      % show(jv, 160), m4, n4)
    run.check(okc, 'DATAFLOW.solver-args', 'Equilibrium.get_net_comp', key + ' constraint',
              'no element-conservation equality constraint is handed to the solver', owner.module, fn)
    if not full:
        return lnk if p_ok else None
    # bounds
    bnds = cap.get('bounds')
    lbs = lower_bounds(bnds, ns)
    okb = lbs is not None and all(isinstance(b_, Rat) and b_.is_const() and b_.const_value() > 0 for b_ in lbs)
    run.check(okb, 'REF.bounds', 'Equilibrium.get_net_comp', key + ' bounds',
              'amounts are not bounded below by a positive constant for every species: %s' % show(bnds, 120),
              owner.module, fn)
    # x0 has one entry per species
    x0 = cap.get('x0')
    run.check(isinstance(x0, ListV) and len(x0) == ns, 'DATAFLOW.solver-args', 'Equilibrium.get_net_comp',
              key + ' x0', 'initial guess does not have one entry per species', owner.module, fn)
    return lnk if p_ok else None


def success_instance(run, repo, net, form, label, owner, fn, mode, full, extras):
    """one object asked four times (success, success at other conditions, failure, success again) and a second object
    over the same species with a feed of its own asked at the conditions of the first call, in one interpreter: state
    that outlives a call or an object (flags, caches, class attributes, module globals) is seen"""
    I = Interp(repo)
    D = I.D
    eq, r0, names, sp, comps, model = build(I, repo, net, form)
    if isinstance(r0, Raised):
        run.fail('REF.constructor', 'Equilibrium.__init__', label, '[%s] building the problem raises %s'
                 % (label, r0.exc), owner.module, fn)
        return
    ctx = (names, sp, comps, owner, fn)
    cap, state = {}, {'outcome': OK_, 'n': 0}
    I.native['scipy.optimize.minimize'] = solver(cap, state, len(net))
    I.native['scipy.optimize.Bounds'] = bounds_object

    def ask(obj, k):
        T, P = D.sym('T%s' % k), D.sym('P%s' % k)
        cap.clear()
        nw = len(I.warnings)
        res = I.call_method(obj, 'get_net_comp', [], {'T': T, 'P': P})
        return T, P, res, isinstance(res, Raised) or len(I.warnings) > nw
    T, P, res, sig = ask(eq, '')
    k1 = verify(run, I, eq, cap, res, ctx, 'feed_', T, P, label, '')
    if not isinstance(res, Raised):
        run.check(not sig, 'PATH.solver-status', 'Equilibrium.get_net_comp', 'success=True',
                  'a warning is raised although the solver succeeded', owner.module, fn)
    # the same object asked again at other conditions: the problem handed over is that of the new conditions
    T2, P2, res2, sig2 = ask(eq, '2')
    k2 = verify(run, I, eq, cap, res2, ctx, 'feed_', T2, P2, label, ', second call at other conditions', full)
    if k1 is not None and k2 is not None:
        run.check(same(k1, k2), 'DATAFLOW.solver-args', 'Equilibrium.get_net_comp',
                  label + ', second call at other conditions pressure',
                  'asked again at (T2, P2) the pressure in the objective is another multiple of P than in the first '
                  'call', owner.module, fn)
    if isinstance(res, Raised) or isinstance(res2, Raised) or not extras:
        return
    # ... then the solver fails once: signalled although earlier calls succeeded; and the next success is silent
    st, nit = mode
    state['outcome'] = (False, st, nit)
    T3, P3, res3, sig3 = ask(eq, '3')
    run.check(sig3, 'PATH.solver-status', 'Equilibrium.get_net_comp', 'success=False after successful calls',
              'the solver reports failure (status %d, %s) on the third call of an object whose earlier calls '
              'succeeded, and the composition is returned without a warning or an exception'
              % (st, SLSQP_MESSAGES[st]), owner.module, fn)
    state['outcome'] = OK_
    T4, P4, res4, sig4 = ask(eq, '4')
    run.check(not sig4, 'PATH.solver-status', 'Equilibrium.get_net_comp', 'success=True after a failed call',
              'a warning or an exception although the solver succeeded (the call before it had failed)',
              owner.module, fn)
    if not sig4:
        verify(run, I, eq, cap, res4, ctx, 'feed_', T4, P4, label, ', call after a failed call', full)
    # a second object over the same species, another feed, the conditions of the first call of the first object
    eq2, r2, _, _, _, _ = build(I, repo, net, form, feed='feed2_', sp=sp, model=model)
    if isinstance(r2, Raised):
        run.fail('REF.constructor', 'Equilibrium.__init__', label + ', second object',
                 '[%s] building a second problem over the same species raises %s' % (label, r2.exc), owner.module, fn)
        return
    cap.clear()
    nw = len(I.warnings)
    res5 = I.call_method(eq2, 'get_net_comp', [], {'T': T, 'P': P})
    verify(run, I, eq2, cap, res5, ctx, 'feed2_', T, P, label, ', second object at the same conditions', full)
    if not isinstance(res5, Raised):
        run.check(len(I.warnings) == nw, 'PATH.solver-status', 'Equilibrium.get_net_comp',
                  'success=True, second object', 'a warning is raised although the solver succeeded (second object)',
                  owner.module, fn)


def failure_instance(run, repo, net, form, label, owner, fn, mode, seen, more=True):
    """the solver fails (one documented exit mode of SLSQP) on every call: three calls on one object at different
    conditions and one on a second object - each must be signalled"""
    st, nit = mode
    I = Interp(repo)
    D = I.D
    eq, r0, names, sp, comps, model = build(I, repo, net, form)
    if isinstance(r0, Raised):
        return                      # reported by the other instance
    cap, state = {}, {'outcome': (False, st, nit), 'n': 0}
    I.native['scipy.optimize.minimize'] = solver(cap, state, len(net))
    I.native['scipy.optimize.Bounds'] = bounds_object
    mode_key = 'success=False, status=%d (%s)' % (st, SLSQP_MESSAGES[st])
    what = '%s, %s' % (mode_key, 'few iterations' if nit is not None else 'as many iterations as the limit handed over')

    def ask(obj, k):
        cap.clear()
        nw = len(I.warnings)
        res = I.call_method(obj, 'get_net_comp', [], {'T': D.sym('T%s' % k), 'P': D.sym('P%s' % k)})
        return isinstance(res, Raised) or len(I.warnings) > nw
    first = ask(eq, '')
    if not first:
        # one finding for "the outcome is not consulted"; a finding of its own for an exit mode that alone is missed
        generic = mode == FAILURE_MODES[0] or seen.get('generic')
        seen['generic'] = seen.get('generic') or mode == FAILURE_MODES[0]
        run.fail('PATH.solver-status', 'Equilibrium.get_net_comp', 'success=False' if generic else mode_key,
                 'the solver reports failure (%s) but the composition is returned without a warning or an exception: '
                 'the outcome of the optimisation is not consulted%s' % (what, '' if generic else ' for this exit mode'),
                 owner.module, fn)
        return
    run.ok('PATH.solver-status', 'Equilibrium.get_net_comp',
           '[%s] minimize(...) -> %s -> warning or exception' % (label, what))
    if not more:
        return
    for k, nth in (('2', 'second'), ('3', 'third')):
        run.check(ask(eq, k), 'PATH.solver-status', 'Equilibrium.get_net_comp',
                  'success=False, %s call on the same object' % nth,
                  'the solver fails again (%s) on the %s call of the same object (other conditions) and this time the '
                  'composition is returned without a warning or an exception' % (what, nth), owner.module, fn,
                  sample='[%s] %s failing call on one object -> warning or exception' % (label, nth))
    eq2, r2, _, _, _, _ = build(I, repo, net, form, feed='feed2_', sp=sp, model=model)
    if isinstance(r2, Raised):
        return
    run.check(ask(eq2, ''), 'PATH.solver-status', 'Equilibrium.get_net_comp', 'success=False, second object',
              'the solver fails (%s) for a second object at conditions at which it had failed for another object, and '
              'the composition is returned without a warning or an exception' % what, owner.module, fn,
              sample='[%s] failing call on a second object -> warning or exception' % label)


def check(run, repo):
    run.explanation = (
        'Narrow claim: the parts of C16 whose truth is in the shape of the code. Equilibrium.get_net_comp is '
        'interpreted with scipy.optimize.minimize as an uninterpreted solver that records what it is given and returns '
        'a result object (a mapping whose items are also attributes, with the members of an SLSQP result): (a) when '
        'the solver fails a warning or an exception must be produced before the result is returned - for every exit '
        'mode SLSQP documents (status 1-9, few iterations and as many as the limit handed over, scipy\'s message), on '
        'the first, second and third failing call of one object, on a second object, and on a failing call after '
        'successful ones; a successful call is silent, also after a failed one; (b) the objective handed over is '
        'sum x_i (g_i + ln(x_i p/n)) with g_i the species\' own G/RT at T in the order of the amounts and p a constant '
        'multiple of P (the same in every call), and the Jacobian handed over (a callable, or the second member of the '
        'pair the objective returns with jac=True) is its exact gradient (symbolic differentiation, 2-5 species); (c) '
        'the equality constraint is x.M - feed.M-totals over the element matrix, its Jacobian is M transposed (the '
        'derivative of the constraint); (d) the lower bound of every amount is a positive constant; (e) the returned '
        'amounts are the solver\'s amounts of this call (by value) and the mole fractions are x / sum(x) of them. (b)-(e) '
        'are decided for the first call, for a second call of the same object at other conditions, for a call after a '
        'failed call, and for a second object over the same species with a feed of its own at the conditions of the '
        'first (state shared between calls or objects: caches, flags, class attributes). The problems are built '
        'through the public constructor for five networks over 1-4 elements with concrete compositions and symbolic '
        'feeds, with the model in the order of the network and in another order with a species the network does not '
        'name (dict and list). (f) Equilibrium.__init__ itself: element list, element matrix (atoms of element j in '
        'species i), feed element totals and molar masses, in both species orders and with the permuted models. A '
        'warning counts as a signal only if no filter installed by the package (module level, or an enclosing '
        'catch_warnings block) discards it.')
    run.assumptions = ['scipy.optimize.minimize is an uninterpreted solver; SLSQP behaviour is not modelled',
                       'method, tolerance (ftol) and iteration limit asked of the solver are recorded, not judged']
    run.undecided = ['atom conservation, optimality and order independence of the returned composition as numeric '
                     'facts (SLSQP)', 'reaction equilibrium within solver tolerance',
                     'whether the tolerance / iteration limit asked of SLSQP suffice: the property names no tolerance '
                     '("within solver tolerance") and the package documents none, so no bound separates an adequate '
                     'request from a loose one without running the solver',
                     'SLSQP reporting success away from the optimum (linearly dependent element columns)']
    ci = repo.cls(EQ)
    for m_ in ('get_net_comp', '__init__'):
        run.fn(EQ + '.' + m_)
    owner, fn = repo.find_method(ci, 'get_net_comp')
    thorough = run.tier == 'thorough'
    combos = list(itertools.product(NETWORKS, MODEL_FORMS))
    seen = {}
    nfail = 0
    for ic, ((nlabel, net), form) in enumerate(combos):
        label = '%s, %s' % (nlabel, form)
        # quick: every exit mode on one of the problems (each problem has at least one); thorough: all on all
        # (the later calls and the second object: with every third mode)
        mine = [(k, m) for k, m in enumerate(FAILURE_MODES) if thorough or k % len(combos) == ic]
        for k, mode in mine:
            failure_instance(run, repo, net, form, label, owner, fn, mode, seen, more=thorough or k % 3 == 0)
            nfail += 1
        # quick: the calls after the second and the second object for one form of the model per network (every form
        # on some network), callbacks applied in full on the first call only
        extras = thorough or (ic // len(MODEL_FORMS)) % len(MODEL_FORMS) == ic % len(MODEL_FORMS)
        success_instance(run, repo, net, form, label, owner, fn, FAILURE_MODES[(ic + 5) % len(FAILURE_MODES)],
                         thorough, extras)
    run.floor('solver failure instances', nfail, len(FAILURE_MODES))
    constructor(run, repo)


NETWORKS = [
    ('1 element', [('O2', {'O': 2}), ('O3', {'O': 3}), ('O', {'O': 1})]),
    ('2 elements', [('N2', {'N': 2}), ('H2', {'H': 2}), ('NH3', {'N': 1, 'H': 3})]),
    ('3 elements', [('CO', {'C': 1, 'O': 1}), ('CO2', {'C': 1, 'O': 2}), ('H2', {'H': 2}), ('H2O', {'H': 2, 'O': 1}),
                    ('CH4', {'C': 1, 'H': 4})]),
    ('4 elements', [('HCN', {'H': 1, 'C': 1, 'N': 1}), ('N2', {'N': 2}), ('H2O', {'H': 2, 'O': 1}),
                    ('CO', {'C': 1, 'O': 1}), ('NH3', {'N': 1, 'H': 3})]),
    ('2 elements, 2 species', [('H2', {'H': 2}), ('HF', {'H': 1, 'F': 1})]),
]


def constructor(run, repo):
    """Equilibrium.__init__ interpreted for concrete compositions and symbolic feeds: element list, element matrix,
    feed totals and molar masses for networks over 1-4 elements, in both species orders"""
    from ..fold import fold_value, fold_num
    ci = repo.cls(EQ)
    owner, fn = repo.find_method(ci, '__init__')
    cm = repo.module('pmutt.constants')
    node = cm.assigns.get('atomic_weight', [None])[-1]
    if not isinstance(node, ast.Dict):
        raise AnchorError('pmutt.constants.atomic_weight not found')
    aw = {fold_value(cm, k): fold_num(cm, v).v for k, v in zip(node.keys, node.values)}
    n = 0
    for label0, net in NETWORKS:
        for rev, as_list, perm in ((False, False, False), (True, False, False), (False, True, False),
                                   (False, False, True), (True, True, True)):
            label = label0
            order = list(reversed(net)) if rev else list(net)
            I = Interp(repo)
            D = I.D
            model = DictV()
            network = DictV()
            # the model may hold the species in another order than the network, and species the network does not name
            m_order = order if not perm else [order[-1], ('Xe2', {'Xe': 2})] + order[:-1]
            for nm, comp in m_order:
                sp = opaque_obj(I, nm, {'get_GoRT': ('T',)})
                sp.attrs['elements'] = DictV({e: C(k) for e, k in comp.items()})
                sp.attrs['name'] = nm
                model.d[nm] = sp
            for nm, comp in order:
                network.d[nm] = D.sym('feed_' + nm)
            eq = Obj('eq', ci, closed=True)
            key = '%s%s%s%s' % (label, ', reversed' if rev else '', ', species given as a list' if as_list else '',
                                ', model in another order with a species more' if perm else '')
            if as_list:
                label = label + ' [species list]'
            if perm:
                label = label + ' [model permuted]'
            r = I.call_method(eq, '__init__', [], {'model': ListV(list(model.d.values())) if as_list else model,
                                                   'network': network})
            n += 1
            if isinstance(r, Raised):
                run.fail('REF.constructor', 'Equilibrium.__init__', label,
                         '[%s] building the problem for species %s raises %s' % (key, [x for x, _ in order], r.exc),
                         owner.module, r.node if getattr(r, 'node', None) is not None else fn)
                continue
            els = []
            for _, comp in order:
                for e in comp:
                    if e not in els:
                        els.append(e)
            got_el = eq.attrs.get('elements')
            got_M = eq.attrs.get('mol_elem')
            got_F = eq.attrs.get('ele_feed')
            got_W = eq.attrs.get('species_mw')
            ok = isinstance(got_el, ListV) and [I.plain(x) for x in got_el.items] == els
            run.check(ok, 'REF.constructor', 'Equilibrium.__init__', label + ' elements',
                      '[%s] element list is %s, expected %s' % (key, show(got_el, 80), els), owner.module, fn)
            if not ok:
                continue
            okM = isinstance(got_M, ListV) and len(got_M) == len(order) and all(
                isinstance(row, ListV) and len(row) == len(els) and
                all(isinstance(v, Rat) and v.eq(C(comp.get(e, 0))) for v, e in zip(row.items, els))
                for row, (_, comp) in zip(got_M.items, order))
            run.check(okM, 'REF.constructor', 'Equilibrium.__init__', label + ' element matrix',
                      '[%s] element matrix is %s' % (key, show(got_M, 160)), owner.module, fn,
                      sample='[%s] mol_elem[i][j] == atoms of element j in species i' % key)
            want_F = [sum((D.sym('feed_' + nm) * comp.get(e, 0) for nm, comp in order), C(0)) for e in els]
            okF = isinstance(got_F, ListV) and len(got_F) == len(els) and all(
                isinstance(v, Rat) and v.eq(w) for v, w in zip(got_F.items, want_F))
            run.check(okF, 'REF.constructor', 'Equilibrium.__init__', label + ' feed totals',
                      '[%s] feed element totals are %s' % (key, show(got_F, 160)), owner.module, fn)
            want_W = [sum((Fr(comp.get(e, 0)) * aw[e] for e in els), Fr(0)) for _, comp in order]
            okW = isinstance(got_W, ListV) and len(got_W) == len(order) and all(
                isinstance(v, Rat) and v.eq(C(w)) for v, w in zip(got_W.items, want_W))
            run.check(okW, 'REF.constructor', 'Equilibrium.__init__', label + ' molar masses',
                      '[%s] species molar masses are %s' % (key, show(got_W, 160)), owner.module, fn)
    run.floor('constructor networks', n, 25)


E_ = 'pmutt/equilibrium/_equilibrium.py'
MUTANTS = [
    {'name': 'jacobian misses the log term pressure', 'expect': ('DERIV.objective-jac', '_objective_jac'),
     'edits': [(E_, '            s[i] = g[i] + np.log(x[i] * p / nT)', '            s[i] = g[i] + np.log(x[i] / nT)')]},
    {'name': 'constraint jac not transposed', 'expect': ('DERIV.constraint-jac', '_constraints1_eq_jac'),
     'edits': [(E_, '        return self.mol_elem.T', '        return self.mol_elem')]},
    {'name': 'mole fractions divided by feed total', 'expect': ('REF.mole-fractions', 'get_net_comp'),
     'edits': [(E_, 'sol.x / np.sum(sol.x)', 'sol.x / np.sum(self.ele_feed)')]},
    {'name': 'constraint sign', 'expect': ('', '_constraints1_eq'),
     'edits': [(E_, '        s = x.dot(self.mol_elem) - self.ele_feed', '        s = x.dot(self.mol_elem) + self.ele_feed')]},
    {'name': 'lower bound zero in a Bounds object', 'expect': ('REF.bounds', 'get_net_comp'),
     'edits': [(E_, "from scipy.optimize import minimize\n", "from scipy.optimize import minimize, Bounds\n"),
               (E_, "        self.bounds = list(repeat(b, len(self.species)))",
                "        self.bounds = Bounds(0., b[1])")]},
    {'name': 'lower bound zero', 'expect': ('REF.bounds', 'get_net_comp'),
     'edits': [(E_, '        b = [1e-20, sum(self.ele_feed)]', '        b = [0., sum(self.ele_feed)]')]},
    {'name': 'module-level filter discards the runtime warnings of the module', 'expect': ('PATH.solver-status', 'get_net_comp'),
     'edits': [(E_, 'warnings.filterwarnings("ignore", "Values in x were outside bounds during a ")\n',
                'warnings.filterwarnings("ignore", "Values in x were outside bounds during a ")\n'
                'warnings.filterwarnings("ignore", category=RuntimeWarning, module=r"pmutt\\.equilibrium")\n')]},
    {'name': 'status test inside a block that ignores all warnings', 'expect': ('PATH.solver-status', 'get_net_comp'),
     'edits': [(E_, "        if not sol.success:\n", "        with warnings.catch_warnings():\n          warnings.simplefilter('ignore')\n          if not sol.success:\n"),
               (E_, "            warnings.warn(warn_msg, RuntimeWarning)\n", "            warnings.warn(warn_msg, RuntimeWarning)\n          pass\n")]},
    {'name': 'species order taken from the model list', 'expect': ('', 'Equilibrium'),
     'edits': [(E_, "        self.species = list(self.network.keys())\n",
                "        self.species = [s_.name for s_ in model if s_.name in self.network] if type(model) is list else list(self.network.keys())\n")]},
    {'name': 'Gibbs energies collected in the order of the model', 'expect': ('REF.objective', ''),
     'edits': [(E_, "        for x in self.species:\n            self.gibbs.append(self.model[x].get_GoRT(T=T))",
                "        for x in self.model:\n          if x in self.species:\n            self.gibbs.append(self.model[x].get_GoRT(T=T))")]},
    {'name': 'feed taken in the order of the model', 'expect': ('REF.constructor', '__init__'),
     'edits': [(E_, "        feed = np.array(list(network.values()))", "        feed = np.array([network[k_] for k_ in self.model if k_ in network])")]},
    # ---- white-box round 2: state between calls and between objects, the exit modes of the solver
    {'name': 'module-level ignore-filter under `if not sys.warnoptions:`', 'expect': ('PATH.solver-status', 'get_net_comp'),
     'edits': [(E_, 'warnings.filterwarnings("ignore", "Values in x were outside bounds during a ")\n',
                'warnings.filterwarnings("ignore", "Values in x were outside bounds during a ")\n'
                'if not sys.warnoptions:\n'
                '    warnings.filterwarnings("ignore", category=RuntimeWarning, module=r"pmutt\\.equilibrium")\n')]},
    {'name': 'non-convergence warned once per object', 'expect': ('PATH.solver-status', 'get_net_comp'),
     'edits': [(E_, "        self.network = network\n", "        self.network = network\n        self._warned = False\n"),
               (E_, "        if not sol.success:\n", "        if not sol.success and not self._warned:\n            self._warned = True\n")]},
    {'name': 'non-convergence warned once per (T, P) in a table of the class', 'expect': ('PATH.solver-status', 'get_net_comp'),
     'edits': [(E_, "    def __init__(self,\n                 model,", "    _told = {}\n\n    def __init__(self,\n                 model,"),
               (E_, "        if not sol.success:\n",
                "        try:\n            self._told[(T, P)]\n            told = True\n        except KeyError:\n"
                "            told = False\n            self._told[(T, P)] = 1\n        if not sol.success and not told:\n")]},
    {'name': 'a failure is remembered: every later call warns', 'expect': ('PATH.solver-status', 'get_net_comp'),
     'edits': [(E_, "        if not sol.success:\n",
                "        self._bad = getattr(self, '_bad', False) or not sol.success\n        if self._bad:\n")]},
    {'name': 'status test on the iteration-limit code only', 'expect': ('PATH.solver-status', 'get_net_comp'),
     'edits': [(E_, "        if not sol.success:\n", "        if sol.status == 9:\n")]},
    {'name': 'status test on the number of iterations and the iteration-limit code', 'expect': ('PATH.solver-status', 'get_net_comp'),
     'edits': [(E_, "        if not sol.success:\n", "        if sol.nit >= self.maxiter or sol.status == 9:\n")]},
    {'name': 'result cache by (T, P) kept in the class', 'expect': ('EFFECT.shared-state', 'get_net_comp'),
     'edits': [(E_, "    def __init__(self,\n                 model,", "    _solved = {}\n\n    def __init__(self,\n                 model,"),
               (E_, "        self.T = T\n        # Model initialization parameters\n",
                "        self.T = T\n        try:\n            return self._solved[(T, P)]\n        except KeyError:\n            pass\n"),
               (E_, "        return res(self.species, sol.x, sol.x/np.sum(sol.x), self.P, self.T)",
                "        self._solved[(T, P)] = res(self.species, sol.x, sol.x/np.sum(sol.x), self.P, self.T)\n"
                "        return self._solved[(T, P)]")]},
    {'name': 'amounts of the first call handed out again', 'expect': ('REF.result', 'get_net_comp'),
     'edits': [(E_, "        return res(self.species, sol.x, sol.x/np.sum(sol.x), self.P, self.T)",
                "        self._x = getattr(self, '_x', sol.x)\n"
                "        return res(self.species, self._x, sol.x/np.sum(sol.x), self.P, self.T)")]},
]
_PAIR = (
    "    def _objective_and_jac(self, x, *args):\n        mu = np.zeros_like(x)\n        s = 0.0\n        nT = sum(x)\n"
    "        g = np.array(args[0])\n        p = args[1]\n        for i in range(len(x)):\n"
    "            mu[i] = g[i] + np.log(x[i]*p/nT)\n            s += x[i]*mu[i]\n        return s, mu\n\n")
EQUIV = [
    # white-box round 2, part B, and the harmless twins of the mutants above
    {'name': 'amounts handed out as a copy of the solver\'s array',
     'edits': [(E_, "        return res(self.species, sol.x, sol.x/np.sum(sol.x), self.P, self.T)",
                "        moles = np.array(sol.x)\n        return res(self.species, moles, moles/np.sum(moles), self.P, self.T)")]},
    {'name': 'objective and gradient from one function, jac=True',
     'edits': [(E_, "    # Elemental Balance Equality Constraint. The returned value\n",
                _PAIR + "    # Elemental Balance Equality Constraint. The returned value\n"),
               (E_, "        sol = minimize(self._objective, self.guess,", "        sol = minimize(self._objective_and_jac, self.guess,"),
               (E_, "                       jac=self._objective_jac,", "                       jac=True,")]},
    {'name': 'the optimisation result read as a dictionary',
     'edits': [(E_, "        if not sol.success:\n", "        if not sol['success']:\n"),
               (E_, "'composition.'.format(sol.message))", "'composition.'.format(sol['message']))"),
               (E_, "        return res(self.species, sol.x, sol.x/np.sum(sol.x), self.P, self.T)",
                "        moles = sol['x']\n        return res(self.species, moles, moles/np.sum(moles), self.P, self.T)")]},
    {'name': 'Gibbs energies and pressure reach the callbacks through closures instead of args',
     'edits': [(E_, "        sol = minimize(self._objective, self.guess,\n                       args=(self.gibbs, self.P*1.01325),\n"
                "                       jac=self._objective_jac,\n",
                "        gibbs, p_bar = self.gibbs, self.P*1.01325\n"
                "        sol = minimize(lambda x: self._objective(x, gibbs, p_bar), self.guess,\n"
                "                       jac=lambda x: self._objective_jac(x, gibbs, p_bar),\n")]},
    {'name': 'result cache by (T, P) kept in the object',
     'edits': [(E_, "        self.network = network\n", "        self.network = network\n        self._solved = {}\n"),
               (E_, "        self.T = T\n        # Model initialization parameters\n",
                "        self.T = T\n        try:\n            return self._solved[(T, P)]\n        except KeyError:\n            pass\n"),
               (E_, "        return res(self.species, sol.x, sol.x/np.sum(sol.x), self.P, self.T)",
                "        self._solved[(T, P)] = res(self.species, sol.x, sol.x/np.sum(sol.x), self.P, self.T)\n"
                "        return self._solved[(T, P)]")]},
    {'name': 'bounds handed over as a scipy.optimize.Bounds object',
     'edits': [(E_, "from scipy.optimize import minimize\n", "from scipy.optimize import minimize, Bounds\n"),
               (E_, "        self.bounds = list(repeat(b, len(self.species)))",
                "        self.bounds = Bounds([b[0]]*len(self.species), [b[1]]*len(self.species))")]},
    {'name': 'status test spelled sol.status != 0',
     'edits': [(E_, "        if not sol.success:\n", "        if sol.status != 0:\n")]},
]
