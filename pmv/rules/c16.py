"""C16 - equilibrium compositions (the clauses visible in the shape of the code)."""
import ast
import itertools
from fractions import Fraction as Fr

from ..nf import Rat, C
from ..source import Unsupported, AnchorError, norm
from ..xlate import Interp, Obj, ListV, DictV, Raised, FuncRef, BoundNative
from .common import same, show, opaque_obj

EQ = 'pmutt.equilibrium.Equilibrium'        # the public path; the defining module is found through the re-export


MODEL_FORMS = ('model in the order of the network', 'model in another order with a species more, as a dict',
               'model in another order with a species more, as a list')


def build(I, repo, net, form):
    """the problem built through the public constructor: concrete compositions, symbolic feed amounts; the model may
    hold the species in another order than the network and species the network does not name"""
    D = I.D
    ci = repo.cls(EQ)
    names = [nm for nm, _ in net]
    comps = dict(net)
    sp = {}
    for nm, comp in list(net) + [('Xe2', {'Xe': 2})]:
        o = opaque_obj(I, nm, {'get_GoRT': ('T',)})
        o.attrs['elements'] = DictV({e: C(k) for e, k in comp.items()})
        o.attrs['name'] = nm
        sp[nm] = o
    if form == MODEL_FORMS[0]:
        order = names
    else:
        order = [names[-1], 'Xe2'] + names[:-1]
    model = DictV()
    for nm in order:
        model.d[nm] = sp[nm]
    network = DictV()
    for nm in names:
        network.d[nm] = D.sym('feed_' + nm)
    eq = Obj('eq', ci, closed=True)
    r = I.call_method(eq, '__init__', [], {'model': ListV(list(model.d.values())) if form == MODEL_FORMS[2] else model,
                                           'network': network})
    return eq, r, names, sp, comps


def check(run, repo):
    run.explanation = (
        'Narrow claim: the parts of C16 whose truth is in the shape of the code. Equilibrium.get_net_comp is '
        'interpreted with scipy.optimize.minimize as an uninterpreted solver that records what it is given and returns '
        'a result object: (a) with success=False a warning or an exception must be produced before the result is '
        'returned; (b) the objective handed over is sum x_i (g_i + ln(x_i p/n)) with g_i the species\' own G/RT at T in '
        'the order of the amounts, and the Jacobian handed over is its exact gradient (symbolic differentiation, 2-4 '
        'species); (c) the equality constraint is x.M - feed.M-totals over the element matrix, its Jacobian is M '
        'transposed (the derivative of the constraint); (d) the lower bound of every amount is a positive constant; '
        '(e) the returned mole fractions are x / sum(x) of the solver\'s amounts. The problems are built through the '
        'public constructor for five networks over 1-4 elements with concrete compositions and symbolic feeds, with '
        'the model in the order of the network and in another order with a species the network does not name (dict '
        'and list). (f) Equilibrium.__init__ itself: element list, element matrix (atoms of element j in species i), '
        'feed element totals and molar masses, in both species orders and with the permuted models. A warning counts '
        'as a signal only if no filter installed by the package (module level, or an enclosing catch_warnings block) '
        'discards it.')
    run.assumptions = ['scipy.optimize.minimize is an uninterpreted solver; SLSQP behaviour is not modelled']
    run.undecided = ['atom conservation, optimality and order independence of the returned composition as numeric '
                     'facts (SLSQP)', 'reaction equilibrium within solver tolerance']
    ci = repo.cls(EQ)
    for m_ in ('get_net_comp', '__init__'):
        run.fn(EQ + '.' + m_)
    owner, fn = repo.find_method(ci, 'get_net_comp')
    for (nlabel, net), form in itertools.product(NETWORKS, MODEL_FORMS):
        ns = len(net)
        for success in (True, False):
            I = Interp(repo)
            D = I.D
            eq, r0, names, sp, comps = build(I, repo, net, form)
            label = '%s, %s' % (nlabel, form)
            if isinstance(r0, Raised):
                run.fail('REF.constructor', 'Equilibrium.__init__', label, '[%s] building the problem raises %s'
                         % (label, r0.exc), owner.module, fn)
                continue
            cap = {}

            def mini(I_, fr, args, kwargs, nd, success=success, ns=ns):
                cap['fun'] = args[0] if args else kwargs.get('fun')
                cap['x0'] = args[1] if len(args) > 1 else kwargs.get('x0')
                cap.update(kwargs)
                sol = Obj('sol', closed=True)
                x = ListV([I_.D.sym('xsol%d' % i) for i in range(ns)])
                x.is_array = True
                x.dtype = 'float'           # the solver works on float64 vectors
                sol.attrs.update({'x': x, 'success': success, 'status': C(0 if success else 9),
                                  'message': 'solver message', 'fun': I_.D.sym('fsol'), 'nit': C(7)})
                cap['sol'] = sol
                return sol
            I.native['scipy.optimize.minimize'] = mini
            T, P = D.sym('T'), D.sym('P')
            res = I.call_method(eq, 'get_net_comp', [], {'T': T, 'P': P})
            if not success:
                signalled = isinstance(res, Raised) or len(I.warnings) > 0
                run.check(signalled, 'PATH.solver-status', 'Equilibrium.get_net_comp', 'success=False',
                          'the solver reports failure (success=False) but the composition is returned without a '
                          'warning or an exception: the success flag of the optimisation result is never consulted',
                          owner.module, fn, sample='minimize(...).success == False -> warning or exception')
                continue
            if isinstance(res, Raised) or not isinstance(res, Obj):
                run.fail('REF.result', 'Equilibrium.get_net_comp', 'result', '[%s] unexpected result %s'
                         % (label, show(res)), owner.module, fn)
                continue
            run.check(len(I.warnings) == 0, 'PATH.solver-status', 'Equilibrium.get_net_comp', 'success=True',
                      'a warning is raised although the solver succeeded', owner.module, fn)
            x = cap['sol'].attrs['x']
            tot = x.items[0]
            for xi in x.items[1:]:
                tot = tot + xi
            mf = res.attrs.get('mole_frac')
            ok = isinstance(mf, ListV) and len(mf) == ns and all(same(a, b / tot) for a, b in zip(mf.items, x.items))
            run.check(ok, 'REF.mole-fractions', 'Equilibrium.get_net_comp', label,
                      'mole fractions are %s, expected x/sum(x) of the solver amounts' % show(mf, 160), owner.module, fn)
            run.check(res.attrs.get('moles') is x and same(res.attrs.get('species'), ListV(list(names))),
                      'REF.result', 'Equilibrium.get_net_comp', label + ' amounts',
                      'returned amounts/species are not the solver\'s x in the species order', owner.module, fn)
            # objective and its Jacobian
            xs = ListV([D.sym('x%d' % i) for i in range(ns)])
            xs.is_array = True
            xs.dtype = 'float'              # the solver hands float64 vectors to the callbacks
            args = cap.get('args')
            fun, jac = cap.get('fun'), cap.get('jac')
            if not (isinstance(fun, FuncRef) and isinstance(jac, FuncRef) and isinstance(args, ListV)):
                run.fail('DATAFLOW.solver-args', 'Equilibrium.get_net_comp', label, 'objective/jac/args not handed to '
                         'the solver as bound methods and a tuple', owner.module, fn)
                continue
            fr_ = None
            from ..xlate import Frame
            fr_ = Frame(I, owner.module, {}, owner, eq)
            val = fr_.apply(fun, [xs] + list(args.items), {}, None)
            grad = fr_.apply(jac, [xs] + list(args.items), {}, None)
            g = [sp[nm].opaque_methods['get_GoRT'](I, sp[nm], [], {'T': T}) for nm in names]
            nT = xs.items[0]
            for xi in xs.items[1:]:
                nT = nT + xi
            p = args.items[1]
            want = C(0)
            for xi, gi in zip(xs.items, g):
                want = want + xi * (gi + D.ln(xi * p / nT))
            o1, f1 = (fun.owner or owner), fun.fn      # whatever the solver was handed
            run.check(isinstance(val, Rat) and val.eq(want), 'REF.objective', 'Equilibrium.' + f1.name, label,
                      'objective is %s, expected sum x_i (g_i + ln(x_i p / n)) with g_i = G_i/RT of species i at T'
                      % show(val, 200), o1.module, f1, sample='[%s] objective == sum x_i(g_i + ln(x_i p/n))' % label)
            o2, f2 = (jac.owner or owner), jac.fn
            okj = isinstance(val, Rat) and isinstance(grad, ListV) and len(grad) == ns and \
                all(isinstance(gr, Rat) and gr.eq(D.d(val, 'x%d' % i)) for i, gr in enumerate(grad.items))
            run.check(okj, 'DERIV.objective-jac', 'Equilibrium.' + f2.name, label,
                      'the Jacobian handed to the solver is not the gradient of the objective: %s' % show(grad, 200),
                      o2.module, f2, sample='[%s] jac_i == d objective / d x_i' % label)
            # pressure handed over: P in atm converted to bar
            run.check(isinstance(p, Rat) and D.d(p, 'P').is_const() and not D.d(p, 'P').iszero(),
                      'DATAFLOW.solver-args', 'Equilibrium.get_net_comp', label + ' pressure',
                      'the pressure handed to the objective is not proportional to P', owner.module, fn)
            # constraints
            con = cap.get('constraints')
            cons = con.items if isinstance(con, ListV) else [con]
            okc = False
            for cd in cons:
                if isinstance(cd, DictV) and cd.d.get('type') == 'eq' and isinstance(cd.d.get('fun'), FuncRef):
                    cv = fr_.apply(cd.d['fun'], [xs], {}, None)
                    els = []
                    for nm in names:
                        els.extend(e for e in comps[nm] if e not in els)
                    ne = len(els)
                    # one balance per element of the network, in whatever order the elements are kept
                    wantc = [sum((xs.items[i] * comps[nm].get(e, 0) - D.sym('feed_' + nm) * comps[nm].get(e, 0)
                                  for i, nm in enumerate(names)), C(0)) for e in els]
                    okc = isinstance(cv, ListV) and len(cv) == ne and all(isinstance(a, Rat) for a in cv.items)
                    left = list(wantc)
                    for a in (cv.items if okc else ()):
                        hit = [w for w in left if a.eq(w)]
                        if hit:
                            left.remove(hit[0])
                    okc = okc and not left
                    o3, f3 = (cd.d['fun'].owner or owner), cd.d['fun'].fn
                    run.check(okc, 'REF.constraint', 'Equilibrium.' + f3.name, label,
                              'the equality constraint is %s, expected for every element of the network (atoms in x) - (atoms in '
                              'the feed)' % show(cv, 160),
                              o3.module, f3)
                    jv = fr_.apply(cd.d['jac'], [xs], {}, None) if isinstance(cd.d.get('jac'), FuncRef) else None
                    okjj = isinstance(cv, ListV) and isinstance(jv, ListV) and len(jv) == len(cv) and all(
                        isinstance(jv.items[j], ListV) and len(jv.items[j]) == ns and
                        all(same(jv.items[j].items[i], D.d(cv.items[j], 'x%d' % i)) for i in range(ns))
                        for j in range(len(cv)))
                    o4, f4 = ((cd.d['jac'].owner or owner), cd.d['jac'].fn) if isinstance(cd.d.get('jac'), FuncRef) \
                        else (owner, fn)
                    run.check(okjj, 'DERIV.constraint-jac', 'Equilibrium.' + f4.name, label,
                              'the constraint Jacobian is not the derivative of the constraint (M transposed): %s'
                              % show(jv, 160), o4.module, f4)
            run.check(okc, 'DATAFLOW.solver-args', 'Equilibrium.get_net_comp', label + ' constraint',
                      'no element-conservation equality constraint is handed to the solver', owner.module, fn)
            # bounds
            bnds = cap.get('bounds')
            okb = isinstance(bnds, ListV) and len(bnds) == ns and all(
                isinstance(b_, ListV) and isinstance(b_.items[0], Rat) and b_.items[0].is_const()
                and b_.items[0].const_value() > 0 for b_ in bnds.items)
            run.check(okb, 'REF.bounds', 'Equilibrium.get_net_comp', label + ' bounds',
                      'amounts are not bounded below by a positive constant for every species: %s' % show(bnds, 120),
                      owner.module, fn)
            # x0 has one entry per species
            x0 = cap.get('x0')
            run.check(isinstance(x0, ListV) and len(x0) == ns, 'DATAFLOW.solver-args', 'Equilibrium.get_net_comp',
                      label + ' x0', 'initial guess does not have one entry per species', owner.module, fn)
            # the same object asked again at other conditions: the problem handed over is that of the new conditions
            T2, P2 = D.sym('T2'), D.sym('P2')
            cap.clear()
            res2 = I.call_method(eq, 'get_net_comp', [], {'T': T2, 'P': P2})
            fun2, args2 = cap.get('fun'), cap.get('args')
            ok2 = isinstance(res2, Obj) and isinstance(fun2, FuncRef) and isinstance(args2, ListV) and len(args2) > 1
            val2 = None
            if ok2:
                val2 = fr_.apply(fun2, [xs] + list(args2.items), {}, None)
                g2 = [sp[nm].opaque_methods['get_GoRT'](I, sp[nm], [], {'T': T2}) for nm in names]
                p2 = args2.items[1]
                want2 = C(0)
                for xi, gi in zip(xs.items, g2):
                    want2 = want2 + xi * (gi + D.ln(xi * p2 / nT))
                ok2 = isinstance(val2, Rat) and val2.eq(want2) and isinstance(p2, Rat) and \
                    isinstance(p, Rat) and same(p2, p / P * P2)
            run.check(ok2, 'REF.objective', 'Equilibrium.get_net_comp', label + ' second call at other conditions',
                      'asked again at (T2, P2) the objective handed to the solver is %s, expected the sum with the '
                      'species\' G/RT at T2 and the pressure P2' % show(val2, 200), owner.module, fn)
    constructor(run, repo)


NETWORKS = [
    ('1 element', [('O2', {'O': 2}), ('O3', {'O': 3}), ('O', {'O': 1})]),
    ('2 elements', [('N2', {'N': 2}), ('H2', {'H': 2}), ('NH3', {'N': 1, 'H': 3})]),
    ('3 elements', [('CO', {'C': 1, 'O': 1}), ('CO2', {'C': 1, 'O': 2}), ('H2', {'H': 2}), ('H2O', {'H': 2, 'O': 1}),
                    ('CH4', {'C': 1, 'H': 4})]),
    ('4 elements', [('HCN', {'H': 1, 'C': 1, 'N': 1}), ('N2', {'N': 2}), ('H2O', {'H': 2, 'O': 1}),
                    ('CO', {'C': 1, 'O': 1}), ('NH3', {'N': 1, 'H': 3})]),
    ('2 elements, 2 species', [('H2', {'H': 2}), ('HF', {'H': 1, 'F': 1})]),
]


def constructor(run, repo):
    """Equilibrium.__init__ interpreted for concrete compositions and symbolic feeds: element list, element matrix,
    feed totals and molar masses for networks over 1-4 elements, in both species orders"""
    from ..fold import fold_value, fold_num
    ci = repo.cls(EQ)
    owner, fn = repo.find_method(ci, '__init__')
    cm = repo.module('pmutt.constants')
    node = cm.assigns.get('atomic_weight', [None])[-1]
    if not isinstance(node, ast.Dict):
        raise AnchorError('pmutt.constants.atomic_weight not found')
    aw = {fold_value(cm, k): fold_num(cm, v).v for k, v in zip(node.keys, node.values)}
    n = 0
    for label0, net in NETWORKS:
        for rev, as_list, perm in ((False, False, False), (True, False, False), (False, True, False),
                                   (False, False, True), (True, True, True)):
            label = label0
            order = list(reversed(net)) if rev else list(net)
            I = Interp(repo)
            D = I.D
            model = DictV()
            network = DictV()
            # the model may hold the species in another order than the network, and species the network does not name
            m_order = order if not perm else [order[-1], ('Xe2', {'Xe': 2})] + order[:-1]
            for nm, comp in m_order:
                sp = opaque_obj(I, nm, {'get_GoRT': ('T',)})
                sp.attrs['elements'] = DictV({e: C(k) for e, k in comp.items()})
                sp.attrs['name'] = nm
                model.d[nm] = sp
            for nm, comp in order:
                network.d[nm] = D.sym('feed_' + nm)
            eq = Obj('eq', ci, closed=True)
            key = '%s%s%s%s' % (label, ', reversed' if rev else '', ', species given as a list' if as_list else '',
                                ', model in another order with a species more' if perm else '')
            if as_list:
                label = label + ' [species list]'
            if perm:
                label = label + ' [model permuted]'
            r = I.call_method(eq, '__init__', [], {'model': ListV(list(model.d.values())) if as_list else model,
                                                   'network': network})
            n += 1
            if isinstance(r, Raised):
                run.fail('REF.constructor', 'Equilibrium.__init__', label,
                         '[%s] building the problem for species %s raises %s' % (key, [x for x, _ in order], r.exc),
                         owner.module, r.node if getattr(r, 'node', None) is not None else fn)
                continue
            els = []
            for _, comp in order:
                for e in comp:
                    if e not in els:
                        els.append(e)
            got_el = eq.attrs.get('elements')
            got_M = eq.attrs.get('mol_elem')
            got_F = eq.attrs.get('ele_feed')
            got_W = eq.attrs.get('species_mw')
            ok = isinstance(got_el, ListV) and [I.plain(x) for x in got_el.items] == els
            run.check(ok, 'REF.constructor', 'Equilibrium.__init__', label + ' elements',
                      '[%s] element list is %s, expected %s' % (key, show(got_el, 80), els), owner.module, fn)
            if not ok:
                continue
            okM = isinstance(got_M, ListV) and len(got_M) == len(order) and all(
                isinstance(row, ListV) and len(row) == len(els) and
                all(isinstance(v, Rat) and v.eq(C(comp.get(e, 0))) for v, e in zip(row.items, els))
                for row, (_, comp) in zip(got_M.items, order))
            run.check(okM, 'REF.constructor', 'Equilibrium.__init__', label + ' element matrix',
                      '[%s] element matrix is %s' % (key, show(got_M, 160)), owner.module, fn,
                      sample='[%s] mol_elem[i][j] == atoms of element j in species i' % key)
            want_F = [sum((D.sym('feed_' + nm) * comp.get(e, 0) for nm, comp in order), C(0)) for e in els]
            okF = isinstance(got_F, ListV) and len(got_F) == len(els) and all(
                isinstance(v, Rat) and v.eq(w) for v, w in zip(got_F.items, want_F))
            run.check(okF, 'REF.constructor', 'Equilibrium.__init__', label + ' feed totals',
                      '[%s] feed element totals are %s' % (key, show(got_F, 160)), owner.module, fn)
            want_W = [sum((Fr(comp.get(e, 0)) * aw[e] for e in els), Fr(0)) for _, comp in order]
            okW = isinstance(got_W, ListV) and len(got_W) == len(order) and all(
                isinstance(v, Rat) and v.eq(C(w)) for v, w in zip(got_W.items, want_W))
            run.check(okW, 'REF.constructor', 'Equilibrium.__init__', label + ' molar masses',
                      '[%s] species molar masses are %s' % (key, show(got_W, 160)), owner.module, fn)
    run.floor('constructor networks', n, 25)


E_ = 'pmutt/equilibrium/_equilibrium.py'
MUTANTS = [
    {'name': 'jacobian misses the log term pressure', 'expect': ('DERIV.objective-jac', '_objective_jac'),
     'edits': [(E_, '            s[i] = g[i] + np.log(x[i] * p / nT)', '            s[i] = g[i] + np.log(x[i] / nT)')]},
    {'name': 'constraint jac not transposed', 'expect': ('DERIV.constraint-jac', '_constraints1_eq_jac'),
     'edits': [(E_, '        return self.mol_elem.T', '        return self.mol_elem')]},
    {'name': 'mole fractions divided by feed total', 'expect': ('REF.mole-fractions', 'get_net_comp'),
     'edits': [(E_, 'sol.x / np.sum(sol.x)', 'sol.x / np.sum(self.ele_feed)')]},
    {'name': 'constraint sign', 'expect': ('', '_constraints1_eq'),
     'edits': [(E_, '        s = x.dot(self.mol_elem) - self.ele_feed', '        s = x.dot(self.mol_elem) + self.ele_feed')]},
    {'name': 'lower bound zero', 'expect': ('REF.bounds', 'get_net_comp'),
     'edits': [(E_, '        b = [1e-20, sum(self.ele_feed)]', '        b = [0., sum(self.ele_feed)]')]},
    {'name': 'module-level filter discards the runtime warnings of the module', 'expect': ('PATH.solver-status', 'get_net_comp'),
     'edits': [(E_, 'warnings.filterwarnings("ignore", "Values in x were outside bounds during a ")\n',
                'warnings.filterwarnings("ignore", "Values in x were outside bounds during a ")\n'
                'warnings.filterwarnings("ignore", category=RuntimeWarning, module=r"pmutt\\.equilibrium")\n')]},
    {'name': 'status test inside a block that ignores all warnings', 'expect': ('PATH.solver-status', 'get_net_comp'),
     'edits': [(E_, "        if not sol.success:\n", "        with warnings.catch_warnings():\n          warnings.simplefilter('ignore')\n          if not sol.success:\n"),
               (E_, "            warnings.warn(warn_msg, RuntimeWarning)\n", "            warnings.warn(warn_msg, RuntimeWarning)\n          pass\n")]},
    {'name': 'species order taken from the model list', 'expect': ('', 'Equilibrium'),
     'edits': [(E_, "        self.species = list(self.network.keys())\n",
                "        self.species = [s_.name for s_ in model if s_.name in self.network] if type(model) is list else list(self.network.keys())\n")]},
    {'name': 'Gibbs energies collected in the order of the model', 'expect': ('REF.objective', ''),
     'edits': [(E_, "        for x in self.species:\n            self.gibbs.append(self.model[x].get_GoRT(T=T))",
                "        for x in self.model:\n          if x in self.species:\n            self.gibbs.append(self.model[x].get_GoRT(T=T))")]},
    {'name': 'feed taken in the order of the model', 'expect': ('REF.constructor', '__init__'),
     'edits': [(E_, "        feed = np.array(list(network.values()))", "        feed = np.array([network[k_] for k_ in self.model if k_ in network])")]},
]
EQUIV = []
